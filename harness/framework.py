"""Shared machinery of the OQuPy verification checks (see DESIGN.md §2.4).

A check for property <Cxx> is the pipeline

  1. translator      tools/translate.py regenerates lean/OQuPyVerif/Generated/*.lean
                     from /repo's working tree,
  2. proof           `lake build OQuPyVerif.Props.<Cxx>`  (theorems re-checked
                     against the regenerated definitions),
  3. audit           no sorry/axiom/native_decide in the sources, `#print axioms`
                     of every listed theorem within {propext, Classical.choice,
                     Quot.sound},
  4. correspondence  the executable Lean model and the real code are run on the
                     same generated inputs and compared,
  5. (only if 1-4 break) failing-input search on the real code.

Exit status: 0 held, 1 violation (a line `VIOLATION property=.. replay=..`),
2 infrastructure problem.
"""
import fcntl
import hashlib
import json
import os
import random
import re
import subprocess
import sys
import time
import traceback

VERIF = os.path.dirname(os.path.dirname(os.path.abspath(__file__)))
LEAN = os.path.join(VERIF, "lean")
REPO = os.environ.get("OQUPY_REPO", "/repo")
if REPO not in sys.path:
    sys.path.insert(0, REPO)      # `import oqupy` resolves to the tree under test
EVID = os.path.join(VERIF, "evidence")
REPLAYS = os.path.join(VERIF, "replays")
CORPUS = os.path.join(VERIF, "corpus")
KNOWN = os.path.join(VERIF, "known_findings.json")
ALLOWED_AXIOMS = {"propext", "Classical.choice", "Quot.sound"}
FORBIDDEN = re.compile(
    r"\bsorry\b|\badmit\b|^\s*axiom\s|native_decide|bv_decide|implemented_by|"
    r"\bunsafe\s|maxHeartbeats\s+0\b")

TRUSTED_COMMON = [
    "Lean 4.33 kernel; axioms propext, Classical.choice, Quot.sound only "
    "(audited with #print axioms on every run); no native_decide, no bv_decide",
    "Lean interpreter evaluating the model's executable definitions in the "
    "correspondence run",
    "tools/translate.py (Python ast -> Lean fragments) and the harness comparators",
]


class Infra(Exception):
    """infrastructure failure (exit 2)"""


def log(*a):
    print(*a, flush=True)


# ---------------------------------------------------------------------------
# translator / lake / audit
# ---------------------------------------------------------------------------

def run_translator(fragments):
    """Regenerate the listed Generated/<fragment>.lean files from /repo.
    Returns (ok, message)."""
    cmd = [sys.executable, os.path.join(VERIF, "tools", "translate.py"),
           "--repo", REPO, "--out", os.path.join(LEAN, "OQuPyVerif", "Generated")
           ] + list(fragments)
    p = subprocess.run(cmd, capture_output=True, text=True)
    if p.returncode != 0:
        return False, (p.stdout + p.stderr).strip()
    return True, p.stdout.strip()


class LakeLock:
    def __enter__(self):
        os.makedirs(os.path.join(LEAN, ".lake"), exist_ok=True)
        self.f = open(os.path.join(LEAN, ".lake", "verif.lock"), "w")
        fcntl.flock(self.f, fcntl.LOCK_EX)
        return self

    def __exit__(self, *a):
        fcntl.flock(self.f, fcntl.LOCK_UN)
        self.f.close()


def lake_build(targets, timeout=3000):
    """Returns (ok, output)."""
    with LakeLock():
        p = subprocess.run(["lake", "build"] + list(targets), cwd=LEAN,
                           capture_output=True, text=True, timeout=timeout)
    return p.returncode == 0, (p.stdout + p.stderr)


def lean_sources(modules):
    """Transitive closure of OQuPyVerif.* imports of the given modules."""
    seen, todo = {}, list(modules)
    while todo:
        m = todo.pop()
        if m in seen:
            continue
        path = os.path.join(LEAN, *m.split(".")) + ".lean"
        if not os.path.exists(path):
            continue
        src = open(path).read()
        seen[m] = path
        for mm in re.findall(r"^import\s+(OQuPyVerif[\w.]*)", src, re.M):
            todo.append(mm)
    return seen


def strip_comments(src):
    src = re.sub(r"/-.*?-/", "", src, flags=re.S)
    src = re.sub(r"--.*", "", src)
    return src


def audit(pid, theorems, extra_modules=()):
    """grep for forbidden constructs and check the axioms of each theorem.
    Returns (ok, report dict)."""
    mods = lean_sources(["OQuPyVerif.Props." + pid] + list(extra_modules))
    bad = []
    for m, path in mods.items():
        for i, line in enumerate(strip_comments(open(path).read()).splitlines()):
            if FORBIDDEN.search(line):
                bad.append(f"{m}:{i+1}: {line.strip()}")
    src = "import OQuPyVerif.Props.%s\n" % pid
    for m in extra_modules:
        src += "import %s\n" % m
    for t in theorems:
        src += "#print axioms %s\n" % t
    tmp = os.path.join(LEAN, ".lake", "audit_%s_%d.lean" % (pid, os.getpid()))
    open(tmp, "w").write(src)
    try:
        p = subprocess.run(["lake", "env", "lean", tmp], cwd=LEAN,
                           capture_output=True, text=True, timeout=1800)
    finally:
        os.unlink(tmp)
    out = p.stdout + p.stderr
    axioms = {}
    # "'name' depends on axioms: [a, b]" | "'name' does not depend on any axioms"
    for mt in re.finditer(r"'([^']+)' depends on axioms:\s*\[([^\]]*)\]", out, re.S):
        axioms[mt.group(1)] = [a.strip() for a in mt.group(2).replace("\n", " ").split(",")]
    for mt in re.finditer(r"'([^']+)' does not depend on any axioms", out):
        axioms[mt.group(1)] = []
    missing = [t for t in theorems if not any(k == t or k.endswith("." + t) or t.endswith("." + k) for k in axioms)]
    extra = {t: [a for a in ax if a not in ALLOWED_AXIOMS] for t, ax in axioms.items()}
    extra = {t: a for t, a in extra.items() if a}
    ok = (not bad) and (not missing) and (not extra) and p.returncode == 0
    return ok, {"forbidden_hits": bad, "missing_theorems": missing,
                "extra_axioms": extra, "axioms": axioms,
                "modules": sorted(mods), "lean_output": out[-2000:] if not ok else ""}


def leanchecker(modules, timeout=3000):
    with LakeLock():
        p = subprocess.run(["lake", "env", "leanchecker"] + list(modules), cwd=LEAN,
                           capture_output=True, text=True, timeout=timeout)
    return p.returncode == 0, (p.stdout + p.stderr)[-2000:]


def driver_imports(pid):
    src = open(os.path.join(LEAN, "Drivers", pid + ".lean")).read()
    return re.findall(r"^import\s+(OQuPyVerif[\w.]*)", src, re.M)


def run_driver(pid, lines, timeout=3000):
    """Pipe `lines` to lean/Drivers/<pid>.lean; returns list of output lines."""
    ok, out = lake_build(driver_imports(pid))
    if not ok:
        raise Infra("the model used by driver %s does not build: %s" % (pid, out[-2500:]))
    inp = "\n".join(lines) + "\n"
    p = subprocess.run(["lake", "env", "lean", "--run", "Drivers/%s.lean" % pid],
                       cwd=LEAN, input=inp, capture_output=True, text=True,
                       timeout=timeout)
    if p.returncode != 0:
        raise Infra("Lean driver %s failed: %s" % (pid, (p.stdout + p.stderr)[-3000:]))
    return p.stdout.splitlines()


# ---------------------------------------------------------------------------
# numbers over the line protocol
# ---------------------------------------------------------------------------

def rat(x):
    """float/int -> 'p/q' exact."""
    if isinstance(x, bool):
        x = int(x)
    if isinstance(x, int):
        return "%d/1" % x
    p, q = float(x).as_integer_ratio()
    return "%d/%d" % (p, q)


def crat(z):
    z = complex(z)
    return rat(z.real) + "," + rat(z.imag)


def parse_rat(s):
    from fractions import Fraction
    p, q = s.split("/") if "/" in s else (s, "1")
    return Fraction(int(p), int(q))


def parse_crat(s):
    re_, im_ = s.split(",")
    return complex(float(parse_rat(re_)), float(parse_rat(im_)))


# ---------------------------------------------------------------------------
# known findings, replays, evidence
# ---------------------------------------------------------------------------

def known_findings(pid):
    if not os.path.exists(KNOWN):
        return [], []
    data = json.load(open(KNOWN))
    kf = [e for e in data.get("known", []) if e["property"] == pid]
    fixed = [e for e in data.get("fixed", []) if e["property"] == pid]
    return kf, fixed


def write_replay(pid, payload):
    os.makedirs(REPLAYS, exist_ok=True)
    blob = json.dumps(payload, sort_keys=True, default=str)
    h = hashlib.sha1(blob.encode()).hexdigest()[:10]
    path = os.path.join(REPLAYS, "%s-%s.json" % (pid, h))
    with open(path, "w") as f:
        json.dump(payload, f, indent=1, sort_keys=True, default=str)
    return path


class Result:
    """Accumulates what a check run did."""

    def __init__(self, pid, tier, seed, level="proof"):
        self.pid, self.tier, self.seed, self.level = pid, tier, seed, level
        self.t0 = time.time()
        self.obligations = []       # (name, ok, detail)
        self.cases = 0              # correspondence evaluations
        self.nontrivial = set()     # distinct non-trivial case keys
        self.samples = []
        self.dist = {}              # input distribution counters
        self.disagreements = []     # correspondence disagreements (dicts)
        self.failing = []           # failing inputs found on the real code: (key, payload)
        self.notes = []
        self.rule = ""
        self.assumptions = []
        self.trusted = list(TRUSTED_COMMON)
        self.not_shown = []
        self.broken = []            # names of broken ties/obligations

    def oblige(self, name, ok, detail=""):
        self.obligations.append((name, bool(ok), detail))
        if not ok:
            self.broken.append(name)

    def count(self, key, n=1):
        self.dist[key] = self.dist.get(key, 0) + n

    def case(self, key, nontrivial=True, sample=None):
        self.cases += 1
        if nontrivial:
            self.nontrivial.add(key)
        if sample is not None and len(self.samples) < 6:
            self.samples.append(sample)

    def disagree(self, what, payload):
        self.disagreements.append({"what": what, "input": payload})
        if "correspondence" not in self.broken:
            self.broken.append("correspondence")

    def fail(self, key, payload):
        """A concrete failing input on the real code (property violated)."""
        self.failing.append((key, payload))

    def evidence(self, violations):
        cov = {
            "obligations": len(self.obligations),
            "discharged": sum(1 for o in self.obligations if o[1]),
            "checker_cmd": "cd /verif/lean && lake build OQuPyVerif.Props.%s "
                           "&& lake env lean <audit: #print axioms>" % self.pid,
            "trusted_base": self.trusted,
            "obligation_list": [{"name": n, "ok": ok, "detail": d[:300]}
                                for n, ok, d in self.obligations],
            "evaluations": max(self.cases, 1),
            "distinct_nontrivial": len(self.nontrivial),
            "rule": self.rule,
            "samples": self.samples or ["(no correspondence cases in this run)"],
            "input_distribution": self.dist,
            "correspondence_disagreements": len(self.disagreements),
            "not_shown_by_this_check": self.not_shown,
            "notes": self.notes,
        }
        ev = {"property_id": self.pid, "tier": self.tier, "seed": self.seed,
              "level": self.level, "coverage": cov,
              "assumptions": self.assumptions,
              "wall_s": round(time.time() - self.t0, 2),
              "violations": violations}
        os.makedirs(EVID, exist_ok=True)
        with open(os.path.join(EVID, self.pid + ".json"), "w") as f:
            json.dump(ev, f, indent=1, default=str)


def standard_pipeline(res, fragments, theorems, thorough_checker=True, extra_modules=()):
    """Steps 1-3.  Records obligations into `res`.  `extra_modules`: further Props modules whose
    theorems this property relies on (built and audited together)."""
    pid = res.pid
    if fragments:
        ok, msg = run_translator(fragments)
        res.oblige("translator:" + ",".join(fragments), ok, msg)
        if not ok:
            log("translator cannot read the source: " + msg)
    targets = ["OQuPyVerif.Props." + pid] + list(extra_modules)
    ok, out = lake_build(targets)
    res.oblige("lake build " + " ".join(targets), ok, "" if ok else out[-3000:])
    if not ok:
        log("proof obligations of %s no longer check:\n%s" % (pid, out[-3000:]))
        return
    ok, rep = audit(pid, theorems, extra_modules)
    for t in theorems:
        tok = (t not in rep["missing_theorems"]) and not any(
            k == t or k.endswith("." + t) for k in rep["extra_axioms"])
        res.oblige("theorem " + t, tok, json.dumps(rep["axioms"].get(t, "")))
    res.oblige("audit (no sorry/axiom/native_decide; axioms within standard three)",
               ok, "" if ok else json.dumps(rep)[:3000])
    if not ok:
        log("audit failed: " + json.dumps(rep)[:3000])
    if res.tier == "thorough" and thorough_checker:
        mods = [m for m in rep["modules"]]
        ok, out = leanchecker(mods)
        res.oblige("leanchecker " + " ".join(mods), ok, "" if ok else out)


def finish(res, search=None):
    """Decide the outcome (DESIGN §2.4 step 4)."""
    pid = res.pid
    kf, _fixed = known_findings(pid)
    known_keys = {e["key"] for e in kf}
    if res.broken and search is not None and all(k in known_keys for k, _ in res.failing):
        # (failing inputs that are listed known findings do not explain a broken obligation)
        log("a proof obligation or tie broke (%s); searching the real code for a "
            "failing input ..." % ", ".join(res.broken))
        try:
            search(res)
        except Exception:
            res.notes.append("search raised: " + traceback.format_exc()[-1500:])
    reported_known = set()
    new = []
    for key, payload in res.failing:
        if key in known_keys:
            reported_known.add(key)
        else:
            new.append((key, payload))
    for e in kf:
        if e["key"] in reported_known or e.get("always_report", True):
            log("KNOWN-FINDING: property=%s %s" % (pid, e["what"]))
    if new:
        # one VIOLATION per distinct key
        seen = set()
        for key, payload in new:
            if key in seen:
                continue
            seen.add(key)
            if len(seen) > 6:       # one replay each for the first six distinct failing inputs
                continue
            path = write_replay(pid, {"property": pid, "key": key, "failing_input": payload,
                                      "broken": res.broken, "seed": res.seed})
            log("VIOLATION property=%s replay=%s" % (pid, path))
        res.evidence(len(seen))
        return 1
    # disagreements / broken obligations that are fully explained by known findings
    unexplained = [b for b in res.broken]
    if unexplained and not _explained_by_known(res, known_keys):
        path = write_replay(pid, {"property": pid, "no_longer_checks": res.broken,
                                  "obligations": [o for o in res.obligations if not o[1]],
                                  "disagreements": res.disagreements[:5],
                                  "seed": res.seed})
        log("VIOLATION property=%s replay=%s no-failing-input-found" % (pid, path))
        res.evidence(1)
        return 1
    res.evidence(0)
    log("OK property=%s tier=%s obligations=%d/%d cases=%d nontrivial=%d wall=%.1fs" % (
        pid, res.tier, sum(1 for o in res.obligations if o[1]), len(res.obligations),
        res.cases, len(res.nontrivial), time.time() - res.t0))
    return 0


def _explained_by_known(res, known_keys):
    """Broken items are explained only if nothing but known failing inputs was found
    AND the only broken item is one explicitly marked as expected-by-known."""
    return False


def main(pid, run):
    import argparse
    ap = argparse.ArgumentParser()
    ap.add_argument("--tier", default=os.environ.get("VERIF_TIER", "quick"))
    ap.add_argument("--replay", default=None)
    a = ap.parse_args(sys.argv[2:])
    seed = int(os.environ.get("VERIF_SEED", "0"))
    try:
        # the harness asks the quadratures for tolerances near machine precision on purpose;
        # scipy's "requested tolerance cannot be achieved" notes would only clutter the output
        import warnings
        from scipy.integrate import IntegrationWarning
        warnings.filterwarnings("ignore", category=IntegrationWarning)
    except Exception:                                       # noqa: BLE001
        pass
    try:
        rc = run(a.tier, seed, a.replay)
    except Infra as e:
        log("INFRASTRUCTURE: %s" % e)
        rc = 2
    except subprocess.TimeoutExpired as e:
        log("INFRASTRUCTURE: timeout %s" % e)
        rc = 2
    except Exception:                                   # noqa: BLE001
        # An exception nobody expected.  If the code under test raised it on an input the
        # correspondence generates (and handles on the unchanged tree), the tie between model and
        # implementation is broken: report it like any other broken tie (search for a failing
        # input, then VIOLATION).  If no frame of the traceback lies in the tree under test it is
        # a fault of the machinery: exit 2.
        tb = traceback.format_exc()
        tree = os.path.realpath(os.environ.get("OQUPY_REPO", "/repo"))
        frames = [l for l in tb.splitlines() if l.strip().startswith("File ")]
        if not any(('"' + tree + os.sep) in l for l in frames):
            log("INFRASTRUCTURE: unexpected exception in the machinery\n" + tb[-3000:])
            rc = 2
        else:
            log("the implementation raised during the correspondence run:\n" + tb[-1500:])
            res = Result(pid, a.tier, seed, level="proof")
            res.oblige("correspondence run: the implementation raised on an input of the "
                       "correspondence", False, tb[-3000:])
            mod = sys.modules.get(getattr(run, "__module__", ""))
            srch = getattr(mod, "search", None)
            try:
                rc = finish(res, (lambda r: srch(r)) if srch is not None else None)
            except Exception:                           # noqa: BLE001
                log("INFRASTRUCTURE: " + traceback.format_exc()[-2000:])
                rc = 2
    sys.exit(rc)
