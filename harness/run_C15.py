"""C15 — results are covariant under translation of the time origin.  See DESIGN.md §4 C15.

Proof: Props/C15.lean over the regenerated table Generated/TimeExprs.lean (one obligation per
time expression of the source; `all_sites_ok` is evaluated by the kernel on the table).

Correspondence (real code, in-process):
  table   the driver prints the table the theorems quantify over (names, variables, roles);
  sites   every site whose source text can be evaluated stand-alone is evaluated by CPython on
          random binary64 inputs and by the Lean FloatModel reading of the generated expression:
          bit-exact;
  runs    Tempo, MeanFieldTempo, PtTempo + compute_dynamics (float/int controls),
          compute_dynamics_with_field, compute_correlations (float times) are run at start s and
          at start s+tau with every user callable moved along; all time arguments the callables
          (and scipy's quad_vec) receive are logged:
            logged_shifted - tau  vs  logged_unshifted     1e-12 * scale
            states / fields / correlation values             1e-9
            reported times - tau                             1e-12 * scale
          and the logged arguments / labels / selected steps of the UNSHIFTED and SHIFTED runs
          are compared bit-exactly with the FloatModel value of the generated expressions.

search(): the shifted-vs-unshifted differential alone, judged by the property text.
"""
import glob
import json
import os
import random
import re
from fractions import Fraction
from types import SimpleNamespace as NS

import numpy as np

from . import framework as fw
from .framework import rat, parse_rat

PID = "C15"
P = "OQuPyVerif.Props.C15."
THEOREMS = [P + n for n in (
    "all_sites_ok", "shift_invariant", "time_sites_covariant", "inv_sites_invariant",
    "rounding_sites_exact", "all_probes_ok", "probe_shift_invariant", "tempo_time_agrees", "mft_time_agrees", "tebd_time_agrees",
    "cd_labels_agree", "control_rounding_agrees", "machine_covariant", "tempo_tds_covariant",
    "mft_field_covariant", "controls_covariant", "correlation_times_covariant", "site_shapes",
    "time_sites_binary64_residue_partial", "inv_sites_binary64_exact")] + [
    "OQuPyVerif.TimeShift.wt_sound", "OQuPyVerif.TimeShift.machine_shift",
    "OQuPyVerif.TimeShift.evalF_timePlusInv_residue", "OQuPyVerif.TimeShift.evalF_diffOnly",
]

TOL_TIME = 1e-12
TOL_VAL = 1e-9


# ---------------------------------------------------------------------------
# real runs with logging user callables
# ---------------------------------------------------------------------------

class TLog:
    def __init__(self):
        self.entries = []

    def __call__(self, channel, t):
        self.entries.append((channel, float(t)))

    def clear(self):
        self.entries = []


def _ops():
    from oqupy import operators as op
    return NS(sx=op.sigma("x"), sy=op.sigma("y"), sz=op.sigma("z"), sm=op.sigma("-"),
              up=op.spin_dm("z+"), xp=op.spin_dm("x+"), op=op)


def make_callables(tau, log, typed=None, pulsed=None):
    """explicitly time dependent inputs, all moved by tau: f'(t) = f(t - tau).
    With `typed = u_b` the RETURN TYPE of every callable changes at u = t - tau = u_b
    (int vs float rate, real vs complex dtype of the operators), as user code does that writes
    `0` for a switched-off rate or a real x-pulse after a complex y-pulse."""
    o = _ops()
    if typed is not None:
        return make_typed_callables(tau, log, typed)
    if pulsed is not None:
        return make_pulsed_callables(tau, log, pulsed)

    def ham(t):
        log("hamiltonian", t)
        u = float(t) - tau
        return 0.5 * o.sx + 0.4 * np.cos(1.3 * u) * o.sz + 0.15 * u * o.sy

    def gam(t):
        log("rate", t)
        u = float(t) - tau
        return 0.1 + 0.05 * np.sin(0.7 * u) ** 2

    def lop(t):
        log("lindblad", t)
        u = float(t) - tau
        return o.sm + 0.1 * u * o.sz

    def ham_f(t, a):
        log("hamiltonian", t)
        u = float(t) - tau
        return 0.5 * o.sx + (0.3 * np.cos(1.1 * u) + 0.2 * np.real(a)) * o.sz + 0.1 * np.imag(a) * o.sy

    def eom(t, states, a):
        log("field_eom", t)
        u = float(t) - tau
        return (-0.1j - 0.05 * np.cos(0.9 * u)) * a + (0.05 + 0.02 * u) * np.trace(o.sx @ states[0])

    return NS(ham=ham, gam=gam, lop=lop, ham_f=ham_f, eom=eom)


def make_pulsed_callables(tau, log, pulsed):
    """rates and Lindblad operators that are short pulses BETWEEN integer times (centre c, width
    w, in the unshifted coordinate u = t - tau): they take the same value at every integer u, so
    code that samples the callables at fixed absolute times sees them constant at one origin and
    varying at another"""
    o = _ops()
    c, w = pulsed

    def bump(u):
        return float(np.exp(-((u - c) / w) ** 2))

    def ham(t):
        log("hamiltonian", t)
        u = float(t) - tau
        return 0.5 * o.sx + 0.4 * np.cos(1.3 * u) * o.sz

    def gam(t):
        log("rate", t)
        return 2.5 * bump(float(t) - tau)

    def lop(t):
        log("lindblad", t)
        return o.sm + 0.6 * bump(float(t) - tau) * o.sz

    def ham_f(t, a):
        log("hamiltonian", t)
        u = float(t) - tau
        return 0.5 * o.sx + (0.3 * np.cos(1.1 * u) + 0.2 * np.real(a)) * o.sz

    def eom(t, states, a):
        log("field_eom", t)
        u = float(t) - tau
        return (-0.1j - 0.05 * np.cos(0.9 * u)) * a + 0.05 * np.trace(o.sx @ states[0])

    return NS(ham=ham, gam=gam, lop=lop, ham_f=ham_f, eom=eom)


def make_typed_callables(tau, log, ub):
    SX = np.array([[0.0, 1.0], [1.0, 0.0]])
    SY = np.array([[0.0, -1.0j], [1.0j, 0.0]])
    SZ = np.array([[1.0, 0.0], [0.0, -1.0]])
    SM = np.array([[0.0, 0.0], [1.0, 0.0]])

    def ham(t):
        log("hamiltonian", t)
        u = float(t) - tau
        if u < ub:
            return 1.1 * SY + 0.2 * SZ            # complex dtype
        return 0.7 * SX + 0.3 * SZ                # real dtype

    def gam(t):
        log("rate", t)
        u = float(t) - tau
        if u > ub:
            return 0                              # switched off: an int
        return 0.8 * (ub - u) ** 2 + 0.3 * (ub - u) + 0.05

    def lop(t):
        log("lindblad", t)
        u = float(t) - tau
        if u < ub:
            return SM                             # real dtype
        return SM + 0.3j * SZ                     # complex dtype

    def ham_f(t, a):
        log("hamiltonian", t)
        u = float(t) - tau
        h = (0.5 + 0.2 * np.real(a)) * SX + 0.3 * SZ      # real dtype
        if u < ub:
            return h
        return h + (0.4 + 0.1 * np.imag(a)) * SY          # complex dtype

    def eom(t, states, a):
        log("field_eom", t)
        u = float(t) - tau
        if u < ub:
            return -0.1j * a + 0.05 * np.trace(SX @ states[0])
        return 0                                  # an int

    return NS(ham=ham, gam=gam, lop=lop, ham_f=ham_f, eom=eom)


class QuadPatch:
    """log the integration bounds handed to scipy.integrate.quad_vec by oqupy.system"""

    def __init__(self, log):
        self.log = log

    def __enter__(self):
        import oqupy.system as osys
        self.mod = osys
        self.orig = osys.integrate
        orig_qv = self.orig.quad_vec
        log = self.log

        def quad_vec(f, a, b, **kw):
            log("quad_a", a)
            log("quad_b", b)
            return orig_qv(f, a=a, b=b, **kw)
        osys.integrate = NS(quad_vec=quad_vec)
        return self

    def __exit__(self, *a):
        self.mod.integrate = self.orig


def end_of(start, p):
    return start + (p["n"] + p.get("frac", 0.0)) * p["dt"]


def run_tempo(p, start, tau):
    import oqupy
    from . import oq
    log = TLog()
    c = make_callables(tau, log, p.get("typed"), p.get("pulsed"))
    o = _ops()
    sysm = oqupy.TimeDependentSystem(c.ham, gammas=[c.gam], lindblad_operators=[c.lop])
    params = oqupy.TempoParameters(dt=p["dt"], epsrel=1e-12, dkmax=2, subdiv_limit=p["subdiv"],
                                   liouvillian_epsrel=1e-12)
    tempo = oqupy.Tempo(system=sysm, bath=oq.cheap_bath(), parameters=params,
                        initial_state=o.up, start_time=start)
    log.clear()
    with QuadPatch(log):
        for m in p.get("history", []):           # earlier compute() calls on the same object
            tempo.compute(start + m * p["dt"], progress_type="silent")
        dyn = tempo.compute(end_of(start, p), progress_type="silent")
    return {"times": [float(t) for t in dyn.times], "values": {"states": np.array(dyn.states)},
            "log": log.entries}


def run_mft(p, start, tau):
    import oqupy
    from . import oq
    log = TLog()
    c = make_callables(tau, log, p.get("typed"), p.get("pulsed"))
    o = _ops()
    tsys = oqupy.TimeDependentSystemWithField(c.ham_f, gammas=[c.gam], lindblad_operators=[c.lop])
    mfs = oqupy.MeanFieldSystem([tsys], c.eom)
    params = oqupy.TempoParameters(dt=p["dt"], epsrel=1e-12, dkmax=2, subdiv_limit=p["subdiv"],
                                   liouvillian_epsrel=1e-12)
    mft = oqupy.MeanFieldTempo(mean_field_system=mfs, bath_list=[oq.cheap_bath()],
                               initial_state_list=[o.up], initial_field=1.0 + 0.5j,
                               start_time=start, parameters=params)
    log.clear()
    with QuadPatch(log):
        for m in p.get("history", []):
            mft.compute(start + m * p["dt"], progress_type="silent")
        dyn = mft.compute(end_of(start, p), progress_type="silent")
    return {"times": [float(t) for t in dyn.times],
            "values": {"fields": np.array(dyn.fields),
                       "states": np.array(dyn.system_dynamics[0].states)},
            "log": log.entries}


def _control(p, start):
    """float-keyed controls at start + (k+f)*dt (f away from the rounding ties), int-keyed ones"""
    import oqupy
    o = _ops()
    ctrl = oqupy.Control(2)
    kick = o.op.left_right_super(np.array([[np.cos(0.3), -np.sin(0.3)], [np.sin(0.3), np.cos(0.3)]]),
                                 np.array([[np.cos(0.3), np.sin(0.3)], [-np.sin(0.3), np.cos(0.3)]]))
    deph = 0.9 * np.eye(4) + 0.1 * o.op.left_right_super(o.sz, o.sz)
    times = []
    for (k, f, post, which) in p.get("controls", []):
        t = start + (k + f) * p["dt"]
        times.append(t)
        ctrl.add_single(float(t), kick if which == 0 else deph, post=bool(post))
    for (k, post) in p.get("step_controls", []):
        ctrl.add_single(int(k), deph, post=bool(post))
    return ctrl, times


def run_pt_cd(p, start, tau):
    """PtTempo for [start, start+n dt] + compute_dynamics on a TimeDependentSystem with controls"""
    import oqupy
    from . import oq
    log = TLog()
    c = make_callables(tau, log, p.get("typed"), p.get("pulsed"))
    o = _ops()
    if p.get("real_pt", True):
        ptt = oqupy.PtTempo(bath=oq.cheap_bath(), start_time=start, end_time=end_of(start, p),
                            parameters=oq.cheap_params(p["dt"], epsrel=1e-12))
        pt = ptt.get_process_tensor(progress_type="silent")
    else:
        pt = oq.identity_pt(p["n"], dt=p["dt"])
    sysm = oqupy.TimeDependentSystem(c.ham, gammas=[c.gam], lindblad_operators=[c.lop])
    ctrl, ctimes = _control(p, start)
    log.clear()
    import contextlib
    import io
    with QuadPatch(log), contextlib.redirect_stdout(io.StringIO()):
        dyn = oqupy.compute_dynamics(system=sysm, initial_state=o.up, dt=p["dt"],
                                     start_time=start, process_tensor=pt, control=ctrl,
                                     record_all=p.get("record_all", True),
                                     subdiv_limit=p["subdiv"], liouvillian_epsrel=1e-12,
                                     progress_type="silent")
        sel = control_steps(ctrl, p, start)
    return {"times": [float(t) for t in dyn.times], "values": {"states": np.array(dyn.states)},
            "log": log.entries, "pt_len": len(pt), "control_times": ctimes, "control_steps": sel}


def control_steps(ctrl, p, start):
    """for every float control time: the steps at which the real get_controls applies it
    (observed by removing every other control)"""
    out = []
    for pp in ("pre", "post"):
        for t in list(ctrl._control_times[pp]):
            hits = []
            for k in range(0, p["n"] + 1):
                import oqupy
                solo = oqupy.Control(2)
                solo.add_single(float(t), np.eye(4), post=(pp == "post"))
                pre, post = solo.get_controls(k, dt=p["dt"], start_time=start)
                if (pre if pp == "pre" else post) is not None:
                    hits.append(k)
            out.append((pp, float(t), hits))
    return out


def run_cdwf(p, start, tau):
    import oqupy
    from . import oq
    log = TLog()
    c = make_callables(tau, log, p.get("typed"), p.get("pulsed"))
    o = _ops()
    tsys = oqupy.TimeDependentSystemWithField(c.ham_f, gammas=[c.gam], lindblad_operators=[c.lop])
    mfs = oqupy.MeanFieldSystem([tsys], c.eom)
    ctrl, ctimes = _control(p, start)
    log.clear()
    import contextlib
    import io
    with QuadPatch(log), contextlib.redirect_stdout(io.StringIO()):
        dyn = oqupy.compute_dynamics_with_field(
            mfs, initial_field=1.0 + 0.5j, initial_state_list=[o.up], dt=p["dt"],
            num_steps=p["n"], start_time=start, control_list=[ctrl],
            process_tensor_list=[oq.identity_pt(p["n"], dt=p["dt"])],
            record_all=p.get("record_all", True), subdiv_limit=p["subdiv"],
            liouvillian_epsrel=1e-12, progress_type="silent")
    return {"times": [float(t) for t in dyn.times],
            "values": {"fields": np.array(dyn.fields),
                       "states": np.array(dyn.system_dynamics[0].states)},
            "log": log.entries}


def _corr_spec(spec, start, dt):
    kind = spec[0]
    if kind == "float":
        return float(start + (spec[1] + spec[2]) * dt)
    if kind == "interval":
        return (float(start + (spec[1] + spec[2]) * dt), float(start + (spec[3] + spec[4]) * dt))
    raise ValueError(kind)


def run_corr(p, start, tau):
    import oqupy
    from . import oq
    log = TLog()
    c = make_callables(tau, log, p.get("typed"), p.get("pulsed"))
    o = _ops()
    sysm = oqupy.TimeDependentSystem(c.ham, gammas=[c.gam], lindblad_operators=[c.lop])
    pt = oq.identity_pt(p["n"], dt=p["dt"])
    ta = _corr_spec(p["times_a"], start, p["dt"])
    tb = _corr_spec(p["times_b"], start, p["dt"])
    log.clear()
    with QuadPatch(log):
        times, corr = oqupy.compute_correlations(
            system=sysm, process_tensor=pt, operator_a=o.sx, operator_b=o.sz, times_a=ta,
            times_b=tb, time_order=p.get("order", "ordered"), initial_state=o.up,
            start_time=float(start), dt=p["dt"], progress_type="silent")
    axes = [[float(x) for x in np.atleast_1d(t)] for t in times]
    flat = [x for ax in axes for x in ax]
    return {"times": flat, "axes": axes, "values": {"correlations": np.array(corr)},
            "log": log.entries, "times_a": ta, "times_b": tb}


_GUESS_BATH = None


def run_guess(p, start, tau):
    """library-estimated parameters: guess_tempo_parameters(system=...) and, with p['compute'],
    tempo_compute(parameters=None) for a driven two level system whose pulse limits dt"""
    import oqupy
    global _GUESS_BATH
    o = _ops()
    log = TLog()
    c0, w, amp = p["pulse"], p.get("width", 0.4), p.get("amp", 2.0)

    def ham(t):
        log("hamiltonian", t)
        u = float(t) - tau
        return 0.1 * o.sz + amp * np.exp(-((u - c0) / w) ** 2) * o.sx

    def gam(t):
        log("rate", t)
        return 0.05 * (1.0 + np.tanh(float(t) - tau - 1.5))

    def lop(t):
        log("lindblad", t)
        return o.sm
    sysm = oqupy.TimeDependentSystem(ham, gammas=[gam], lindblad_operators=[lop])
    if _GUESS_BATH is None:
        corr = oqupy.PowerLawSD(alpha=0.05, zeta=1.0, cutoff=2.0, cutoff_type="exponential",
                                temperature=0.0)
        _GUESS_BATH = oqupy.Bath(0.5 * o.sz, corr)
    end = start + p["duration"]
    log.clear()
    par = oqupy.guess_tempo_parameters(bath=_GUESS_BATH, start_time=start, end_time=end,
                                       system=sysm, tolerance=p["tolerance"])
    out = {"times": [], "values": {"estimated-parameters": np.array([par.dt, float(par.dkmax), par.epsrel])},
           "tols": {"estimated-parameters": 1e-12, "states": 1e-5},
           "guess_log": list(log.entries), "end": end}
    if p.get("compute"):
        with QuadPatch(log):
            dyn = oqupy.tempo_compute(system=sysm, bath=_GUESS_BATH, initial_state=o.up,
                                      start_time=start, end_time=end, tolerance=p["tolerance"],
                                      progress_type="silent")
        out["times"] = [float(t) for t in dyn.times]
        out["values"]["states"] = np.array(dyn.states)
    out["log"] = log.entries
    return out


GENERIC_APIS = ["tempo", "mft", "pt+compute_dynamics", "compute_dynamics_with_field",
                "compute_correlations"]
RUNNERS = {"tempo": run_tempo, "mft": run_mft, "pt+compute_dynamics": run_pt_cd,
           "compute_dynamics_with_field": run_cdwf, "compute_correlations": run_corr,
           "guess_tempo_parameters": run_guess, "tempo_compute": run_guess}


def scale(*xs):
    return max([1.0] + [abs(float(x)) for x in xs])


def differential(api, p, start, tau):
    """shifted vs unshifted real runs, judged by the property text.
    Returns (list of discrepancies, base result, shifted result)."""
    shifted_start = float(start + tau)
    tau_eff = float(Fraction(shifted_start) - Fraction(float(start)))
    base = RUNNERS[api](p, float(start), 0.0)
    shif = RUNNERS[api](p, shifted_start, tau_eff)
    bad = []
    # reported times move by exactly tau
    if len(base["times"]) != len(shif["times"]):
        bad.append(("reported-times", "number of reported times: %d unshifted, %d shifted"
                    % (len(base["times"]), len(shif["times"]))))
    else:
        for i, (a, b) in enumerate(zip(base["times"], shif["times"])):
            if abs((b - tau_eff) - a) > TOL_TIME * scale(a, b, tau_eff):
                bad.append(("reported-times", "reported time #%d: %r unshifted, %r shifted "
                            "(minus tau: %r)" % (i, a, b, b - tau_eff)))
                break
    # states / fields / values unchanged
    for name, v in base["values"].items():
        w = shif["values"][name]
        if v.shape != w.shape:
            bad.append((name, "%s: shape %s unshifted, %s shifted" % (name, v.shape, w.shape)))
        else:
            m = np.isnan(v) & np.isnan(w)
            d = np.abs(np.where(m, 0, v - w))
            if np.isnan(d).any() or (d.size and d.max() > base.get("tols", {}).get(name, TOL_VAL)):
                idx = int(np.nanargmax(np.where(np.isnan(d), np.inf, d))) if d.size else 0
                worst = float(np.nanmax(d)) if not np.isnan(d).all() else float("nan")
                bad.append((name, "%s differ by %.3e (flat index %d)" % (name, worst, idx)))
    # every time argument the callables saw moves by exactly tau
    la, lb = base["log"], shif["log"]
    if [c for c, _ in la] == [c for c, _ in lb]:
        for i, ((c, a), (_, b)) in enumerate(zip(la, lb)):
            if abs((b - tau_eff) - a) > TOL_TIME * scale(a, b, tau_eff):
                bad.append(("time-argument-of-" + c,
                            "time argument #%d of %s: %r unshifted, %r shifted (minus tau: %r)"
                            % (i, c, a, b, b - tau_eff)))
                break
    else:
        # the adaptive integrator may in principle subdivide differently; then only the calls
        # outside quad_vec are comparable -- the set of distinct argument values still is
        sa = sorted(set(round(a, 9) for _, a in la))
        sb = sorted(set(round(b - tau_eff, 9) for _, b in lb))
        if sa != sb and not any(c.startswith("quad") for c, _ in la):
            bad.append(("call-pattern", "the callables are invoked in a different pattern "
                        "(%d vs %d calls)" % (len(la), len(lb))))
    if "control_steps" in base:
        sa = [(pp, h) for pp, _, h in base["control_steps"]]
        sb = [(pp, h) for pp, _, h in shif["control_steps"]]
        if sa != sb:
            bad.append(("control-steps", "float control times are applied at steps %r unshifted, "
                        "%r shifted" % (sa, sb)))
    return bad, base, shif, tau_eff


# ---------------------------------------------------------------------------
# case generation
# ---------------------------------------------------------------------------

STARTS = [0.0, 0.5, -0.3, 1.7]
TAUS = [1.0, -0.3, 0.37, -2.718281828, 12.5, 0.05, -40.0, 3.14159, 1e-3]


def gen_cases(rng, tier):
    cases = []
    nper = 2 if tier == "quick" else 8

    def taus(k):
        out = rng.sample(TAUS, min(k, len(TAUS)))
        out += [rng.uniform(-20, 20) for _ in range(max(0, k - len(out)))]
        return out
    for api in GENERIC_APIS:
        for j in range(nper):
            dt = rng.choice([0.1, 0.2, 0.05, 0.13])
            n = rng.choice([2, 3]) if tier == "quick" else rng.choice([2, 3, 4])
            p = {"dt": dt, "n": n, "subdiv": (None if j % 2 == 0 else 64)}
            if api in ("tempo", "mft", "pt+compute_dynamics"):
                p["frac"] = rng.choice([0.0, 0.3]) if api != "pt+compute_dynamics" else 0.0
            if api in ("pt+compute_dynamics", "compute_dynamics_with_field"):
                p["record_all"] = bool(rng.getrandbits(1)) if j else True
                p["controls"] = [(rng.randrange(0, n + 1), rng.uniform(-0.35, 0.35),
                                  rng.getrandbits(1), rng.getrandbits(1))
                                 for _ in range(rng.choice([1, 2, 3]))]
                p["step_controls"] = [(rng.randrange(0, n + 1), rng.getrandbits(1))
                                      for _ in range(rng.choice([0, 1]))]
                p["real_pt"] = (j % 2 == 0)
            if api == "compute_correlations":
                f = lambda: rng.uniform(-0.35, 0.35)
                ka = rng.randrange(0, n)
                p["times_a"] = rng.choice([("float", ka, f() if ka > 0 else abs(f())),
                                           ("interval", 0, abs(f()), ka, f() if ka > 0 else abs(f()))])
                lo = rng.randrange(0, n)
                p["times_b"] = ("interval", lo, f() if lo > 0 else abs(f()), n, -abs(f()))
                p["order"] = rng.choice(["ordered", "anti"])
                p["subdiv"] = 64     # compute_correlations cannot pass subdiv_limit on: always quad_vec
            start = rng.choice(STARTS + [rng.uniform(-3, 3)])
            for tau in taus(2 if tier == "quick" else 4):
                cases.append((api, p, start, tau))
    cases += typed_cases(rng, 1 if tier == "quick" else 3)
    cases += far_cases(rng, 1 if tier == "quick" else 3)
    cases += guess_cases(rng, tier)
    cases += pulsed_cases(rng, tier)
    cases += history_cases(rng, tier)
    cases += control_cases(rng, tier)
    return cases


CONTROL_APIS = ["pt+compute_dynamics", "compute_dynamics_with_field"]


def _ctrl_params(controls, n=6):
    return {"dt": 0.1, "n": n, "subdiv": None, "frac": 0.0, "record_all": True,
            "controls": controls, "step_controls": [], "real_pt": False}


def control_cases(rng, tier):
    """float-time controls (a) one step apart at origins far from zero, (b) with a shift that puts a
    control time EXACTLY on t = 0.0 (start' = -(k*dt), so start' + k*dt == 0.0 in binary64)"""
    out = []
    fars = [3.0e4, -3.0e4, 1.0e5]
    for i, api in enumerate(CONTROL_APIS):
        # (a) different operations on consecutive steps, pre and post
        taus = [fars[(i + rng.randrange(3)) % 3]] if tier == "quick" else fars
        for tau in taus:
            k0 = rng.choice([1, 2, 3])
            ctr = [(k0, 0.0, 0, 0), (k0 + 1, 0.0, 0, 1), (k0 + 2, 0.0, 1, 0), (k0 + 1, 0.0, 1, 1)]
            out.append((api, _ctrl_params(ctr), 0.0, tau))
        # (b) a pre / a post control exactly at t = 0.0 after the shift
        ks = [(rng.choice([2, 3, 4]), rng.getrandbits(1))] if tier == "quick" \
            else [(3, 0), (5, 1), (2, 1), (4, 0)]
        for k, post in ks:
            out.append((api, _ctrl_params([(k, 0.0, post, 0)]), 0.0, -(k * 0.1)))
    return out


HISTORY_SHIFTS = [-0.3, -1.0, -2.5, 0.45, -0.25, 1.7]


def history_cases(rng, tier):
    """compute(t1); compute(t2) [; compute(t3)] on ONE Tempo / MeanFieldTempo object: the history
    must not depend on the origin (negative shifts make the current time smaller than the elapsed
    time, positive ones larger)"""
    out = []
    for api in ("tempo", "mft"):
        taus = [rng.choice(HISTORY_SHIFTS[:3]), rng.choice(HISTORY_SHIFTS[3:])] \
            if tier == "quick" else HISTORY_SHIFTS
        for tau in taus:
            n1 = rng.choice([2, 3, 4])
            n2 = rng.choice([1, 2, 3])
            hist = [n1] if rng.random() < 0.7 else [n1, n1, n1 + n2]
            n = hist[-1] + (n2 if len(hist) == 1 else rng.choice([0, 1]))
            p = {"dt": 0.1, "n": n, "subdiv": None, "frac": rng.choice([0.0, 0.0, 0.3]),
                 "history": hist}
            out.append((api, p, rng.choice([0.0, 0.0, 0.5]), tau))
    return out


PULSE_SHIFTS = [0.45, 0.5, 2.55, -1.7]


def pulsed_cases(rng, tier):
    """localised decay / Lindblad-operator pulses between integer times, with shifts that move a
    pulse onto an integer time (0.45, 0.5, 2.55) and one that does not (-1.7)"""
    out = []
    apis = ["tempo", "pt+compute_dynamics", "compute_dynamics_with_field", "mft"]
    for i, api in enumerate(apis):
        taus = [PULSE_SHIFTS[(i + rng.randrange(3)) % 3]] if tier == "quick" else PULSE_SHIFTS
        for tau in taus:
            c = rng.choice([0.5, 1.5])
            p = {"dt": 0.1, "n": int(round((c + 0.5) / 0.1)), "subdiv": None, "frac": 0.0,
                 "pulsed": (c, rng.uniform(0.05, 0.1)), "record_all": True, "controls": [],
                 "step_controls": [], "real_pt": False}
            out.append((api, p, 0.0, tau))
    if tier != "quick":
        out.append(("pt+compute_dynamics", {"dt": 0.1, "n": 10, "subdiv": 64, "frac": 0.0,
                                            "pulsed": (0.5, 0.08), "record_all": True,
                                            "controls": [], "step_controls": [], "real_pt": False},
                    0.0, 0.45))
    return out


def guess_cases(rng, tier):
    """library-estimated parameters for a pulse that limits dt; shifts that move the pulse out of
    a window that would wrongly be taken relative to t = 0"""
    out = []
    base = {"pulse": 1.0, "duration": 3.0, "tolerance": 5.0e-2}
    taus = [4.5, -2.6, 2.6, 1.7]
    picks = [rng.choice(taus[:3])] if tier == "quick" else taus
    out.append(("tempo_compute", dict(base, compute=True), 0.0, picks[0]))
    for tau in (taus if tier != "quick" else [t for t in taus[:3] if t != picks[0]]):
        out.append(("guess_tempo_parameters", dict(base, pulse=rng.choice([1.0, 0.8, 2.1])), 0.0, tau))
    if tier != "quick":
        for tau in picks[1:3]:
            out.append(("tempo_compute", dict(base, compute=True, duration=2.0), 0.5, tau))
    return out


TYPED_APIS = ["tempo", "pt+compute_dynamics", "compute_dynamics_with_field", "mft"]


def typed_cases(rng, per_api):
    """callables whose return type changes at u_b, with a shift that moves the constructors'
    probe time (absolute 1.0, i.e. u = 1.0 unshifted and u = 1.0 - tau shifted) across u_b"""
    out = []
    for api in TYPED_APIS:
        done = 0
        while done < per_api:
            start = rng.choice([0.0, 0.0, 0.5, -0.3])
            tau = rng.choice([0.45, 1.7, -0.3, -2.05, 0.0371 + 0.3, rng.uniform(-2, 2)])
            dt, n = 0.1, 12
            lo = max(min(1.0, 1.0 - tau), start) + 0.06
            hi = min(max(1.0, 1.0 - tau), start + n * dt) - 0.06
            if hi - lo < 0.05:
                continue
            ub = rng.uniform(lo, hi)
            p = {"dt": dt, "n": n, "subdiv": None, "frac": 0.0, "typed": ub, "record_all": True,
                 "controls": [], "step_controls": [], "real_pt": False}
            out.append((api, p, start, tau))
            done += 1
    return out


FAR_ORIGINS = [5000.0, -5000.0, 12345.678, 1.0e5, -3.3e4]


def far_cases(rng, k):
    """time origins far from zero (|start| up to 1e5, dt >= 0.05): off-grid and on-grid durations"""
    out = []
    for api in ("tempo", "mft"):
        for _ in range(k):
            dt = rng.choice([0.1, 0.2, 0.05])
            n = rng.choice([9, 10, 7])
            frac = rng.choice([0.0, 0.7, rng.uniform(0.05, 0.95)])
            p = {"dt": dt, "n": n, "subdiv": None, "frac": frac}
            out.append((api, p, 0.0, rng.choice(FAR_ORIGINS)))
    return out


def step_count_family(res, rng, tier):
    """function level, real code: the number of steps to an end time must not depend on the origin
    (on-grid durations m*dt and off-grid ones (m+f)*dt, origins up to 1e5)"""
    import oqupy
    from . import oq
    nrep = 40 if tier == "quick" else 400
    for i in range(nrep):
        dt = rng.choice([0.1, 0.2, 0.05, 0.13, 0.25])
        m = rng.randrange(0, 31)
        f = rng.choice([0.0, 0.0, 0.7, rng.uniform(0.05, 0.95)])
        origin = rng.choice(FAR_ORIGINS + [rng.uniform(-1e5, 1e5), rng.uniform(-50, 50)])
        got = {}
        for s in (0.0, origin):
            end = s + (m + f) * dt
            stub = NS(_start_time=s, _parameters=NS(dt=dt))
            got[s] = (oqupy.Tempo._get_num_step(stub, 0, end),
                      oqupy.MeanFieldTempo._get_num_step(stub, 0, end))
        res.count("step-count:%s" % ("on-grid" if f == 0.0 else "off-grid"))
        res.case("stepcount dt=%r m=%d f=%r origin=%r" % (dt, m, f, origin), True)
        if got[0.0] != got[origin] or got[0.0] != (m, m):
            res.disagree("the number of steps to start + %r*dt depends on the time origin: %r at 0, "
                         "%r at %r" % (m + f, got[0.0], got[origin], origin),
                         {"api": "tempo", "params": {"dt": dt, "n": m, "frac": f, "subdiv": None},
                          "start": 0.0, "tau": origin, "how": "step count"})


# ---------------------------------------------------------------------------
# the table and the stand-alone evaluation of every site
# ---------------------------------------------------------------------------

def read_table():
    out = fw.run_driver(PID, ["list"])
    table = {}
    for item in out[0].split(";"):
        f = item.split("|")
        if len(f) != 8:
            raise fw.Infra("cannot parse the site table entry %r" % item)
        table[f[0]] = NS(name=f[0], role=f[1], fvars=[x for x in f[2].split(",") if x],
                         tmask=[x == "1" for x in f[3].split(",") if x],
                         ivars=[x for x in f[4].split(",") if x], where=f[5], ok=f[6], shape=f[7])
    return table


def site_sources():
    """name -> source text of the site, read from the generated file"""
    path = os.path.join(fw.LEAN, "OQuPyVerif", "Generated", "TimeExprs.lean")
    txt = open(path).read()
    out = {}
    for m in re.finditer(r'name := "((?:[^"\\]|\\.)*)".*?\n\s*src := "((?:[^"\\]|\\.)*)",', txt):
        out[m.group(1)] = m.group(2).replace('\\"', '"').replace("\\\\", "\\")
    return out


def py_eval_site(src, site, fvals, ivals):
    """evaluate the SOURCE TEXT of a site with CPython/numpy on the given variable values"""
    vals = dict(zip(site.fvars, fvals))
    ints = dict(zip(site.ivars, ivals))
    env = {"np": np, "float": float, "int": int, "round": round, "len": len,
           "_check_time": float, "_parse_time": float,
           "check_convert": lambda x, ty, name=None: ty(x)}
    selfo, params = NS(), NS()
    selfo._parameters = params
    env.update(self=selfo, parameters=params, pt=NS(), process_tensor=NS())
    for k, v in list(vals.items()) + list(ints.items()):
        base = re.sub(r"_\d+$", "", k)
        if base != k and base in ("times",):
            continue
        env[k] = v
        setattr(selfo, "_" + k, v)
        setattr(selfo, k, v)
        setattr(params, k, v)
        setattr(env["pt"], k, v)
        setattr(env["process_tensor"], k, v)
    if "times_0" in vals or "times_1" in vals:
        env["times"] = (vals.get("times_0", 0.0), vals.get("times_1", 0.0))
    if "control_times" in vals:
        arr = np.array([vals["control_times"] - 1.0, vals["control_times"]])
        selfo._control_times = {"pre": arr, "post": arr}
    if "time_of_step" in vals:
        selfo._time = lambda step: vals["time_of_step"]
        selfo.time = lambda step: vals["time_of_step"]
        selfo._step = 0
        env.setdefault("step", 0)
        env.setdefault("ii", 0)
    if "k" in ints:
        for nm in re.findall(r"len\((\w+)\)", src):
            env[nm] = [0] * (ints["k"] + 1)
    if "times" in ints:                       # compute_correlations_nt: integer step array
        env["times"] = np.array([0, ints["times"]])
    for nm in ints:
        if nm.startswith("len_"):
            env[nm[4:]] = [0] * ints[nm]
    val = eval(src, env)                       # noqa: S307 - source text of /repo under test
    if isinstance(val, np.ndarray):
        val = val[ints["k"]] if "linspace" in src else val[-1]
    return float(val)


def gen_site_inputs(rng, site, src=""):
    dt = rng.choice([0.1, 0.01, 0.2, 0.37, 0.25, 0.05, rng.uniform(1e-3, 2.0)])
    start = rng.choice([0.0, 0.5, -0.3, 1.7, rng.uniform(-50, 50)])
    k = rng.randrange(0, 3000)
    fvals = []
    for v in site.fvars:
        if v in ("dt", "dt_"):
            fvals.append(dt)
        elif v in ("start_time", "tmp_start_time", "t0"):
            fvals.append(start)
        elif v in ("field", "field_derivative", "ratio", "max_tau"):
            fvals.append(rng.uniform(-2, 2))
        else:       # some other time: on / near / between grid points, incl. exact rounding ties
            kind = rng.choice(["grid", "near", "tie", "any"])
            f = {"grid": 0.0, "near": rng.uniform(-0.4, 0.4), "tie": 0.5, "any": rng.uniform(0, 1)}[kind]
            fvals.append(start + (k + f) * dt)
    ivals = []
    for v in site.ivars:
        ivals.append(rng.randrange(0, 3000) if v != "start_step" else rng.randrange(0, 50))
    if "num" in site.ivars and "k" in site.ivars:       # element k < num-1 of a linspace
        num = rng.randrange(11, 90)
        ivals[site.ivars.index("num")] = num
        ivals[site.ivars.index("k")] = rng.randrange(0, num - 1)
    elif "k" in site.ivars and "linspace" in src:
        ivals[site.ivars.index("k")] = rng.randrange(0, 10)     # np.linspace(0, max_tau, 11)
    return fvals, ivals


def check_probes(res):
    out = fw.run_driver(PID, ["probes"])
    for item in out[0].split(";"):
        f = item.split("|")
        if len(f) != 5:
            raise fw.Infra("cannot parse the probe table entry %r" % item)
        res.count("probes")
        for k in f[3].split(","):
            res.count("probe-keeps:" + k)
        res.case("probe " + item, True)
        if f[4] != "ok":
            fw.log("%s: a callable is evaluated at the fixed time %s and more than a validation / "
                   "shape survives (%s)" % (f[1], f[2], f[3]))
            res.disagree("probe %s at the fixed time %s keeps %s" % (f[0], f[2], f[3]),
                         {"probe": f[0], "where": f[1], "kept": f[3]})


def check_sites(res, table, rng, tier):
    srcs = site_sources()
    lines, expect, meta = [], [], []
    skipped = 0
    reps = 3 if tier == "quick" else 25
    for name, site in table.items():
        src = srcs.get(name)
        if src is None:
            res.disagree("site %s has no source text in the generated file" % name, {"site": name})
            continue
        done = 0
        for _ in range(reps):
            fvals, ivals = gen_site_inputs(rng, site, src)
            try:
                got = py_eval_site(src, site, fvals, ivals)
            except Exception:           # source text not evaluable stand-alone
                break
            lines.append("eval %s %d %s" % (name, len(fvals),
                                            " ".join([rat(x) for x in fvals] + [str(i) for i in ivals])))
            expect.append(rat(got))
            meta.append((name, src, fvals, ivals))
            done += 1
        if done == 0:
            skipped += 1
            res.count("site-eval:not-evaluable-standalone")
        else:
            res.count("site-eval:%s" % site.shape)
    out = fw.run_driver(PID, lines)
    if len(out) != len(lines):
        raise fw.Infra("driver returned %d lines for %d inputs" % (len(out), len(lines)))
    for line, exp, got, m in zip(lines, expect, out, meta):
        nontrivial = table[m[0]].shape != "var"
        res.case(line, nontrivial, {"op": line[:140], "python": exp, "model": got} if nontrivial else None)
        if exp != got:
            res.disagree("binary64 reading of site %s (%s) differs from CPython" % (m[0], m[1]),
                         {"site": m[0], "src": m[1], "fvals": m[2], "ivals": m[3],
                          "python": exp, "model": got})
    res.notes.append("sites evaluated stand-alone: %d of %d" % (len(table) - skipped, len(table)))


# ---------------------------------------------------------------------------
# logged arguments of the real runs vs the generated expressions (bit-exact)
# ---------------------------------------------------------------------------

S_T = {"tds": "TimeDependentSystem_get_propagators_propagators__t_%d",
       "tdsf": "TimeDependentSystemWithField_get_propagators_propagators__t_%d"}


# the variables the harness supplies for each site it predicts with (by name)
EXPECTED_VARS = {
    "TDS_get_propagators_propagators__t_1": (["start_time", "dt"], ["step"]),
    "TDS_get_propagators_propagators__t_2": (["start_time", "dt"], ["step"]),
    "TDS_get_propagators_propagators__liouvillian_arg0_1": (["t", "dt"], []),
    "TDS_get_propagators_propagators__liouvillian_arg0_2": (["t", "dt"], []),
    "TDS_get_propagators_propagators__liouvillian_arg1_1": (["t", "dt"], []),
    "TDS_get_propagators_propagators__liouvillian_arg1_2": (["t", "dt"], []),
    "TDS_get_propagators_propagators__quad_vec_kw_a_1": (["t", "dt"], []),
    "TDS_get_propagators_propagators__quad_vec_kw_a_2": (["t", "dt"], []),
    "TDS_get_propagators_propagators__quad_vec_kw_b_1": (["t", "dt"], []),
    "TDS_get_propagators_propagators__quad_vec_kw_b_2": (["t", "dt"], []),
    "Tempo__time__ret": (["start_time", "dt"], ["step"]),
    "MeanFieldTempo__time__ret": (["start_time", "dt"], ["step"]),
    "compute_dynamics__times_1": (["start_time", "dt"], ["k"]),
    "compute_dynamics__times_2": (["start_time", "dt"], ["num_steps"]),
    "compute_dynamics_with_field__times_1": (["start_time", "dt"], ["k"]),
    "compute_dynamics_with_field__times_2": (["start_time", "dt"], ["num_steps"]),
    "compute_dynamics_with_field__t": (["start_time", "dt"], ["step"]),
    "MeanFieldTempo__compute_field__field_eom_arg0_2": (["t", "dt"], []),
    "compute_dynamics_with_field_compute_field__field_eom_arg0_2": (["t", "dt"], []),
    "Control_get_controls__a_1": (["control_times", "start_time", "dt"], []),
    "Control_get_controls__a_2": (["control_times", "start_time", "dt"], []),
    "_parse_times__index": (["times", "start_time", "dt"], []),
    "_parse_times__index_start": (["times_0", "start_time", "dt"], []),
    "_parse_times__index_end": (["times_1", "start_time", "dt"], []),
    "compute_correlations_nt__times2": (["start_time", "dt_"], ["times"]),
    "_estimate_dt_from_system__times_1": (["start_time", "end_time"], ["num", "k"]),
    "_estimate_dt_from_system__times_2": (["start_time", "end_time"], ["num", "k"]),
}


class Oracle:
    """batched evaluation of sites through the driver"""

    def __init__(self, table):
        self.table = table
        self.todo = {}          # key -> line
        self.done = {}

    def want(self, name, fvals, ivals=()):
        """fvals / ivals: positional values in the order the harness expects the variables
        (`fnames`/`inames` of EXPECTED_VARS); they are re-ordered by name to the table's order"""
        if name not in self.table:
            raise KeyError(name)
        site = self.table[name]
        key = re.sub(r"^(TimeDependentSystemWithField|TimeDependentSystem)_", "TDS_", name)
        fn, inn = EXPECTED_VARS[key if key in EXPECTED_VARS else name]
        fmap, imap = dict(zip(fn, fvals)), dict(zip(inn, ivals))
        try:
            fvals = [fmap[v] for v in site.fvars]
            ivals = [imap[v] for v in site.ivars]
        except KeyError as e:
            raise KeyError("%s now reads the variable %s" % (name, e))
        line = "eval %s %d %s" % (name, len(fvals),
                                  " ".join([rat(x) for x in fvals] + [str(int(i)) for i in ivals]))
        if line not in self.done:
            self.todo[line] = None
        return line

    def flush(self):
        lines = list(self.todo)
        if lines:
            out = fw.run_driver(PID, lines)
            if len(out) != len(lines):
                raise fw.Infra("driver returned %d lines for %d inputs" % (len(out), len(lines)))
            for l, o in zip(lines, out):
                if o == "bad-op":
                    raise fw.Infra("driver rejected %r" % l)
                self.done[l] = float(parse_rat(o))
        self.todo = {}

    def get(self, line):
        return self.done[line]


def predict_stage1(orc, api, p, start):
    """base times of every step (needs only the inputs)"""
    if api in ("guess_tempo_parameters", "tempo_compute"):
        end = start + p["duration"]
        return {"lin": [orc.want("_estimate_dt_from_system__times_1", [start, end], [11, k])
                        for k in range(10)]
                + [orc.want("_estimate_dt_from_system__times_2", [start, end], [22, k])
                   for k in range(21)]}
    n, dt = p["n"], p["dt"]
    h = {}
    var = 1 if p["subdiv"] is None else 2
    if api in ("tempo", "pt+compute_dynamics", "compute_correlations"):
        h["t"] = [orc.want(S_T["tds"] % var, [start, dt], [k]) for k in range(n)]
    if api in ("mft", "compute_dynamics_with_field"):
        h["t"] = [orc.want(S_T["tdsf"] % var, [start, dt], [k]) for k in range(n)]
    if api == "tempo":
        h["labels"] = [orc.want("Tempo__time__ret", [start, dt], [k]) for k in range(n + 1)]
    if api == "mft":
        h["labels"] = [orc.want("MeanFieldTempo__time__ret", [start, dt], [k]) for k in range(n + 1)]
    if api == "pt+compute_dynamics":
        if p.get("record_all", True):
            h["labels"] = [orc.want("compute_dynamics__times_1", [start, dt], [k]) for k in range(n + 1)]
        else:
            h["labels"] = [orc.want("compute_dynamics__times_2", [start, dt], [n])]
    if api == "compute_dynamics_with_field":
        if p.get("record_all", True):
            h["labels"] = [orc.want("compute_dynamics_with_field__times_1", [start, dt], [k])
                           for k in range(n + 1)]
        else:
            h["labels"] = [orc.want("compute_dynamics_with_field__times_2", [start, dt], [n])]
        h["tloop"] = [orc.want("compute_dynamics_with_field__t", [start, dt], [k]) for k in range(n + 1)]
    return h


def predict_stage2(orc, api, p, start, h, res_run):
    """times derived from the base times"""
    if api in ("guess_tempo_parameters", "tempo_compute"):
        return {}
    dt = p["dt"]
    g = {}
    fam = "TimeDependentSystem" if api in ("tempo", "pt+compute_dynamics", "compute_correlations") \
        else "TimeDependentSystemWithField"
    pre = fam + "_get_propagators_propagators__"
    ts = [orc.get(l) for l in h.get("t", [])]
    if p["subdiv"] is None:
        a1 = "liouvillian_arg0_%d" if fam == "TimeDependentSystem" else "liouvillian_arg1_%d"
        g["sample"] = [orc.want(pre + a1 % i, [t, dt]) for t in ts for i in (1, 2)]
    else:
        g["quad_a"] = [l for t in ts for l in (orc.want(pre + "quad_vec_kw_a_1", [t, dt]),
                                               orc.want(pre + "quad_vec_kw_a_2", [t, dt]))]
        g["quad_b"] = [l for t in ts for l in (orc.want(pre + "quad_vec_kw_b_1", [t, dt]),
                                               orc.want(pre + "quad_vec_kw_b_2", [t, dt]))]
    if api == "mft":
        lab = [orc.get(l) for l in h["labels"]]
        g["eom_next"] = [orc.want("MeanFieldTempo__compute_field__field_eom_arg0_2", [t, dt])
                         for t in lab]
    if api == "compute_dynamics_with_field":
        tl = [orc.get(l) for l in h["tloop"]]
        g["eom_next"] = [orc.want("compute_dynamics_with_field_compute_field__field_eom_arg0_2", [t, dt])
                         for t in tl]
    if api == "pt+compute_dynamics":
        g["ctrl"] = []
        for (pp, t, hits) in res_run["control_steps"]:
            nm = "Control_get_controls__a_1" if pp == "pre" else "Control_get_controls__a_2"
            g["ctrl"].append((orc.want(nm, [t, start, dt]), hits, pp, t))
    if api == "compute_correlations":
        g["axes"] = []
        for spec, axis in zip((res_run["times_a"], res_run["times_b"]), res_run["axes"]):
            if isinstance(spec, float):
                g["axes"].append(("float", orc.want("_parse_times__index", [spec, start, dt]), axis))
            else:
                g["axes"].append(("interval",
                                  (orc.want("_parse_times__index_start", [spec[0], start, dt]),
                                   orc.want("_parse_times__index_end", [spec[1], start, dt])), axis))
    return g


def judge_run(res, orc, api, p, start, h, g, run, tag):
    """compare one real run with the model's binary64 predictions, exactly"""
    def dis(what, **kw):
        res.disagree("%s (%s, start=%r): %s" % (api, tag, start, what),
                     dict(api=api, params=p, start=start, **kw))
    if "lin" in h:
        # guess_tempo_parameters samples the callables on linspace(start, end, 11), then 22, ...
        got = set(t for c, t in run["guess_log"] if c == "hamiltonian")
        want = set(orc.get(l) for l in h["lin"]) | {run["end"]}
        if not want <= got:
            dis("guess_tempo_parameters does not sample the Hamiltonian at the generated linspace "
                "times", impl=sorted(got)[:40], model=sorted(want))
        return
    logged = {}
    for c, t in run["log"]:
        logged.setdefault(c, []).append(t)
    n, dt = p["n"], p["dt"]
    # labels
    if "labels" in h:
        want = [orc.get(l) for l in h["labels"]]
        if want != run["times"]:
            dis("reported times differ from the generated label expressions",
                impl=run["times"], model=want)
    # times at which the Hamiltonian / rates / Lindblad operators are sampled
    if "sample" in g:
        want = sorted(set(orc.get(l) for l in g["sample"]))
        for ch in ("hamiltonian", "rate", "lindblad"):
            got = sorted(set(logged.get(ch, [])))
            if api == "compute_correlations":
                ok = set(got) <= set(want)          # runs stop at the largest requested time
            else:
                ok = got == want
            if not ok:
                dis("%s is sampled at other times than the generated expressions say" % ch,
                    impl=got, model=want)
    for ch in ("quad_a", "quad_b"):
        if ch in g:
            want = sorted(set(orc.get(l) for l in g[ch]))
            got = sorted(set(logged.get(ch, [])))
            ok = (set(got) <= set(want)) if api == "compute_correlations" else got == want
            if not ok:
                dis("integration bounds (%s) differ from the generated expressions" % ch,
                    impl=got, model=want)
    # field equation of motion: base times and base + dt
    if "eom_next" in g:
        base = [orc.get(l) for l in (h["labels"] if api == "mft" else h["tloop"])]
        nxt = [orc.get(l) for l in g["eom_next"]]
        want = set(base) | set(nxt)
        got = set(logged.get("field_eom", []))
        if not got <= want or not set(base[:n]) <= got:
            dis("field_eom is called at other times than the generated expressions say",
                impl=sorted(got), model=sorted(want))
    # float control times -> steps
    for item in g.get("ctrl", []):
        line, hits, pp, t = item
        k = orc.get(line)
        want = [int(k)] if 0 <= k <= n else []
        if hits != want:
            dis("float control time %r (%s) is applied at steps %r, generated rounding says %r"
                % (t, pp, hits, want), impl=hits, model=want)
    # correlation time axes
    for item in g.get("axes", []):
        if item[0] == "float":
            idx = [int(orc.get(item[1]))]
        else:
            a, b = int(orc.get(item[1][0])), int(orc.get(item[1][1]))
            step = 1 if a <= b else -1
            idx = list(range(a, b + step, step))
        g.setdefault("axis_lines", []).append((idx, item[2]))


def judge_axes(res, orc, api, p, start, g, tag):
    for idx, axis in g.get("axis_lines", []):
        lines = [orc.want("compute_correlations_nt__times2", [start, p["dt"]], [i]) for i in idx]
        g.setdefault("axis_final", []).append((lines, axis, idx))


def judge_axes_final(res, orc, api, p, start, g, tag, order):
    for lines, axis, idx in g.get("axis_final", []):
        want = [orc.get(l) for l in lines]
        if sorted(want) != sorted(axis):
            res.disagree("%s (%s, start=%r): returned time axis differs from the generated "
                         "index/axis expressions" % (api, tag, start),
                         dict(api=api, params=p, start=start, impl=axis, model=want, indices=idx))


# ---------------------------------------------------------------------------

def correspondence(res, tier, rng):
    table = read_table()
    res.count("sites", len(table))
    for s in table.values():
        res.count("site-role:" + s.role)
        if s.ok != "ok":
            fw.log("time expression %s (%s) does not have the shift behaviour its use demands (%s)"
                   % (s.name, s.where, s.role))
            res.disagree("the driver evaluates the obligation of site %s to false" % s.name,
                         {"site": s.name, "where": s.where})
    check_sites(res, table, rng, tier)
    check_probes(res)
    step_count_family(res, rng, tier)
    cases = gen_cases(rng, tier)
    runs = []
    for (api, p, start, tau) in cases:
        bad, base, shif, tau_eff = differential(api, p, start, tau)
        kind = ("tau>0" if tau > 0 else "tau<0") + (
            "" if "dt" in p and abs(tau / p["dt"] - round(tau / p["dt"])) < 1e-9
            else ",not-multiple-of-dt")
        res.count("run:%s%s" % (api, ":typed-callables" if p.get("typed") is not None else
                                ":pulses-between-integers" if p.get("pulsed") is not None else
                                ":compute-history" if p.get("history") else
                                ":control-at-zero" if p.get("controls") and any(
                                    start + tau + (c[0] + c[1]) * p["dt"] == 0.0 for c in p["controls"]) else
                                ":far-origin" if abs(tau) >= 1000 else ""))
        res.count("shift:" + kind)
        res.count("subdiv:%s" % ("None" if p.get("subdiv", 256) is None else "quad_vec"))
        res.case("run %s %s start=%r tau=%r" % (api, json.dumps(p, sort_keys=True), start, tau), True,
                 {"api": api, "start": start, "tau": tau, "calls_logged": len(base["log"]),
                  "reported_times": len(base["times"])})
        for kind_, b in bad:
            res.disagree("shifted and unshifted real runs of %s differ: %s" % (api, b),
                         {"api": api, "params": p, "start": start, "tau": tau, "how": b})
        runs.append((api, p, float(start), base, "unshifted"))
        runs.append((api, p, float(start + tau), shif, "shifted"))
    # bit-exact comparison of what the real runs did with the generated expressions
    orc = Oracle(table)
    try:
        hs = [predict_stage1(orc, api, p, s) for (api, p, s, run, tag) in runs]
        orc.flush()
        gs = [predict_stage2(orc, api, p, s, h, run) for (api, p, s, run, tag), h in zip(runs, hs)]
        orc.flush()
        for (api, p, s, run, tag), h, g in zip(runs, hs, gs):
            judge_run(res, orc, api, p, s, h, g, run, tag)
            judge_axes(res, orc, api, p, s, g, tag)
        orc.flush()
        for (api, p, s, run, tag), g in zip(runs, gs):
            judge_axes_final(res, orc, api, p, s, g, tag, p.get("order"))
            res.case("model-vs-run %s %s start=%r %s" % (api, json.dumps(p, sort_keys=True), s, tag), True)
    except KeyError as e:
        res.disagree("a time expression the correspondence refers to is no longer in the table: %s" % e,
                     {"site": str(e)})


# ---------------------------------------------------------------------------
# search: the differential alone
# ---------------------------------------------------------------------------

def fail_key(api, kind):
    return "shift:%s:%s" % (api, kind)


def search(res, rng=None):
    rng = rng or random.Random(res.seed + 1)
    seeds = []
    for d in res.disagreements:
        i = d.get("input", {})
        if "tau" in i and "api" in i and i["api"] in RUNNERS:
            seeds.append((i["api"], i["params"], i["start"], i["tau"]))
    cases = seeds + gen_cases(rng, "quick")
    # a fixed, simple family first: every method, tau positive / negative / not a multiple of dt
    fixed = []
    for api in GENERIC_APIS:
        for sub in (None, 64):
            p = {"dt": 0.1, "n": 3, "subdiv": sub, "frac": 0.0, "record_all": True,
                 "controls": [(1, 0.2, 0, 0), (2, -0.3, 1, 1)], "step_controls": [(0, 0)],
                 "real_pt": False, "times_a": ("float", 1, 0.2), "times_b": ("interval", 1, 0.1, 3, -0.2),
                 "order": "ordered"}
            for tau in (1.0, -0.37, 2.5):
                fixed.append((api, p, 0.5, tau))
    for api in ("tempo", "mft"):
        for tau in (5000.0, -5000.0, 12345.678):
            for frac in (0.7, 0.0):
                fixed.insert(0, (api, {"dt": 0.1, "n": 9, "subdiv": None, "frac": frac}, 0.0, tau))
    for api in TYPED_APIS:
        for (tau, ub) in ((0.45, 0.9), (1.7, 0.62), (-0.3, 1.12)):
            fixed.insert(0, (api, {"dt": 0.1, "n": 12, "subdiv": None, "frac": 0.0, "typed": ub,
                                   "record_all": True, "controls": [], "step_controls": [],
                                   "real_pt": False}, 0.0, tau))
    for api in ("tempo", "pt+compute_dynamics", "compute_dynamics_with_field", "mft"):
        for (tau, c) in ((0.45, 0.5), (2.55, 0.5), (0.5, 1.5), (-1.7, 0.5)):
            fixed.insert(0, (api, {"dt": 0.1, "n": int(round((c + 0.5) / 0.1)), "subdiv": None,
                                   "frac": 0.0, "pulsed": (c, 0.07), "record_all": True,
                                   "controls": [], "step_controls": [], "real_pt": False}, 0.0, tau))
    for api in CONTROL_APIS:
        for tau in (-3.0e4, 3.0e4, 1.0e5):
            fixed.insert(0, (api, _ctrl_params([(3, 0.0, 0, 0), (4, 0.0, 0, 1), (2, 0.0, 1, 0),
                                                (3, 0.0, 1, 1)]), 0.0, tau))
        for k, post in ((3, 0), (5, 1)):
            fixed.insert(0, (api, _ctrl_params([(k, 0.0, post, 0)]), 0.0, -(k * 0.1)))
    for api in ("tempo", "mft"):
        for tau in (-0.3, -1.0, -2.5, 0.45):
            fixed.insert(0, (api, {"dt": 0.1, "n": 7, "subdiv": None, "frac": 0.0, "history": [4]},
                             0.0, tau))
    for tau in (4.5, -2.6, 2.6):
        fixed.insert(0, ("guess_tempo_parameters", {"pulse": 1.0, "duration": 3.0, "tolerance": 5.0e-2},
                         0.0, tau))
    fixed.insert(0, ("tempo_compute", {"pulse": 1.0, "duration": 3.0, "tolerance": 5.0e-2,
                                       "compute": True}, 0.0, 4.5))
    seen = set()
    for (api, p, start, tau) in fixed + cases:
        try:
            bad, _, _, _ = differential(api, p, start, tau)
        except Exception as e:      # a crash in one of the two runs is a discrepancy as well
            bad = [("exception", "one of the runs raised %s: %s" % (type(e).__name__, str(e)[:200]))]
        for kind, b in bad:
            key = fail_key(api, kind)
            if key in seen:
                continue
            seen.add(key)
            res.fail(key, {"api": api, "params": p, "start": start, "tau": tau, "how": b,
                           "statement": "start_time and every explicit time dependence moved by tau: "
                                        "states/fields/values must agree to 1e-9 and every reported "
                                        "time must move by tau (1e-12 relative)"})


def replay_case(res, payload):
    case = payload.get("failing_input", payload)
    api = case.get("api")
    if api not in RUNNERS:
        res.oblige("replay", False, "unknown api %r" % api)
        return
    bad, _, _, _ = differential(api, case["params"], case["start"], case["tau"])
    fw.log("replay: %s" % ("holds now" if not bad else "STILL FAILS: " + "; ".join(b for _, b in bad)))
    for kind, b in bad:
        res.fail(payload.get("key", fail_key(api, kind)), dict(case, how=b))


def run(tier, seed, replay):
    res = fw.Result(PID, tier, seed, level="proof")
    rng = random.Random(seed)
    res.rule = (
        "table: the driver prints the regenerated site table (the list `all_sites_ok` is decided on). "
        "site-eval: the source text of every site that can be evaluated stand-alone is run by CPython "
        "on random binary64 inputs (grid points, near-grid, exact rounding ties, arbitrary) and compared "
        "bit-exactly with the FloatModel reading of the generated expression.  run: real Tempo, "
        "MeanFieldTempo, PtTempo+compute_dynamics (float and int controls, both record_all), "
        "compute_dynamics_with_field, compute_correlations (float / interval times, both time orders) on "
        "explicitly time dependent Hamiltonians, rates, Lindblad operators and field equations, "
        "subdiv_limit None and quad_vec, at start s and s+tau (tau >0, <0, not a multiple of dt): "
        "logged time arguments minus tau (1e-12 relative), values (1e-9), reported times minus tau "
        "(1e-12 relative).  model-vs-run: the logged arguments, integration bounds, labels, selected "
        "control steps and correlation axes of each run vs the generated expressions, bit-exact.  "
        "probes: the regenerated list of evaluations at a fixed absolute time with what is kept.  "
        "typed-callables: the same runs with callables whose return TYPE changes at u_b (int/float "
        "rate, real/complex operators) and a shift that moves the probe time 1.0 across u_b.  "
        "far-origin: origins up to 1e5 with on-/off-grid durations, real runs and the real "
        "_get_num_step (step count independent of the origin).  "
        "pulses-between-integers: rates and Lindblad operators that are short pulses (centre 0.5 / "
        "1.5, width 0.05-0.1) equal at all integer times, shifts 0.45, 0.5, 2.55 (pulse onto an "
        "integer) and -1.7.  "
        "controls: float-time controls one step apart at origins +-3e4 / 1e5, and shifts that put "
        "a pre / post control time exactly on t = 0.0, for compute_dynamics and "
        "compute_dynamics_with_field.  "
        "compute-history: compute(t1); compute(t2)[; compute(t3)] on one Tempo / MeanFieldTempo "
        "object, shifts -0.3, -1.0, -2.5, -0.25, 0.45, 1.7: number of reported times, labels minus "
        "tau, states.  "
        "estimated parameters: guess_tempo_parameters(system=...) and tempo_compute(parameters=None) "
        "for a pulse that limits dt, shifts +-2.6 / 4.5 / 1.7: estimated (dt, dkmax, epsrel) identical "
        "(1e-12), reported times minus tau, logged sample times minus tau, states 1e-5 (guessed "
        "epsrel ~3e-4), and the sampled times vs the generated linspace expression bit-exact.  "
        "Non-trivial = not a bare variable hand-through; distinct = distinct protocol line / run.")
    res.assumptions = [
        "binary64 model: round-to-nearest-even on rationals, no overflow/subnormal/NaN; dt > 0",
        "scipy.integrate.quad_vec evaluates its integrand only at points that are affine in the "
        "bounds (a, b) it is given (Gauss-Kronrod nodes); its bounds are checked, its nodes are "
        "compared between the shifted and the unshifted run to 1e-12",
        "the update rule of the step machine (influence functional / process tensor / SVD "
        "truncation / expm) does not read the time other than through the user callables - "
        "checked by the differential runs, not proved",
        "a variable named as a time in tools/translate.py's role table is a time: names are the "
        "translator's notion of data flow (an arithmetic expression over such a name that reaches no "
        "known sink is refused)",
    ]
    res.not_shown = [
        "binary64: times and labels are covariant up to one rounding per addition (theorem "
        "time_sites_binary64_residue_partial, per site; a chain t = start+k*dt, t+dt/4 adds two "
        "bounds); the consequence for the VALUES (states differ by O(ulp * |df/dt|)) is measured by "
        "the runs (1e-9), not proved",
        "float control / correlation times are bit-identically converted only for an EXACT shift of the "
        "inputs (inv_sites_binary64_exact); a shifted time that is itself rounded (t+tau not "
        "representable) can cross a rounding tie k+1/2 - generated inputs keep 0.15*dt away from ties",
        "constructors probe the callables once at the fixed absolute time 1.0: the translator lists "
        "every such evaluation with what survives of it and all_probes_ok demands validation/shape "
        "only; that the shape and validity of a callable's value do not depend on the time is a "
        "hypothesis of probe_shift_invariant (a callable that is invalid exactly at t=1.0 is rejected "
        "at one origin and accepted at another - input validation, outside the statement)",
        "GibbsTempo has no time origin; bath_dynamics has no start_time parameter - outside the statement",
        "PtTebd: only its label expression (PtTebd.time) is covered, no runs",
        "the shift weight is conservative: a covariant expression that multiplies or divides times "
        "(e.g. the midpoint (t0 + t1)/2) is refused and would show up as a broken obligation with "
        "no failing input",
    ]
    res.trusted.append("the role table / sink table of the TimeExprs fragment in tools/translate.py")
    if replay:
        replay_case(res, json.load(open(replay)))
        rc = 1 if res.failing else 0
        if res.failing:
            return fw.finish(res, None)
        fw.log("OK property=%s replay=%s no longer fails" % (PID, replay))
        return rc
    fw.standard_pipeline(res, ["TimeExprs"], THEOREMS)
    translated = all(o[1] for o in res.obligations if o[0].startswith("translator"))
    try:
        for f in sorted(glob.glob(os.path.join(fw.CORPUS, PID, "*.json"))):
            payload = json.load(open(f))
            case = payload.get("failing_input", payload)
            if case.get("api") in RUNNERS:
                bad, _, _, _ = differential(case["api"], case["params"], case["start"], case["tau"])
                res.case("corpus:" + os.path.basename(f), True)
                for kind, b in bad:
                    res.fail(payload.get("key", fail_key(case["api"], kind)), dict(case, how=b))
        if translated:
            correspondence(res, tier, rng)
        else:
            res.notes.append("correspondence skipped: generated table unavailable")
    except fw.Infra as e:
        res.oblige("correspondence run", False, str(e))
    return fw.finish(res, search)
