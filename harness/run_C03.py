"""C03 — contracting any process tensor reproduces the exact joint evolution.  DESIGN.md §4 C03.

correspondence(): real compute_dynamics with lists of hand-built process tensors (random rank-3 /
rank-4 tensors, with/without transforms, bond dims 1-3, 0-3 environments, TrivialProcessTensor,
random non-trace-preserving controls) vs the Lean list model AND the folded single-environment
model; real get_mpo_tensor vs mpoTensorOf; real compute_caps (Simple / File) vs capStepOf; ancilla
process tensors vs ptOfJoint and the joint evolution on one index; the commutation hypothesis
evaluated exactly on the shipped tensors together with the order independence it predicts.

Controls are keyed by step or by float time with start_time != 0; object histories (overwrite a
stored tensor after a contraction; random set_*/get_* traces) are compared with a fresh object and
with the Lean object model (memoisation behaviour regenerated from the source).

search(): oracles on the real code only — ancilla process tensors (rank 4, rank 4 in a transformed
basis, rank 3, rank 3 in the Pauli-transfer basis; Simple and File) vs dense joint evolution in
density-matrix form; permutations of commuting PT-TEMPO tensors; two baths vs the summed bath.
"""
import contextlib
import glob
import io
import itertools
import json
import os
import random

import numpy as np

from . import framework as fw

PID = "C03"
P = "OQuPyVerif.Props.C03."
THEOREMS = [P + t for t in (
    "wiring_generated", "axes_are_model", "loop_positional",
    "two_env_loop_body", "two_env_as_one", "env_list_as_one", "env_list_contraction_exact",
    "single_env",
    "order_indep_of_commute", "order_indep_adjacent", "order_indep_perm", "rank3_commute",
    "get_mpo_tensor_spec", "transforms_stored_independently", "caps_wiring_consistent", "caps_close_transformed",
    "caps_fixed_point", "caps_fixed_point_joint",
    "dynamics_eq_joint", "finite_pt_last_bond", "dynamics_eq_joint_finite", "skip_trivial",
    "caches_safe", "caps_flags_safe", "caps_are_function_of_current", "get_is_function_of_current", "stored_is_last_set", "history_independent",
    "sum_of_baths_infl", "sum_of_baths_entry", "sum_of_baths_tables", "combined_dense",
    "sum_of_baths_dense", "sum_of_baths",
)]
TOL = 1e-9
DT = 0.1

KEY_CAPS_SIMPLE = "caps:SimpleProcessTensor:rank-3 tensors with transforms"
KEY_CAPS_FILE = "caps:FileProcessTensor:transforms"
KEY_TIME_CONTROLS = "controls:float-time controls with start_time != 0"
KEY_HISTORY = "history:%sProcessTensor:set_mpo_tensor after the step was read"
KEY_ONE_TRANSFORM = "transforms:%sProcessTensor:exactly one transform (%s only)"
KEY_LAYOUT = "layout:%s(initial_state):%s"
KEY_CAPS_STALE = "caps:%sProcessTensor:compute_caps after overwriting an existing step"
KEY_TDEP_FINAL = "propagators:record_all=False with a time-dependent system and no controls"
KEY_TRIVIAL = "list:TrivialProcessTensor at position %d of %d"
KEY_STACK = "controls:float-time controls of one step added in non-chronological order"
KEY_FINAL_ONLY = "controls:post-measurement controls with record_all=False"


@contextlib.contextmanager
def quiet():
    with contextlib.redirect_stdout(io.StringIO()):
        yield


def flat(a):
    return " ".join(fw.crat(z) for z in np.asarray(a, dtype=complex).reshape(-1))


def parse_states(line):
    return [np.array([fw.parse_crat(t) for t in st.split()]) for st in line.split(" ; ")]


def dyadic(rng, shape, den=4, span=4, cplx=True):
    n = int(np.prod(shape))
    re = np.array([rng.randrange(-span, span + 1) for _ in range(n)], dtype=float) / den
    im = np.array([rng.randrange(-span, span + 1) if cplx else 0 for _ in range(n)], dtype=float) / den
    return (re + 1j * im).reshape(shape)


# ---------------------------------------------------------------------------
# hand-built process tensors
# ---------------------------------------------------------------------------

def rand_env_spec(rng, d, n, kind=None):
    """random stored tensors + transforms of one environment (not necessarily physical)"""
    L = d * d
    kind = kind or rng.choice(["rank4", "rank4", "rank3", "rank3", "rank4-t", "rank3-t",
                               "rank4-nonsquare", "rank3-nonsquare", "mixed-t", "trivial"])
    if kind == "trivial":
        return {"kind": kind}
    dims = [1] + [rng.randrange(1, 4) for _ in range(n - 1)] + [1]
    lin = lout = L
    tin = tout = None
    if kind.endswith("-t"):
        tin, tout = dyadic(rng, (L, L), den=2, span=2), dyadic(rng, (L, L), den=2, span=2)
    elif kind.endswith("nonsquare"):
        lin = rng.choice([3, 5])
        lout = lin if kind.startswith("rank3") else rng.choice([3, 4, 5])
        tin, tout = dyadic(rng, (L, lin), den=2, span=2), dyadic(rng, (lout, L), den=2, span=2)
    if rng.random() < 0.25 and tin is not None:      # only one of the two transforms
        if rng.random() < 0.5 and lin == L:
            tin = None
        elif lout == L:
            tout = None
    mpos = []
    for k in range(n):
        if kind.startswith("mixed"):
            r3 = rng.random() < 0.5
        else:
            r3 = kind.startswith("rank3")
        shp = (dims[k], dims[k + 1], lin) if r3 else (dims[k], dims[k + 1], lin, lout)
        mpos.append(dyadic(rng, shp, den=2, span=2))
    return {"kind": kind, "dims": dims, "lin": lin, "lout": lout, "tin": tin, "tout": tout,
            "mpos": mpos}


def build_pt(spec, d, n, cls="simple"):
    import oqupy
    from oqupy.process_tensor import FileProcessTensor, TrivialProcessTensor
    from . import oq
    if spec["kind"] == "trivial":
        return TrivialProcessTensor(hilbert_space_dimension=d)
    if cls == "simple":
        return oq.simple_pt(spec["mpos"], d, dt=DT, transform_in=spec["tin"],
                            transform_out=spec["tout"])
    pt = FileProcessTensor(mode="write", hilbert_space_dimension=d, dt=DT,
                           transform_in=spec["tin"], transform_out=spec["tout"])
    pt.set_initial_tensor(None)
    for k, m in enumerate(spec["mpos"]):
        pt.set_mpo_tensor(k, np.array(m, dtype=complex))
    pt.compute_caps()
    return pt


def drop_pt(pt):
    if hasattr(pt, "remove"):
        try:
            pt.remove()
        except Exception:
            pass


def env_sections(pt, n, L):
    """D_0..D_n | T_0 | .. | cap_0 | ..  from the REAL get_mpo_tensor / get_cap_tensor"""
    Ts, Ds = [], []
    for k in range(n):
        t = pt.get_mpo_tensor(k)
        if t is None:                                   # TrivialProcessTensor: skipped = identity
            t = np.eye(L, dtype=complex).reshape(1, 1, L, L)
        t = np.asarray(t)
        Ts.append(t)
        Ds.append(t.shape[0])
    Ds.append(Ts[-1].shape[1] if Ts else 1)
    caps = [np.asarray(pt.get_cap_tensor(k)) for k in range(n + 1)]
    return [" ".join(str(x) for x in Ds)] + [flat(t) for t in Ts] + [flat(c) for c in caps], Ts, Ds


def multi_lines(pts, n, L, rho0, props, controls):
    eye = np.eye(L, dtype=complex)
    secs = [flat(rho0)]
    tensors = []
    for pt in pts:
        s, Ts, Ds = env_sections(pt, n, L)
        secs += s
        tensors.append((Ts, Ds))
    tail, pres = [], []
    for k in range(n + 1):
        pre, post = controls(k)
        pre = eye if pre is None else pre
        post = eye if post is None else post
        pres.append(pre)
        if k < n:
            p1, p2 = props(k)
            tail += [flat(p1 @ post @ pre), flat(p2)]
    secs += tail + [flat(p) for p in pres]
    body = " | ".join(secs)
    return ["multi %d %d %d %s | %s" % (L, n, len(pts), mode, body) for mode in ("list", "one")], tensors


def rand_control(rng, d, n, start=0.0):
    """oqupy.Control with random (non trace preserving) superoperators at random steps, keyed by
    step (int) or by time (float: start + k*dt)"""
    import oqupy
    L = d * d
    ctl = oqupy.Control(d)
    desc = []
    for k in range(n + 1):
        for post in (False, True):
            if rng.random() < 0.4:
                as_time = rng.random() < 0.5
                ctl.add_single(control_key(k, start, as_time),
                               np.eye(L) + dyadic(rng, (L, L), den=8, span=2), post=post)
                desc.append((k, "post" if post else "pre", "time" if as_time else "step"))
    return ctl, desc


def rand_system(rng, d):
    import oqupy
    from . import cases
    return oqupy.System(cases.rand_herm(rng, d, 0.8))


TDEP = {"h0": 0.7 * np.array([[1, 0], [0, -1]], dtype=complex),      # H(t) = h0 + sin(2t) h1 + t h2
        "h1": 1.5 * np.array([[0, 1], [1, 0]], dtype=complex),
        "h2": 0.9 * np.array([[0, -1j], [1j, 0]], dtype=complex)}


def tdep_system(scale=1.0):
    """a TimeDependentSystem whose Hamiltonian does not commute with itself at different times"""
    import oqupy
    return oqupy.TimeDependentSystem(
        lambda t: scale * (TDEP["h0"] + np.sin(2 * t) * TDEP["h1"] + t * TDEP["h2"]))


def tdep_integral(a, b, scale=1.0):
    """integral of that Hamiltonian over [a, b], in closed form"""
    return scale * (TDEP["h0"] * (b - a) + TDEP["h1"] * (np.cos(2 * a) - np.cos(2 * b)) / 2
                    + TDEP["h2"] * (b * b - a * a) / 2)


def make_system(case):
    import oqupy
    if case.get("tdep"):
        return tdep_system(case["tdep"])
    return oqupy.System(case["ham"])


LAYOUTS = ["C", "F", "T-view", "slice"]


def as_layout(rho, layout):
    """the same matrix in another memory layout: C-contiguous, Fortran-contiguous, a transposed
    view of a C array (F-contiguous, not owning its data), a non-contiguous slice of a larger array"""
    rho = np.array(rho, dtype=complex)
    if layout == "C":
        out = np.ascontiguousarray(rho)
    elif layout == "F":
        out = np.asfortranarray(rho)
    elif layout == "T-view":
        out = np.ascontiguousarray(rho.T).T
    elif layout == "slice":
        big = np.full((2 * rho.shape[0], 2 * rho.shape[1]), 7.0 + 3.0j)
        big[::2, ::2] = rho
        out = big[::2, ::2]
    else:
        raise ValueError(layout)
    assert np.array_equal(out, rho)
    return out


def run_real(system, rho0, pts, n, control=None, start=0.0, record_all=True, layout="C"):
    """states of steps 0..n, or only the final one with record_all=False"""
    import oqupy
    rho0 = as_layout(rho0, layout)
    with quiet():
        dyn = oqupy.compute_dynamics(system, initial_state=rho0, dt=DT, num_steps=n,
                                     start_time=start, process_tensor=list(pts), control=control,
                                     record_all=record_all, progress_type="silent")
    return [np.array(s).reshape(-1) for s in dyn.states]


def system_parts(system, control, start=0.0):
    """the propagators and the controls of step k as the documented API gives them for a
    computation that starts at `start`"""
    from oqupy.config import SUBDIV_LIMIT, INTEGRATE_EPSREL
    props = system.get_propagators(DT, start, SUBDIV_LIMIT, INTEGRATE_EPSREL)

    def controls(k):
        with quiet():
            return control.get_controls(k, dt=DT, start_time=start)
    return props, controls


STARTS = [0.0, 1.5, -0.8, 0.37, -1.23]      # zero, positive, negative, non-multiples of dt


def control_key(k, start, as_time):
    """the key under which a control of step k is registered: the step (int) or its time (float)"""
    return float(start + k * DT) if as_time else int(k)


# ---------------------------------------------------------------------------
# ancilla environments
# ---------------------------------------------------------------------------

PAULI = [np.eye(2, dtype=complex), np.array([[0, 1], [1, 0]], dtype=complex),
         np.array([[0, -1j], [1j, 0]], dtype=complex), np.array([[1, 0], [0, -1]], dtype=complex)]


def joint_superop(kraus, e, d):
    """sum_j W_j (.) W_j^dagger on the index (b*L + s): b = ancilla pair index a*e+a',
    s = system pair index x*d+x' (row-major vec on both)."""
    E, L = e * e, d * d
    U = np.zeros((E * L, E * L), dtype=complex)
    for W in kraus:
        Wt = W.reshape(e, d, e, d)
        U += np.einsum("axcy,bzdw->abxzcdyw", Wt, Wt.conj()).reshape(E * L, E * L)
    return U


def ancilla_mpos(Us, rhoE, e, d):
    """hand-built MPO tensors (rank 4, system basis) of an ancilla with joint maps Us: initial
    ancilla state folded into the first tensor, ancilla trace into the last one."""
    E, L = e * e, d * d
    trE = np.eye(e, dtype=complex).reshape(-1)
    mpos = []
    for k, U in enumerate(Us):
        t = U.reshape(E, L, E, L).transpose(2, 0, 3, 1)        # [b, b', i, o]
        if k == 0:
            t = np.einsum("b,bcio->cio", rhoE.reshape(-1), t)[None]
        if k == len(Us) - 1:
            t = np.einsum("bcio,c->bio", t, trE)[:, None]
        mpos.append(t)
    return mpos


def rand_joint(rng, e, d, n, kind):
    """Kraus lists per step.  kind: unitary | channel | dephasing (rank-3 capable) |
    pauli (diagonal in the Pauli transfer basis of the system)"""
    from . import cases
    out = []
    for _ in range(n):
        if kind == "unitary":
            out.append([cases.rand_unitary(rng, e * d)])
        elif kind == "channel":
            p = rng.uniform(0.2, 0.8)
            out.append([np.sqrt(p) * cases.rand_unitary(rng, e * d),
                        np.sqrt(1 - p) * cases.rand_unitary(rng, e * d)])
        elif kind == "dephasing":      # W = (V (x) 1) . sum_x V_x (x) |x><x|
            W = np.zeros((e * d, e * d), dtype=complex)
            for x in range(d):
                px = np.zeros((d, d)); px[x, x] = 1
                W += np.kron(cases.rand_unitary(rng, e), px)
            out.append([np.kron(cases.rand_unitary(rng, e), np.eye(d)) @ W])
        elif kind == "pauli":
            # classical memory: register value j applies the Pauli q_j to the system and jumps
            # to l with probability p[l|j]:  K_{jl} = sqrt(p[l|j]) |l><j| (x) sigma_{q_j}
            # (diagonal in the Pauli transfer basis of the system, not in the computational one)
            assert d == 2
            q = [rng.randrange(4) for _ in range(e)]
            ks = []
            for j in range(e):
                w = [rng.uniform(0.1, 1.0) for _ in range(e)]
                for l in range(e):
                    lj = np.zeros((e, e)); lj[l, j] = 1
                    ks.append(np.sqrt(w[l] / sum(w)) * np.kron(lj, PAULI[q[j]]))
            out.append(ks)
        else:
            raise ValueError(kind)
    return out


def pauli_transforms():
    """transform_in[s, mu] = sigma_mu[x', x]/sqrt2 (s = x*2+x'), transform_out = its inverse"""
    tin = np.array([p.T.reshape(-1) for p in PAULI]).T / np.sqrt(2)
    tout = np.array([p.reshape(-1) for p in PAULI]) / np.sqrt(2)
    return tin, tout


def store_in_basis(mpos, tin, tout, rank3):
    """stored tensors such that get_mpo_tensor returns `mpos`: T = tin . stored . tout"""
    tin_inv, tout_inv = np.linalg.inv(tin), np.linalg.inv(tout)
    out = []
    for t in mpos:
        s = np.einsum("is,bcsr,ro->bcio", tin_inv, t, tout_inv)
        if rank3:
            diag = np.einsum("bcii->bci", s)
            off = s - np.einsum("bci,io->bcio", diag, np.eye(s.shape[2]))
            if np.abs(off).max() > 1e-10:
                raise AssertionError("tensor is not diagonal in the chosen basis")
            s = diag
        out.append(s)
    return out


def dense_joint(kraus_steps, rhoE, rho0, hams, ctrl_ops, n, e, d):
    """reference: the joint state as a density matrix, evolved with matrices only.
    hams: system Hamiltonian (constant); ctrl_ops[(k, post)] = K  (rho -> K rho K^dagger);
    returns the reduced states of steps 0..n (pre-measurement control applied)."""
    from scipy.linalg import expm
    if isinstance(hams, dict):       # time dependent: exp(-i * integral of H) per half step
        def half(k, second):
            a = hams["start"] + k * DT + (DT / 2 if second else 0.0)
            return np.kron(np.eye(e), expm(-1j * tdep_integral(a, a + DT / 2, hams["scale"])))
    else:
        Iu0 = np.kron(np.eye(e), expm(-0.5j * DT * hams))

        def half(k, second):
            return Iu0
    rho = np.kron(rhoE, rho0)
    states = []

    def ptrace(r):
        return np.einsum("axay->xy", r.reshape(e, d, e, d))
    def apply(r, ops):
        # one operator, or several in the order in which they act (earliest first)
        for K1 in (ops if isinstance(ops, list) else [ops]):
            K = np.kron(np.eye(e), K1)
            r = K @ r @ K.conj().T
        return r
    for k in range(n + 1):
        if (k, False) in ctrl_ops:
            rho = apply(rho, ctrl_ops[(k, False)])
        states.append(ptrace(rho).reshape(-1))
        if k == n:
            break
        if (k, True) in ctrl_ops:
            rho = apply(rho, ctrl_ops[(k, True)])
        Iu = half(k, False)
        rho = Iu @ rho @ Iu.conj().T
        rho = sum(W @ rho @ W.conj().T for W in kraus_steps[k])
        Iu = half(k, True)
        rho = Iu @ rho @ Iu.conj().T
    return states


STACK_OFFSETS = [-0.035, -0.02, -0.01, 0.015, 0.03, 0.04]     # |offset| < dt/2: same step


def ancilla_case(rng, variant, cls="simple", n=None, e=None, timed=False, force_step_keys=False,
                 stacked=False, chronological=False, final_only=False, force_record_all=False,
                 layout="C", tdep=None):
    """build one ancilla process tensor + the inputs of compute_dynamics; returns a dict"""
    import oqupy
    from oqupy import operators as op
    from . import cases, oq
    d = 2
    e = e or rng.choice([1, 2, 2])
    n = n or rng.randrange(1, 4)
    # exactly one transform: the tensors are stored with only the input (output) leg in another basis
    base = {"rank4-in-only": "rank4-basis", "rank4-out-only": "rank4-basis"}.get(variant, variant)
    kind = {"rank4": rng.choice(["unitary", "channel"]), "rank4-basis": rng.choice(["unitary", "channel"]),
            "rank3": "dephasing", "rank3-unitary-basis": "dephasing", "rank3-pauli": "pauli"}[base]
    kraus = rand_joint(rng, e, d, n, kind)
    rhoE = cases.rand_dm(rng, e)
    rho0 = cases.rand_dm(rng, d)
    ham = cases.rand_herm(rng, d, 0.8)
    Us = [joint_superop(ks, e, d) for ks in kraus]
    mpos = ancilla_mpos(Us, rhoE, e, d)
    tin = tout = None
    if base == "rank4-basis":
        m = np.array([[rng.gauss(0, 1) + 1j * rng.gauss(0, 1) for _ in range(4)] for _ in range(4)])
        m = m + 2.5 * np.eye(4)
        tin, tout = m, np.linalg.inv(m)
        if variant == "rank4-in-only":
            tout = None
        elif variant == "rank4-out-only":
            tin = None
        mpos = store_in_basis(mpos, np.eye(4) if tin is None else tin,
                              np.eye(4) if tout is None else tout, False)
    elif variant == "rank3":
        mpos = store_in_basis(mpos, np.eye(4), np.eye(4), True)
    elif variant == "rank3-unitary-basis":
        r = cases.rand_unitary(rng, d)
        # rotate the coupling basis: W -> (1 (x) r) W (1 (x) r^dagger); stored tensors unchanged
        kraus = [[np.kron(np.eye(e), r) @ W @ np.kron(np.eye(e), r.conj().T) for W in ks] for ks in kraus]
        tin = op.left_right_super(r.conj().T, r).T
        tout = op.left_right_super(r, r.conj().T).T
        mpos = store_in_basis(mpos, np.eye(4), np.eye(4), True)
    elif variant == "rank3-pauli":
        tin, tout = pauli_transforms()
        mpos = store_in_basis(mpos, tin, tout, True)
    Us = [joint_superop(ks, e, d) for ks in kraus]
    spec = {"kind": variant, "mpos": mpos, "tin": tin, "tout": tout}
    ctrl_ops = {}
    for k in range(n + 1):
        for post in (False, True):
            if rng.random() < (0.55 if timed else 0.35):
                K = np.eye(d) + 0.3 * np.array([[rng.gauss(0, 1) + 1j * rng.gauss(0, 1)
                                                 for _ in range(d)] for _ in range(d)])
                ctrl_ops[(k, post)] = K
    # (drawn after everything else, so that `timed=False` reproduces the stored corpus cases)
    start, as_time = 0.0, {}
    if timed:
        start = rng.choice(STARTS[1:])
        if not ctrl_ops:
            ctrl_ops[(min(1, n), False)] = np.array([[1.0, 0.4], [0.0, 0.8]], dtype=complex)
        as_time = {kp: (rng.random() < 0.7) for kp in sorted(ctrl_ops)}
        if not any(as_time.values()):
            as_time[sorted(ctrl_ops)[0]] = True
        if force_step_keys:
            as_time = {}
    def rand_k():
        return np.eye(d) + 0.3 * np.array([[rng.gauss(0, 1) + 1j * rng.gauss(0, 1)
                                            for _ in range(d)] for _ in range(d)])
    # (all of the following is drawn after the above, in this order, so that stored corpus cases
    #  keep reproducing)
    if final_only and not any(p and k < n for k, p in ctrl_ops):
        ctrl_ops[(rng.randrange(n), True)] = rand_k()
    if tdep:
        # time-dependent, self-non-commuting system Hamiltonian, NO controls, not starting at 0
        ctrl_ops = {}
        as_time = {}
        if start == 0.0:
            start = rng.choice(STARTS[1:])
    stacks = {}        # (k, post) -> [(time offset, K)] in INSERTION order
    if stacked:
        # several float-time controls of one kind at distinct times that round to the same step,
        # inserted latest-first (or, for the twin, in chronological order); they act in time order
        cands = [kp for kp in sorted(ctrl_ops) if kp[0] < n or not kp[1]] or [(min(1, n), False)]
        kp = rng.choice(cands)
        offs = sorted(rng.sample(STACK_OFFSETS, rng.choice([2, 3])))
        ks = [rand_k() for _ in offs]
        order = list(range(len(offs))) if chronological else list(reversed(range(len(offs))))
        stacks[kp] = [(offs[i], ks[i]) for i in order]
        ctrl_ops[kp] = list(ks)                      # action order = time order
    ctl = oqupy.Control(d)
    for (k, post) in sorted(ctrl_ops):
        if (k, post) in stacks:
            for off, K in stacks[(k, post)]:
                ctl.add_single(float(start + k * DT + off), op.left_right_super(K, K.conj().T),
                               post=post)
            continue
        K = ctrl_ops[(k, post)]
        ctl.add_single(control_key(k, start, as_time.get((k, post), False)),
                       op.left_right_super(K, K.conj().T), post=post)
    record_all = not (final_only and not force_record_all)
    if tdep:
        ham = {"start": start, "scale": tdep}
    return dict(d=d, e=e, n=n, variant=variant, cls=cls, kraus=kraus, Us=Us, rhoE=rhoE, rho0=rho0,
                ham=ham, tdep=tdep, spec=spec, ctrl_ops=ctrl_ops, control=ctl, start=start, record_all=record_all,
                layout=layout,
                desc={"variant": variant, "class": cls, "d": d, "e": e, "n": n, "joint": kind,
                      "initial_state_layout": layout,
                      "system": ("H(t) = %g (0.7 sz + 1.5 sin(2t) sx + 0.9 t sy)" % tdep) if tdep
                      else "constant",
                      "start_time": start, "record_all": record_all,
                      "controls": sorted("%d%s%s" % (
                          k, "post" if p else "pre",
                          ("@times%+r(added in this order)" % [o for o, _ in stacks[(k, p)]])
                          if (k, p) in stacks else ("@time" if as_time.get((k, p)) else ""))
                          for k, p in ctrl_ops)})


def ancilla_error(case):
    """max |compute_dynamics - dense joint evolution| over all steps (real code vs numpy)"""
    import oqupy
    pt = build_pt(case["spec"], case["d"], case["n"], case["cls"])
    try:
        real = run_real(make_system(case), case["rho0"], [pt], case["n"], case["control"],
                        case.get("start", 0.0), case.get("record_all", True), case.get("layout", "C"))
    finally:
        drop_pt(pt)
    ref = dense_joint(case["kraus"], case["rhoE"], case["rho0"], case["ham"], case["ctrl_ops"],
                      case["n"], case["e"], case["d"])
    if not case.get("record_all", True):
        ref = ref[-1:]                               # only the final state is returned
    if len(real) != len(ref):
        return np.inf, real, ref
    return max(np.abs(a - b).max() for a, b in zip(real, ref)), real, ref


def expected_mpo(raw, tin, tout):
    """what get_mpo_tensor has to return for the stored tensor `raw` (numpy, independent)"""
    t = np.asarray(raw, dtype=complex)
    if t.ndim == 3:
        t = np.einsum("bci,io->bcio", t, np.eye(t.shape[2]))
    if tin is not None:
        t = np.einsum("si,bcio->bcso", tin, t)
    if tout is not None:
        t = np.einsum("bcso,or->bcsr", t, tout)
    return t


def numpy_caps(mpos, tin, tout, d):
    """caps of a list of stored tensors (numpy, independent): close the transformed tensors with
    identity/sqrt(d) on both system legs, backwards from [1]"""
    tr = np.eye(d).reshape(-1) / np.sqrt(d)
    caps = [np.array([1.0 + 0j])]
    for m in reversed(mpos):
        caps.insert(0, np.einsum("bcio,c,i,o->b", expected_mpo(m, tin, tout), caps[0], tr, tr))
    return caps


def caps_trace(rng, cls):
    """history of tensor writes (set_mpo_tensor on EXISTING steps too) and compute_caps() calls on a
    real object; an answer is the version of the tensor list whose caps the object holds after
    compute_caps().  Returns (driver line, real answers, desc)."""
    d, L = 2, 4
    form = rng.choice(["rank3", "rank4", "rank4-t"])
    n = rng.randrange(2, 4)
    dims = [1] + [rng.randrange(1, 3) for _ in range(n - 1)] + [1]
    tin = tout = None
    if form.endswith("-t"):
        tin, tout = dyadic(rng, (L, L), den=2, span=2), dyadic(rng, (L, L), den=2, span=2)

    def rand_t(k):
        shp = (dims[k], dims[k + 1], L) if form == "rank3" else (dims[k], dims[k + 1], L, L)
        return dyadic(rng, shp, den=2, span=2)
    spec = {"kind": form, "mpos": [rand_t(k) for k in range(n)], "tin": tin, "tout": tout}
    pt = build_pt(spec, d, n, cls)             # version 1, compute_caps() done
    versions = [(1, numpy_caps(spec["mpos"], tin, tout, d))]
    cur = list(spec["mpos"])
    ops, answers = ["s 0 1", "g 0"], ["-"]
    try:
        def read():
            got = [np.asarray(pt.get_cap_tensor(k)).reshape(-1) for k in range(n + 1)]
            ans = "?"
            for vid, caps in versions:
                if all(a.shape == b.shape and np.abs(a - b).max() < 1e-9 * max(1.0, np.abs(b).max())
                       for a, b in zip(got, caps)):
                    ans = str(vid)
            return ans
        answers.append(read())
        for _ in range(rng.randrange(2, 6)):
            if rng.random() < 0.55:
                k = rng.randrange(n)            # overwrite an existing step
                cur[k] = rand_t(k)
                pt.set_mpo_tensor(k, np.array(cur[k], dtype=complex))
                vid = len(versions) + 1
                versions.append((vid, numpy_caps(cur, tin, tout, d)))
                ops.append("s 0 %d" % vid)
                answers.append("-")
            else:
                pt.compute_caps()
                ops.append("g 0")
                answers.append(read())
    finally:
        drop_pt(pt)
    desc = {"class": cls, "kind": "capsflag", "form": form, "dims": dims, "ops": " | ".join(ops)}
    return "hist %s capsflag | %s" % (cls, " | ".join(ops)), " ".join(answers), desc


def history_trace(rng, cls, kind):
    """random set_*/get_* history on a real object; returns (driver line, real answers, desc).
    Every stored tensor is a distinct random `version`; an answer is the version whose image
    (delta expansion + transforms for mpo tensors, identity for caps) the getter returned."""
    from oqupy.process_tensor import FileProcessTensor, SimpleProcessTensor
    d, L = 2, 4
    form = rng.choice(["rank3", "rank4-t", "rank3-t", "rank4"])
    tin = tout = None
    if form.endswith("-t"):
        tin, tout = dyadic(rng, (L, L), den=2, span=2), dyadic(rng, (L, L), den=2, span=2)
    if cls == "simple":
        pt = SimpleProcessTensor(hilbert_space_dimension=d, dt=DT, transform_in=tin, transform_out=tout)
    else:
        pt = FileProcessTensor(mode="write", hilbert_space_dimension=d, dt=DT,
                               transform_in=tin, transform_out=tout)
    nsteps = rng.randrange(1, 4)
    versions = {}          # step -> list of (id, stored array)
    ops, answers, next_id = [], [], 1
    try:
        def do_set(k):
            nonlocal next_id
            if kind == "mpo":
                shp = (1, 1, L) if form.startswith("rank3") else (1, 1, L, L)
            else:
                shp = (rng.randrange(1, 4),)
            v = dyadic(rng, shp, den=2, span=3) + next_id        # distinct from every other version
            (pt.set_mpo_tensor if kind == "mpo" else pt.set_cap_tensor)(k, np.array(v, dtype=complex))
            versions.setdefault(k, []).append((next_id, v))
            ops.append("s %d %d" % (k, next_id))
            answers.append("-")
            next_id += 1
        for k in range(nsteps):
            do_set(k)
        for _ in range(rng.randrange(3, 9)):
            k = rng.randrange(nsteps)
            if rng.random() < 0.4:
                do_set(k)
            else:
                got = pt.get_mpo_tensor(k) if kind == "mpo" else pt.get_cap_tensor(k)
                ans = "?"
                if got is None:
                    ans = "-"
                else:
                    for vid, v in versions[k]:
                        want = expected_mpo(v, tin, tout) if kind == "mpo" else np.asarray(v)
                        if np.shape(got) == want.shape and np.abs(np.asarray(got) - want).max() < 1e-9:
                            ans = str(vid)
                ops.append("g %d" % k)
                answers.append(ans)
    finally:
        drop_pt(pt)
    desc = {"class": cls, "kind": kind, "form": form, "ops": " | ".join(ops)}
    return "hist %s %s | %s" % (cls, kind, " | ".join(ops)), " ".join(answers), desc


# ---------------------------------------------------------------------------
# correspondence
# ---------------------------------------------------------------------------

def correspondence(res, tier, rng):
    import oqupy
    from . import cases
    d, L = 2, 4
    lines, checks = [], []          # checks: (index of first line, kind, data)

    # A. lists of random process tensors through the real compute_dynamics
    ncase = 28 if tier == "quick" else 120
    for c in range(ncase):
        n = rng.randrange(1, 4)
        m = [0, 1, 2, 3, 2, 3, 1][c % 7]
        if tier == "quick" and m == 3:
            n = min(n, 2)
        # forced: a self-non-commuting time-dependent system, no controls, final state only
        tdep_case = (c % 7 == 4)
        if tdep_case:
            n = max(n, 2)
        specs = [rand_env_spec(rng, d, n) for _ in range(m)]
        if m >= 2 and c % 7 in (2, 3):
            # forced: a TrivialProcessTensor AFTER a real process tensor ([pt, Trivial], [A, Trivial, B])
            n = max(n, 2) if tier != "quick" or m == 2 else n
            specs = [rand_env_spec(rng, d, n, rng.choice(["rank4", "rank3", "rank4-t"])) for _ in range(m)]
            specs[1] = {"kind": "trivial"}
            res.count("forced:trivial environment after a real one")
        try:
            pts = [build_pt(s, d, n) for s in specs]
        except Exception as exc:          # the model has an answer for every such tensor list
            for s in specs:
                res.count("env:" + s["kind"])
            res.disagree("building the process tensors (set_mpo_tensor + compute_caps) raised %s: %s"
                         % (type(exc).__name__, str(exc)[:200]),
                         {"n": n, "envs": [s["kind"] for s in specs],
                          "bond_dims": [s.get("dims") for s in specs]})
            continue
        system = rand_system(rng, d)
        start = STARTS[c % len(STARTS)]
        control, cdesc = rand_control(rng, d, n, start)
        if tdep_case:
            system, control, cdesc = tdep_system(), oqupy.Control(d), []
            start = start or 0.37
            res.count("system:time-dependent, no controls, final state only")
        rho0 = cases.rand_dm(rng, d)
        rec_all = (c % 5 != 4) and not tdep_case
        layout = LAYOUTS[c % len(LAYOUTS)]
        real = run_real(system, rho0, pts, n, control, start, rec_all, layout)
        res.count("initial_state_layout=" + layout)
        # history: overwrite one stored tensor of an object that has been contracted (its tensors
        # and caps were read), recompute the caps, contract again -- against a FRESH object
        # holding the same stored tensors (and, below, against the model on the fresh one's tensors)
        live = [j for j, s_ in enumerate(specs) if s_["kind"] != "trivial"]
        if live and c % 2 == 0:
            j = rng.choice(live)
            k = rng.randrange(n)
            new = dyadic(rng, specs[j]["mpos"][k].shape, den=2, span=2)
            specs[j] = dict(specs[j], mpos=[new if kk == k else t for kk, t in enumerate(specs[j]["mpos"])])
            pts[j].set_mpo_tensor(k, np.array(new, dtype=complex))
            pts[j].compute_caps()
            again = run_real(system, rho0, pts, n, control, start, rec_all)
            pts = [build_pt(s_, d, n) for s_ in specs]
            real = run_real(system, rho0, pts, n, control, start, rec_all, layout)
            herr = max(np.abs(a - b).max() for a, b in zip(again, real)) \
                / max(1.0, max(np.abs(x).max() for x in real))
            res.count("history:overwrite-then-contract")
            res.case("history:%d:%d:%r" % (j, k, [s_["kind"] for s_ in specs]), True,
                     {"overwritten": {"env": j, "step": k, "kind": specs[j]["kind"]},
                      "reused_object_vs_fresh_object": herr})
            if not herr <= 1e-12:
                res.disagree("a process tensor whose step %d was overwritten with set_mpo_tensor after a "
                             "contraction gives states that differ by %g from a fresh object with the "
                             "same stored tensors" % (k, herr),
                             {"n": n, "envs": [s_["kind"] for s_ in specs], "env": j, "step": k})
        if tdep_case:
            full = run_real(system, rho0, pts, n, control, start, True, layout)
            ferr = np.abs(real[0] - full[-1]).max() / max(1.0, np.abs(full[-1]).max())
            if not ferr <= 1e-10:
                res.disagree("time-dependent system without controls: the state returned with "
                             "record_all=False differs by %g from the last state of the record_all=True "
                             "run" % ferr, {"n": n, "envs": [s_["kind"] for s_ in specs],
                                            "start_time": start})
        props, controls = system_parts(system, control, start)
        ls, tensors = multi_lines(pts, n, L, rho0, props, controls)
        desc = {"n": n, "envs": [s["kind"] for s in specs], "start_time": start,
                "system": "time-dependent" if tdep_case else "constant",
                "record_all": rec_all, "initial_state_layout": layout,
                "bond_dims": [s.get("dims") for s in specs], "controls": cdesc}
        res.count("record_all=%s" % rec_all)
        checks.append((len(lines), "multi", (desc, real)))
        lines += ls
        res.count("start_time=%s" % start)
        for cd in cdesc:
            res.count("control-key:" + cd[2])
        res.count("envs=%d" % m)
        for s in specs:
            res.count("env:" + s["kind"])
        res.count("steps=%d" % n)
        # B./C. get_mpo_tensor and compute_caps of every non-trivial environment, both classes
        for s, pt in zip(specs, pts):
            if s["kind"] == "trivial":
                continue
            for cls in (("simple", "file") if (c % 3 == 0 or tier != "quick") else ("simple",)):
                try:
                    p2 = pt if cls == "simple" else build_pt(s, d, n, "file")
                except Exception as exc:
                    res.disagree("building the FileProcessTensor (compute_caps) raised %s: %s"
                                 % (type(exc).__name__, str(exc)[:200]),
                                 {"kind": s["kind"], "dims": s["dims"], "in_dim": s["lin"],
                                  "out_dim": s["lout"]})
                    continue
                try:
                    add_tensor_cap_lines(lines, checks, s, p2, cls, n, L)
                finally:
                    if cls == "file":
                        drop_pt(p2)
                res.count("caps:" + cls)
        # E. commutation hypothesis on two rank-3 environments without transforms + its prediction
        if m == 2 and all(s["kind"] == "rank3" for s in specs):
            swapped = run_real(system, rho0, pts[::-1], n, control, start, rec_all)
            for k in range(n):
                (T1, D1), (T2, D2) = tensors
                checks.append((len(lines), "commute", (desc, k, real, swapped)))
                lines.append("commute %d %d %d %d %d | %s | %s" % (
                    L, D1[k], D1[k + 1], D2[k], D2[k + 1], flat(T1[k]), flat(T2[k])))
            res.count("commuting-pair")

    # a few guaranteed rank-3 pairs (commutation + order independence)
    for c in range(3 if tier == "quick" else 12):
        n = rng.randrange(1, 4)
        specs = [rand_env_spec(rng, d, n, "rank3") for _ in range(2)]
        pts = [build_pt(s, d, n) for s in specs]
        system = rand_system(rng, d)
        control, cdesc = rand_control(rng, d, n)
        rho0 = cases.rand_dm(rng, d)
        real = run_real(system, rho0, pts, n, control)
        swapped = run_real(system, rho0, pts[::-1], n, control)
        props, controls = system_parts(system, control)
        ls, tensors = multi_lines(pts, n, L, rho0, props, controls)
        desc = {"n": n, "envs": ["rank3", "rank3"], "bond_dims": [s["dims"] for s in specs],
                "controls": cdesc}
        checks.append((len(lines), "multi", (desc, real)))
        lines += ls
        (T1, D1), (T2, D2) = tensors
        for k in range(n):
            checks.append((len(lines), "commute", (desc, k, real, swapped)))
            lines.append("commute %d %d %d %d %d | %s | %s" % (
                L, D1[k], D1[k + 1], D2[k], D2[k + 1], flat(T1[k]), flat(T2[k])))
        res.count("commuting-pair")

    # D. ancilla process tensors: real compute_dynamics vs ptOfJoint vs joint evolution
    nj = 12 if tier == "quick" else 60
    for c in range(nj):
        case = ancilla_case(rng, (["rank4-in-only", "rank4-out-only"][(c // 6) % 2] if c % 6 == 0
                                  else rng.choice(["rank4", "rank4", "rank3"])),
                            cls=("file" if c % 12 == 6 else "simple"),
                            e=(1 if c % 4 == 3 else 2),
                            n=max(rng.randrange(1, 4 if tier != "quick" else 3), 2 if c % 12 == 5 else 1),
                            timed=(c % 3 != 2), stacked=(c % 4 == 1),
                            final_only=(c % 5 == 3 or c % 12 == 5),
                            layout=LAYOUTS[(c + 1) % len(LAYOUTS)],
                            tdep=(1.0 if c % 12 == 5 else None))
        if case["tdep"]:
            res.count("ancilla:time-dependent system, no controls, final state only")
        res.count("ancilla:initial_state_layout=" + case["layout"])
        err, real, ref = ancilla_error(case)
        res.count("ancilla:record_all=%s" % case["record_all"])
        if c % 4 == 1:
            res.count("ancilla:stacked float-time controls")
        n, e = case["n"], case["e"]
        E = e * e
        props, controls = system_parts(make_system(case), case["control"], case["start"])
        res.count("ancilla:start_time=%s" % case["start"])
        eye = np.eye(L, dtype=complex)
        secs = ["joint %d %d %d" % (L, E, n), flat(case["rho0"]), flat(case["rhoE"]),
                flat(np.eye(e)), *[flat(U) for U in case["Us"]]]
        pres, tail = [], []
        for k in range(n + 1):
            pre, post = controls(k)
            pre = eye if pre is None else pre
            post = eye if post is None else post
            pres.append(pre)
            if k < n:
                p1, p2 = props(k)
                tail += [flat(p1 @ post @ pre), flat(p2)]
        secs += tail + [flat(p) for p in pres]
        checks.append((len(lines), "joint", (case["desc"], real, ref)))
        lines.append(" | ".join(secs))
        res.count("ancilla:" + case["variant"])

    # F. object histories: which stored version does every get_* call answer with
    nh = 10 if tier == "quick" else 60
    for c in range(nh):
        cls = "simple" if c % 3 else "file"
        kind = "mpo" if c % 4 else "cap"
        line, answers, desc = history_trace(rng, cls, kind)
        checks.append((len(lines), "hist", (desc, answers)))
        lines.append(line)
        res.count("history-trace:%s:%s" % (cls, kind))
    for c in range(6 if tier == "quick" else 40):
        cls = "simple" if c % 3 else "file"
        line, answers, desc = caps_trace(rng, cls)
        checks.append((len(lines), "hist", (desc, answers)))
        lines.append(line)
        res.count("history-trace:%s:capsflag" % cls)

    out = fw.run_driver(PID, lines)
    if len(out) != len(lines):
        raise fw.Infra("driver returned %d lines for %d inputs" % (len(out), len(lines)))
    for idx, kind, data in checks:
        if kind == "multi":
            desc, real = data
            scale = max(1.0, max(np.abs(s).max() for s in real))
            errs = {}
            for j, mode in enumerate(("list", "one")):
                if out[idx + j] == "bad-op":
                    res.disagree("driver rejected a multi line", desc)
                    continue
                model = parse_states(out[idx + j])
                if len(real) == 1:                   # record_all=False: the final state only
                    model = model[-1:]
                errs[mode] = max(np.abs(a - b).max() for a, b in zip(real, model)) / scale
            res.case("multi:" + repr(desc), bool(desc["envs"]),
                     {"case": desc, "compute_dynamics_vs_list_model": errs.get("list"),
                      "compute_dynamics_vs_combined_model": errs.get("one")})
            for mode, e_ in errs.items():
                if not e_ <= TOL:
                    res.disagree("compute_dynamics differs from the %s model by %g (relative)"
                                 % (mode, e_), desc)
        elif kind == "tensor":
            desc, real = data
            if out[idx] in ("bad-op", "unknown-wiring"):
                res.disagree("get_mpo_tensor: model answered " + out[idx], desc)
                continue
            model = np.array([fw.parse_crat(t) for t in out[idx].split()])
            err = np.abs(model - real.reshape(-1)).max() if model.shape == real.reshape(-1).shape else np.inf
            res.case("tensor:" + repr(desc), True, {"case": desc, "get_mpo_tensor_vs_mpoTensorOf": err})
            if not err <= TOL * max(1.0, np.abs(real).max()):
                res.disagree("get_mpo_tensor differs from mpoTensorOf by %g" % err, desc)
        elif kind == "caps":
            desc, real = data
            if out[idx] in ("bad-op", "unknown-wiring"):
                res.disagree("compute_caps: model answered " + out[idx], desc)
                continue
            model = parse_states(out[idx])
            scale = max(1.0, max(np.abs(c).max() for c in real))
            ok = len(model) == len(real) and all(a.shape == b.shape for a, b in zip(model, real))
            err = max(np.abs(a - b).max() for a, b in zip(model, real)) / scale if ok else np.inf
            res.case("caps:" + repr(desc), True, {"case": desc, "compute_caps_vs_capStepOf": err})
            if not err <= TOL:
                res.disagree("compute_caps differs from capStepOf by %g (relative)" % err, desc)
        elif kind == "joint":
            desc, real, ref = data
            if out[idx] == "bad-op":
                res.disagree("driver rejected a joint line", desc)
                continue
            a, b, c_ = out[idx].split(" # ")
            mp, mj, mf = parse_states(a), parse_states(b), parse_states(c_)
            if len(real) == 1:                       # record_all=False: the final state only
                real, ref = [None] * (len(mp) - 1) + real, [None] * (len(mp) - 1) + ref
                real, ref, mp_cmp = real[-1:], ref[-1:], mp[-1:]
            else:
                mp_cmp = mp
            e1 = max(np.abs(x - y).max() for x, y in zip(real, mp_cmp))
            e2 = max(max(np.abs(x - y).max() for x, y in zip(mp, mj)),
                     max(np.abs(x - y).max() for x, y in zip(mp, mf)))
            e3 = max(np.abs(x - y).max() for x, y in zip(real, ref))
            res.case("joint:" + repr(desc), True,
                     {"case": desc, "compute_dynamics_vs_mpoRecord_ptOfJoint": e1,
                      "mpoRecord_ptOfJoint_vs_jointRecord_and_foldLast": e2,
                      "compute_dynamics_vs_numpy_joint": e3})
            if not e1 <= TOL:
                res.disagree("compute_dynamics on an ancilla process tensor differs from "
                             "mpoRecord (ptOfJoint) by %g" % e1, desc)
            if not e2 <= 1e-12:
                res.disagree("model: mpoRecord (ptOfJoint) differs from jointRecord / the closed-last-bond form by %g" % e2, desc)
            if not e3 <= (1e-7 if desc.get("system", "constant") != "constant" else TOL):
                res.disagree("compute_dynamics on an ancilla process tensor differs from the dense "
                             "joint evolution by %g" % e3, desc)
        elif kind == "hist":
            desc, answers = data
            res.case("hist:" + repr(desc), True, {"case": desc, "real": answers, "model": out[idx]})
            if out[idx] != answers:
                res.disagree("history of set_*/get_* calls: the real object answers [%s], the model "
                             "[%s] (entries: version last stored for that step)" % (answers, out[idx]),
                             desc)
        elif kind == "commute":
            desc, k, real, swapped = data
            scale = max(1.0, max(np.abs(s).max() for s in real))
            err = max(np.abs(a - b).max() for a, b in zip(real, swapped)) / scale
            res.case("commute:%d:%r" % (k, desc), True,
                     {"case": desc, "step": k, "hypothesis_CommuteOn": out[idx],
                      "order_swap_difference": err})
            if out[idx] != "true":
                res.disagree("rank-3 tensors without transforms do not commute exactly "
                             "(model says %s)" % out[idx], desc)
            elif not err <= TOL:
                res.disagree("commuting environments: swapping the list changes the states by %g"
                             % err, desc)


def add_tensor_cap_lines(lines, checks, s, pt, cls, n, L):
    lin, lout = s["lin"], s["lout"]
    has_in, has_out = int(s["tin"] is not None), int(s["tout"] is not None)
    tin = s["tin"] if has_in else np.zeros(0)
    tout = s["tout"] if has_out else np.zeros(0)
    dims = s["dims"]
    desc0 = {"class": cls, "kind": s["kind"], "dims": dims, "in_dim": lin, "out_dim": lout,
             "transform_in": bool(has_in), "transform_out": bool(has_out)}
    for k in (0, n - 1) if n > 1 else (0,):
        raw = s["mpos"][k]
        real = np.asarray(pt.get_mpo_tensor(k))
        checks.append((len(lines), "tensor", (dict(desc0, step=k, rank=raw.ndim), real)))
        lines.append("tensor %s %d %d %d %d %d %d %d %d | %s | %s | %s" % (
            cls, raw.ndim, dims[k], dims[k + 1], lin, lout, L, has_in, has_out,
            flat(raw), flat(tin), flat(tout)))
    real_caps = [np.asarray(pt.get_cap_tensor(k)).reshape(-1) for k in range(n + 1)]
    checks.append((len(lines), "caps", (dict(desc0, ranks=[m.ndim for m in s["mpos"]]), real_caps)))
    lines.append("caps %s %d %d %d %d %d %d | %s | %s | %s | %s | %s" % (
        cls, n, L, lin, lout, has_in, has_out, flat(pt._trace), flat(tin), flat(tout),
        " ".join(map(str, dims)),
        " | ".join("%d %s" % (m.ndim, flat(m)) for m in s["mpos"])))


# ---------------------------------------------------------------------------
# search: oracles on the real code
# ---------------------------------------------------------------------------

ANCILLA_TOL = 1e-9


def oracle_ancilla(res, gen_seed, variant, cls, key=None, wide=False, timed=False, stacked=False,
                   final_only=False):
    rng = random.Random(gen_seed)
    case = ancilla_case(rng, variant, cls, e=(rng.choice([3, 4]) if wide else None), timed=timed,
                        stacked=stacked, final_only=final_only)
    err, real, ref = ancilla_error(case)
    if not err <= ANCILLA_TOL:
        if key is None and final_only:
            # the same computation with record_all=True (compared at every step)
            twin = ancilla_case(random.Random(gen_seed), variant, cls, timed=timed, stacked=stacked,
                                final_only=True, force_record_all=True)
            if ancilla_error(twin)[0] <= ANCILLA_TOL:
                key = KEY_FINAL_ONLY
        if key is None and stacked:
            # the same controls inserted in chronological order
            twin = ancilla_case(random.Random(gen_seed), variant, cls, timed=timed, stacked=True,
                                chronological=True, final_only=final_only)
            if ancilla_error(twin)[0] <= ANCILLA_TOL:
                key = KEY_STACK
        if key is None and timed:
            # the same case with every control registered by its step instead of its time
            twin = ancilla_case(random.Random(gen_seed), variant, cls,
                                e=(random.Random(gen_seed).choice([3, 4]) if wide else None),
                                timed=True, force_step_keys=True, stacked=stacked,
                                final_only=final_only)
            if ancilla_error(twin)[0] <= ANCILLA_TOL:
                key = KEY_TIME_CONTROLS
        if key is None and variant in ("rank4-in-only", "rank4-out-only"):
            key = KEY_ONE_TRANSFORM % (cls.capitalize(), variant.split("-")[1])
        if key is None:
            if variant.startswith("rank3") and case["spec"]["tin"] is not None and cls == "simple":
                key = KEY_CAPS_SIMPLE
            elif cls == "file" and case["spec"]["tin"] is not None:
                key = KEY_CAPS_FILE
            else:
                key = "joint:%s:%s" % (cls, variant)
        steps = [int(k) for k in range(min(len(real), len(ref)))
                 if np.abs(real[k] - ref[k]).max() > ANCILLA_TOL] or [0]
        res.fail(key, {"oracle": "ancilla", "gen_seed": gen_seed, "variant": variant, "class": cls,
                       "wide": wide, "timed": timed, "stacked": stacked, "final_only": final_only,
                       "case": case["desc"], "max_state_difference": float(err),
                       "steps_that_differ": steps,
                       "compute_dynamics_state": [[complex(z).real, complex(z).imag] for z in real[steps[0]]],
                       "joint_evolution_state": [[complex(z).real, complex(z).imag] for z in ref[steps[0]]],
                       "how": "hand-built ancilla process tensor (%s, %sProcessTensor, compute_caps): "
                              "compute_dynamics(start_time=%s) differs from the traced joint evolution "
                              "at step(s) %s" % (variant, cls.capitalize(), case["start"], steps)})
        return True
    return False


def oracle_layout(res, gen_seed, key=None, only=None):
    """the initial state in every memory layout (same values, complex coherences), for the three
    entry points that vectorise it: compute_dynamics against the dense joint evolution,
    compute_dynamics_with_field / compute_gradient_and_dynamics against their own result for the
    C-contiguous copy"""
    import oqupy
    from oqupy import operators as op
    from oqupy.gradient import compute_gradient_and_dynamics
    found = False
    for layout in LAYOUTS[1:]:
        if only and only[1] != layout:
            continue
        rng = random.Random(gen_seed)
        case = ancilla_case(rng, "rank4", "simple", n=2, e=2, layout=layout)
        rho = case["rho0"]
        if abs(rho[0, 1].imag) < 0.05:               # make sure the transpose is another matrix
            rho = rho + np.array([[0, 0.2j], [-0.2j, 0]])
            case["rho0"] = rho
        n = case["n"]
        pt = build_pt(case["spec"], 2, n)

        def field_run(lay):
            tsys = oqupy.TimeDependentSystemWithField(
                lambda t, a: 0.5 * op.sigma("x") + 0.2 * np.real(a) * op.sigma("z"))
            mfs = oqupy.MeanFieldSystem(
                [tsys], lambda t, states, a: -0.1j * a + 0.3 * np.trace(op.sigma("y") @ states[0]))
            with quiet():
                dyn = oqupy.compute_dynamics_with_field(
                    mfs, initial_field=0.4 + 0.1j, initial_state_list=[as_layout(rho, lay)], dt=DT,
                    num_steps=n, process_tensor_list=[pt], progress_type="silent")
            return [np.array(st).reshape(-1) for st in dyn.system_states_list[0]] \
                if hasattr(dyn, "system_states_list") else \
                [np.array(st).reshape(-1) for st in dyn.system_dynamics[0].states]

        def grad_run(lay):
            psys = oqupy.ParameterizedSystem(lambda x: x * op.sigma("x") + 0.3 * op.sigma("z"))
            with quiet():
                _, dyn = compute_gradient_and_dynamics(
                    system=psys, parameters=np.full((2 * n, 1), 0.7), initial_state=as_layout(rho, lay),
                    target_derivative=op.spin_dm("y+"), process_tensors=[pt], dt=DT, num_steps=n,
                    progress_type="silent")
            return [np.array(st).reshape(-1) for st in dyn.states]
        runs = []
        if not only or only[0] == "compute_dynamics":
            err, real, ref = ancilla_error(case)
            runs.append(("compute_dynamics", err))
        for name, f in (("compute_dynamics_with_field", field_run),
                        ("compute_gradient_and_dynamics", grad_run)):
            if only and only[0] != name:
                continue
            a, b = f("C"), f(layout)
            runs.append((name, max(np.abs(x - y).max() for x, y in zip(a, b))))
        for name, err in runs:
            if not err <= ANCILLA_TOL:
                found = True
                res.fail(key or KEY_LAYOUT % (name, layout),
                         {"oracle": "layout", "gen_seed": gen_seed, "entry_point": name, "layout": layout,
                          "initial_state": [[[z.real, z.imag] for z in row] for row in np.asarray(rho)],
                          "max_state_difference": float(err), "case": case["desc"],
                          "how": "%s with the initial state passed as a %s array (same values as the "
                                 "C-contiguous one): the states differ by %g from %s"
                                 % (name, layout, err, "the traced joint evolution"
                                    if name == "compute_dynamics" else "the run with the C-contiguous copy")})
    return found


def oracle_caps_gauge(res, gen_seed, cls, key=None):
    """build an ancilla process tensor (compute_caps), overwrite two EXISTING neighbouring steps with
    a gauge change on the bond between them (T_{j-1} -> T_{j-1} G, T_j -> G^{-1} T_j: the same
    process, other caps), compute_caps() again, contract with record_all=True: must still be the
    traced joint evolution at every step"""
    rng = random.Random(gen_seed)
    case = ancilla_case(rng, "rank4", cls, n=rng.randrange(2, 4), e=2)
    n = case["n"]
    j = rng.randrange(1, n)
    E = case["spec"]["mpos"][j].shape[0]
    g = np.array([[rng.gauss(0, 1) + 1j * rng.gauss(0, 1) for _ in range(E)] for _ in range(E)]) \
        + 2.0 * np.eye(E)
    pt = build_pt(case["spec"], case["d"], n, cls)
    try:
        pt.set_mpo_tensor(j - 1, np.einsum("bcio,cd->bdio", case["spec"]["mpos"][j - 1], g))
        pt.set_mpo_tensor(j, np.einsum("bc,cdio->bdio", np.linalg.inv(g), case["spec"]["mpos"][j]))
        pt.compute_caps()
        import oqupy
        real = run_real(oqupy.System(case["ham"]), case["rho0"], [pt], n, case["control"])
    finally:
        drop_pt(pt)
    ref = dense_joint(case["kraus"], case["rhoE"], case["rho0"], case["ham"], case["ctrl_ops"], n,
                      case["e"], case["d"])
    err = max(np.abs(a - b).max() for a, b in zip(real, ref))
    if not err <= ANCILLA_TOL:
        steps = [int(k) for k in range(len(ref)) if np.abs(real[k] - ref[k]).max() > ANCILLA_TOL]
        res.fail(key or KEY_CAPS_STALE % cls.capitalize(),
                 {"oracle": "caps-gauge", "gen_seed": gen_seed, "class": cls, "bond": j,
                  "case": case["desc"], "max_state_difference": float(err), "steps_that_differ": steps,
                  "how": "%sProcessTensor: build + compute_caps(), then set_mpo_tensor(%d, T G) and "
                         "set_mpo_tensor(%d, G^-1 T) (gauge change of one bond), compute_caps() again, "
                         "compute_dynamics(record_all=True): states differ from the traced joint "
                         "evolution at step(s) %s" % (cls.capitalize(), j - 1, j, steps)})
        return True
    return False


TDEP_TOL = 1e-7     # the reference integrates H(t) in closed form, the library with quad_vec


def oracle_tdep_final(res, gen_seed, variant="rank4", cls="simple", key=None):
    """final-only run (record_all=False) with a self-non-commuting time-dependent system and NO
    controls, >= 2 steps: against the dense joint evolution and against the last state of the
    record_all=True run"""
    r0 = random.Random(gen_seed + 7)
    n, scale = r0.randrange(2, 5), r0.choice([1.0, 1.0, 2.0])
    mk = lambda all_: ancilla_case(random.Random(gen_seed), variant, cls, n=n, e=r0.choice([2]),
                                   final_only=True, force_record_all=all_, tdep=scale)
    case_f, case_a = mk(False), mk(True)
    err_f, real_f, ref_f = ancilla_error(case_f)
    err_a, real_a, ref_a = ancilla_error(case_a)
    diff = np.abs(real_f[0] - real_a[-1]).max() if len(real_f) == 1 else np.inf
    if err_a <= TDEP_TOL and (not err_f <= TDEP_TOL or not diff <= 1e-10):
        res.fail(key or KEY_TDEP_FINAL,
                 {"oracle": "tdep-final", "gen_seed": gen_seed, "variant": variant, "class": cls,
                  "case": case_f["desc"], "final_state_vs_joint_evolution": float(err_f),
                  "final_state_vs_last_state_of_record_all_run": float(diff),
                  "max_state_difference": float(max(err_f, diff)),
                  "how": "compute_dynamics(record_all=False, num_steps=%d, start_time=%s) with H(t) = "
                         "%g (0.7 sz + 1.5 sin(2t) sx + 0.9 t sy) and no controls on an ancilla process "
                         "tensor: the returned state differs by %g from the traced joint evolution and by "
                         "%g from the last state of the record_all=True run"
                         % (n, case_f["start"], scale, err_f, diff)})
        return True
    if not err_a <= TDEP_TOL:
        res.fail(key or "joint:%s:%s:time-dependent system" % (cls, variant),
                 {"oracle": "tdep-final", "gen_seed": gen_seed, "variant": variant, "class": cls,
                  "case": case_a["desc"], "max_state_difference": float(err_a)})
        return True
    return False


def oracle_trivial(res, gen_seed, key=None):
    """oqupy.TrivialProcessTensor at every position of the list: with one ancilla process tensor
    against the dense joint evolution at ALL steps; with two ancilla process tensors against the
    list without it (a non-existent environment changes nothing, wherever it stands)"""
    import oqupy
    rng = random.Random(gen_seed)
    n = rng.randrange(2, 4)
    case = ancilla_case(rng, rng.choice(["rank4", "rank3"]), "simple", n=n, e=2)
    other = ancilla_case(rng, "rank3", "simple", n=n, e=rng.choice([1, 2]))
    system = oqupy.System(case["ham"])
    a = build_pt(case["spec"], 2, n)
    b = build_pt(other["spec"], 2, n)
    triv = lambda: oqupy.TrivialProcessTensor(hilbert_space_dimension=2)
    ref1 = dense_joint(case["kraus"], case["rhoE"], case["rho0"], case["ham"], case["ctrl_ops"], n,
                       case["e"], case["d"])
    ref2 = run_real(system, case["rho0"], [a, b], n, case["control"])
    found = False
    lists = [([a, triv()], 1, ref1), ([triv(), a], 0, ref1), ([triv(), a, triv()], 2, ref1),
             ([a, triv(), triv()], 1, ref1), ([a, triv(), b], 1, ref2), ([triv(), a, b], 0, ref2),
             ([a, b, triv()], 2, ref2)]
    for pts, pos, ref in lists:
        if key and key != KEY_TRIVIAL % (pos, len(pts)):
            continue
        real = run_real(system, case["rho0"], pts, n, case["control"])
        err = max(np.abs(x - y).max() for x, y in zip(real, ref))
        if not err <= ANCILLA_TOL:
            found = True
            steps = [int(k) for k in range(len(ref)) if np.abs(real[k] - ref[k]).max() > ANCILLA_TOL]
            res.fail(key or KEY_TRIVIAL % (pos, len(pts)),
                     {"oracle": "trivial", "gen_seed": gen_seed,
                      "list": ["Trivial" if isinstance(p, oqupy.process_tensor.TrivialProcessTensor)
                               else "ancilla" for p in pts],
                      "case": case["desc"], "max_state_difference": float(err),
                      "steps_that_differ": steps,
                      "how": "compute_dynamics with the list %s: states differ at step(s) %s from %s"
                             % (["Trivial" if isinstance(p, oqupy.process_tensor.TrivialProcessTensor)
                                 else "ancilla PT" for p in pts], steps,
                                "the traced joint evolution of the one ancilla" if ref is ref1
                                else "the same list without the TrivialProcessTensor")})
    return found


def oracle_history(res, gen_seed, variant, cls, key=None):
    """contract an ancilla process tensor, overwrite one step with the tensor of another joint map
    (set_mpo_tensor, compute_caps), contract again: must be the joint evolution with the new map
    (and what a fresh object with the same stored tensors gives)"""
    import oqupy
    rng = random.Random(gen_seed)
    case = ancilla_case(rng, variant, cls, n=rng.randrange(2, 4), e=2)
    other = ancilla_case(random.Random(gen_seed + 1), variant, cls, n=case["n"], e=2)
    j = rng.randrange(case["n"])
    system = oqupy.System(case["ham"])
    # the joint maps with step j replaced by the one of `other` (for j = 0 its ancilla state too),
    # stored in the SAME basis / rank as the tensors of `case`
    kraus = [other["kraus"][k] if k == j else case["kraus"][k] for k in range(case["n"])]
    rhoE = other["rhoE"] if j == 0 else case["rhoE"]
    new_mpos = ancilla_mpos([joint_superop(ks, case["e"], case["d"]) for ks in kraus], rhoE,
                            case["e"], case["d"])
    tin, tout = case["spec"]["tin"], case["spec"]["tout"]
    if variant.startswith("rank3") or tin is not None:
        eye = np.eye(case["d"] ** 2)
        new_mpos = store_in_basis(new_mpos, eye if tin is None else tin, eye if tout is None else tout,
                                  variant.startswith("rank3"))
    pt = build_pt(case["spec"], case["d"], case["n"], cls)
    try:
        first = run_real(system, case["rho0"], [pt], case["n"], case["control"])
        pt.set_mpo_tensor(j, np.array(new_mpos[j], dtype=complex))
        pt.compute_caps()
        second = run_real(system, case["rho0"], [pt], case["n"], case["control"])
    finally:
        drop_pt(pt)
    ref = dense_joint(kraus, rhoE, case["rho0"], case["ham"], case["ctrl_ops"], case["n"],
                      case["e"], case["d"])
    err0 = max(np.abs(a - b).max() for a, b in zip(
        first, dense_joint(case["kraus"], case["rhoE"], case["rho0"], case["ham"], case["ctrl_ops"],
                           case["n"], case["e"], case["d"])))
    err = max(np.abs(a - b).max() for a, b in zip(second, ref))
    if err0 <= ANCILLA_TOL and not err <= ANCILLA_TOL:
        steps = [int(k) for k in range(len(ref)) if np.abs(second[k] - ref[k]).max() > ANCILLA_TOL]
        res.fail(key or KEY_HISTORY % cls.capitalize(),
                 {"oracle": "history", "gen_seed": gen_seed, "variant": variant, "class": cls,
                  "overwritten_step": j, "case": case["desc"], "max_state_difference": float(err),
                  "steps_that_differ": steps,
                  "how": "%sProcessTensor (%s): compute_dynamics, then set_mpo_tensor(%d, <tensor of "
                         "another joint map>) + compute_caps(), then compute_dynamics again: the second "
                         "result differs from the joint evolution with the new map at step(s) %s"
                         % (cls.capitalize(), variant, j, steps)})
        return True
    return False


def tiny_pt(coupling, alpha, wc=3.0, temp=0.0, n=4, epsrel=1e-9, dkmax=None):
    import oqupy
    corr = oqupy.PowerLawSD(alpha=alpha, zeta=1.0, cutoff=wc, cutoff_type="exponential",
                            temperature=temp)
    par = oqupy.TempoParameters(dt=DT, epsrel=epsrel, dkmax=dkmax)
    return oqupy.pt_tempo_compute(bath=oqupy.Bath(coupling, corr), start_time=0.0,
                                  end_time=(n + 0.5) * DT, parameters=par, progress_type="silent")


def oracle_order(res, rng, nenv):
    """permutations of COMMUTING environments (diagonal couplings) give the same states"""
    import oqupy
    from oqupy import operators as op
    from . import cases
    n = 3
    pts = [tiny_pt(rng.choice([0.5, 0.3, 0.8]) * op.sigma("z"), rng.choice([0.1, 0.3, 0.6]),
                   wc=rng.uniform(2, 5), temp=rng.choice([0.0, 1.0]), n=n) for _ in range(nenv)]
    system = oqupy.System(cases.rand_herm(rng, 2, 0.8))
    rho0 = cases.rand_dm(rng, 2)
    ref = run_real(system, rho0, pts, n)
    worst = 0.0
    for perm in itertools.permutations(range(nenv)):
        got = run_real(system, rho0, [pts[j] for j in perm], n)
        err = max(np.abs(a - b).max() for a, b in zip(ref, got))
        worst = max(worst, err)
        if not err <= 1e-6:
            res.fail("order:%d diagonal-coupling PT-TEMPO tensors" % nenv,
                     {"oracle": "order", "permutation": list(perm), "max_state_difference": float(err)})
            return True
    return False


def oracle_sum_of_baths(res, rng):
    import oqupy
    from oqupy import operators as op
    from . import cases
    n = 3
    a1, a2 = rng.choice([0.1, 0.2, 0.4]), rng.choice([0.15, 0.3])
    wc, temp = rng.uniform(2, 5), rng.choice([0.0, 0.7])
    kind = rng.choice(["diag", "nondiag"])
    coup = 0.5 * op.sigma("z") if kind == "diag" else 0.5 * (0.6 * op.sigma("z") + 0.8 * op.sigma("x"))
    p1, p2, p12 = tiny_pt(coup, a1, wc, temp, n), tiny_pt(coup, a2, wc, temp, n), tiny_pt(coup, a1 + a2, wc, temp, n)
    system = oqupy.System(cases.rand_herm(rng, 2, 0.8))
    rho0 = cases.rand_dm(rng, 2)
    two = run_real(system, rho0, [p1, p2], n)
    one = run_real(system, rho0, [p12], n)
    err = max(np.abs(a - b).max() for a, b in zip(two, one))
    if not err <= 1e-6:
        res.fail("sum-of-baths:%s coupling" % kind,
                 {"oracle": "sum-of-baths", "alpha": [a1, a2], "cutoff": wc, "temperature": temp,
                  "coupling": kind, "max_state_difference": float(err)})
        return True
    return False


def search(res):
    rng = random.Random(res.seed + 303)
    # ancilla process tensors of every storage form, both classes, vs the dense joint evolution
    for variant in ("rank4", "rank3", "rank3-unitary-basis", "rank4-basis", "rank3-pauli"):
        for cls in ("simple", "file"):
            found = False
            for t in range(5):
                found = oracle_ancilla(res, rng.randrange(10 ** 9), variant, cls, wide=(t == 4)) or found
                if found:
                    break
    # float-time controls (pre and post) with start_time != 0
    for variant in ("rank4", "rank3"):
        found = False
        for t in range(6):
            found = oracle_ancilla(res, rng.randrange(10 ** 9), variant, "simple", timed=True) or found
            if found:
                break
    # initial states in non-C memory layouts, three entry points
    oracle_layout(res, rng.randrange(10 ** 9))
    # process tensors with exactly one transform
    for variant in ("rank4-in-only", "rank4-out-only"):
        for cls in ("simple", "file"):
            for t in range(2):
                if oracle_ancilla(res, rng.randrange(10 ** 9), variant, cls):
                    break
    # several float-time controls rounding to one step, inserted latest-first (non-commuting maps);
    # record_all=False with post-measurement controls (final state only)
    for kw in (dict(stacked=True, timed=True), dict(stacked=True), dict(final_only=True),
               dict(final_only=True, timed=True)):
        for t in range(4):
            if oracle_ancilla(res, rng.randrange(10 ** 9), rng.choice(["rank4", "rank3"]), "simple", **kw):
                break
    # a TrivialProcessTensor at every position of the list
    for t in range(2):
        if oracle_trivial(res, rng.randrange(10 ** 9)):
            break
    # final-only runs with a self-non-commuting time-dependent system, no controls
    for variant in ("rank4", "rank3"):
        for t in range(2):
            if oracle_tdep_final(res, rng.randrange(10 ** 9), variant):
                break
    # compute_caps() again after overwriting existing steps (gauge change: same process, other caps)
    for cls in ("simple", "file"):
        for t in range(2):
            if oracle_caps_gauge(res, rng.randrange(10 ** 9), cls):
                break
    # mutable-object history: overwrite a step after it was read
    for variant in ("rank3", "rank4-basis", "rank3-pauli", "rank4"):
        for cls in ("simple", "file"):
            for t in range(2):
                if oracle_history(res, rng.randrange(10 ** 9), variant, cls):
                    break
    for nenv in (2, 3):
        oracle_order(res, rng, nenv)
    for _ in range(2):
        oracle_sum_of_baths(res, rng)


KEY_SCRATCH = "buffer:%sProcessTensor built from one refilled scratch array"


def oracle_scratch(res, gen_seed, cls, key=None):
    """the tensors HANDED OVER define the process tensor: a caller that refills one complex128
    scratch array per step (a different map at every step) must get the same dynamics as with a
    fresh array per step (which the correspondence ties to the model)"""
    import oqupy
    from oqupy.process_tensor import FileProcessTensor
    from . import cases
    rng = random.Random(gen_seed)
    d, n = 2, 4
    L = d * d
    dims = [1, 2, 2, 2, 1]
    found = False
    for rank in (4, 3):
        shp = lambda k: (dims[k], dims[k + 1], L) + ((L,) if rank == 4 else ())
        mpos = [dyadic(rng, shp(k), den=2, span=2) for k in range(n)]
        caps = [dyadic(rng, (dims[k],), den=2, span=2) for k in range(n + 1)]
        spec = {"kind": "rank%d" % rank, "mpos": mpos, "tin": None, "tout": None}
        fresh = build_pt(spec, d, n, cls)

        def mk():
            if cls == "simple":
                return oqupy.SimpleProcessTensor(hilbert_space_dimension=d, dt=DT)
            pt_ = FileProcessTensor(mode="write", hilbert_space_dimension=d, dt=DT)
            pt_.set_initial_tensor(None)
            return pt_
        reused = mk()
        bufs = {}
        for k, m in enumerate(mpos):
            buf = bufs.setdefault(m.shape, np.empty(m.shape, dtype=complex))
            buf[...] = m
            reused.set_mpo_tensor(k, buf)
        for b in bufs.values():
            b[...] = 0.0                              # the caller goes on to use its array
        reused.compute_caps()
        # the same with explicit caps from one scratch vector
        capped, capref = mk(), mk()
        cbufs = {}
        for k, m in enumerate(mpos):
            capped.set_mpo_tensor(k, np.array(m, dtype=complex))
            capref.set_mpo_tensor(k, np.array(m, dtype=complex))
        for k, c in enumerate(caps):
            cb = cbufs.setdefault(c.shape, np.empty(c.shape, dtype=complex))
            cb[...] = c
            capped.set_cap_tensor(k, cb)
            capref.set_cap_tensor(k, np.array(c, dtype=complex))
        for b in cbufs.values():
            b[...] = 0.0
        system = oqupy.System(np.array([[0.3, 0.2 - 0.1j], [0.2 + 0.1j, -0.3]]))
        rho0 = cases.rand_dm(rng, d)
        try:
            for what, a, b in (("mpo", reused, fresh), ("cap", capped, capref)):
                k_ = KEY_SCRATCH % cls.capitalize() + ":" + what
                if key and key != k_:
                    continue
                for rec in (True, False):
                    x = run_real(system, rho0, [a], n, None, 0.0, rec)
                    y = run_real(system, rho0, [b], n, None, 0.0, rec)
                    err = max(np.abs(u - v).max() for u, v in zip(x, y))
                    if not err <= 1e-12 * max(1.0, max(np.abs(v).max() for v in y)):
                        found = True
                        res.fail(key or k_,
                                 {"oracle": "scratch", "gen_seed": gen_seed, "class": cls, "rank": rank,
                                  "record_all": rec, "max_state_difference": float(err),
                                  "how": "%sProcessTensor: set_%s_tensor(k, buf) for k = 0..%d with ONE "
                                         "complex128 array `buf` refilled before every call (and zeroed "
                                         "afterwards) vs the same tensors handed over as fresh arrays: "
                                         "compute_dynamics states differ"
                                         % (cls.capitalize(), what, n - 1)})
                        break
        finally:
            for pt_ in (fresh, reused, capped, capref):
                drop_pt(pt_)
    return found


def replay_case(res, payload):
    fi = payload.get("failing_input", payload)
    key = payload.get("key")
    if fi.get("oracle") == "ancilla":
        return oracle_ancilla(res, fi["gen_seed"], fi["variant"], fi["class"], key,
                              wide=fi.get("wide", False), timed=fi.get("timed", False),
                              stacked=fi.get("stacked", False), final_only=fi.get("final_only", False))
    if fi.get("oracle") == "history":
        return oracle_history(res, fi["gen_seed"], fi["variant"], fi["class"], key)
    if fi.get("oracle") == "trivial":
        return oracle_trivial(res, fi["gen_seed"], key)
    if fi.get("oracle") == "scratch":
        return oracle_scratch(res, fi["gen_seed"], fi["class"], key)
    if fi.get("oracle") == "tdep-final":
        return oracle_tdep_final(res, fi["gen_seed"], fi["variant"], fi["class"], key)
    if fi.get("oracle") == "caps-gauge":
        return oracle_caps_gauge(res, fi["gen_seed"], fi["class"], key)
    if fi.get("oracle") == "layout":
        return oracle_layout(res, fi["gen_seed"], key, only=(fi["entry_point"], fi["layout"]))
    return False


def run(tier, seed, replay):
    res = fw.Result(PID, tier, seed, level="proof")
    rng = random.Random(seed)
    res.rule = (
        "d=2; N<=3 steps; lists of 0-3 hand-built process tensors (random dyadic rank-3 / rank-4 / "
        "mixed tensors, bond dims 1-3, transform_in/out absent / square / non-square / one-sided, "
        "TrivialProcessTensor), random Hamiltonian, random non-trace-preserving pre/post controls: "
        "real compute_dynamics vs the Lean list model (multiStep/applyCaps) AND the folded model "
        "(combineAll + mpoStep), relative 1e-9; real get_mpo_tensor (Simple, File) vs mpoTensorOf "
        "and real compute_caps (Simple, File) vs capStepOf, both through the regenerated wiring; "
        "ancilla process tensors (e in {1,2}, unitaries / channels / dephasing couplings) real "
        "compute_dynamics vs mpoRecord(ptOfJoint) vs jointRecord vs numpy density-matrix evolution; "
        "CommuteOn evaluated exactly on shipped rank-3 tensors + the predicted order independence "
        "of the real code.  Controls are keyed by step (int) or by time (float, pre and post) and the "
        "computations start at 0, 1.5, -0.8, 0.37, -1.23 (the model gets the controls of step k from "
        "Control.get_controls(k, dt, start_time)); some ancilla cases stack 2-3 float-time controls "
        "at distinct times rounding to one step, inserted latest-first (reference: time order), and "
        "some runs use record_all=False (final state compared).  Object histories: set -> contract -> overwrite a "
        "step (set_mpo_tensor + compute_caps) -> contract again vs a fresh object with the same stored "
        "tensors (1e-12), and random set_*/get_* call traces (Simple, File; mpo, cap) vs objTrace "
        "with the regenerated memoisation wiring, exactly (which stored version each call answers "
        "with); the same for histories of tensor writes on existing steps and compute_caps() calls "
        "(which version of the tensor list the caps belong to).  Non-trivial = at least one environment; distinct = distinct case.")
    res.assumptions = [
        "tensornetwork contracts exactly the edges that were joined with `^` (edge identity, not axis "
        "position) and `@` contracts all shared edges",
        "np.dot / np.moveaxis / ndarray.T semantics as documented; h5py returns what was stored",
        "exact arithmetic in the theorems; the float code agrees up to round-off (observed < 1e-12)",
        "object model: the only state of a process-tensor object that get_mpo_tensor / get_cap_tensor "
        "read is what set_* stored, the transforms fixed at construction, and the attributes the "
        "getters themselves write (found by the translator: assignments, deletions, container "
        "mutators, HDF5 writes on self.*)",
        "float-time controls are placed at start_time + k*dt, i.e. unambiguously on step k (the "
        "rounding of other times is C18's subject)",
    ]
    res.not_shown = [
        "exact list-order independence for NON-commuting environments is not claimed (the orders "
        "differ by the Trotter error; DESIGN.md §4 C03) and not checked",
        "that the MPO produced by PT-TEMPO has the influence functional as dense form (hypotheses "
        "h1/h2 of sum_of_baths) is C02's sampled correspondence, not a theorem",
        "the caps that compute_caps produces for a finite ancilla process tensor (last bond closed) "
        "are compared with capStepOf numerically; caps_fixed_point_joint is stated for the open one",
        "input parsing of compute_dynamics (dimension / dt agreement, shortest process tensor) is "
        "exercised but has no theorem",
        "process tensors with a (correlated) initial tensor: compute_dynamics raises NotImplementedError",
    ]
    files = [replay] if replay else sorted(glob.glob(os.path.join(fw.CORPUS, PID, "*.json")))
    for f in files:
        try:
            payload = json.load(open(f))
        except (OSError, ValueError):
            continue
        again = replay_case(res, payload)
        res.count("corpus:%s" % ("fails" if again else "passes"))
        if again:
            fw.log("stored failing input still fails: %s" % f)
    if replay:
        rc = 0
        for key, payload in res.failing:
            path = fw.write_replay(PID, {"property": PID, "key": key, "failing_input": payload,
                                         "seed": seed})
            fw.log("VIOLATION property=%s replay=%s" % (PID, path))
            rc = 1
        if rc == 0:
            fw.log("OK property=%s replay=%s no longer fails" % (PID, replay))
        return rc
    # ControlCompose: Props/C03 imports its generated file (loop order, superoperator wiring); it
    # also pins the text of the `controls(step)` closure (dt and start_time passed on)
    fw.standard_pipeline(res, ["MpoWiring", "ControlCompose"], THEOREMS)
    translated = not any((not o[1]) and "fragment MpoWiring" in o[2]
                         for o in res.obligations if o[0].startswith("translator"))
    try:
        if translated:
            correspondence(res, tier, rng)
        else:
            res.notes.append("correspondence skipped: generated wiring unavailable")
    except fw.Infra as e:
        res.oblige("correspondence run", False, str(e))
    # always run (the stored-tensor correspondence hands over fresh arrays only): tensors handed
    # over in one refilled scratch array, both classes
    for cls in ("simple", "file"):
        oracle_scratch(res, rng.randrange(10 ** 9), cls)
        res.count("scratch-buffer build:%s" % cls)

    def search_all(r):
        # the ControlCompose tie belongs to C03's obligations: when it breaks, C18's oracles on the
        # real Control / compute_dynamics look for the concrete failing input
        search(r)
        from . import run_C18
        sub = fw.Result(PID, r.tier, r.seed)
        run_C18.search(sub)
        for key, payload in sub.failing:
            if key != run_C18.KEY_MIXED:        # C18's known finding is not a C03 matter
                r.fail("control:" + key, payload)
    return fw.finish(res, search_all)
