"""C10 — PT-TEBD chain dynamics are exact where checkable, in every execution mode.
See DESIGN.md §4 C10 and §5 defect #7.

Ties of the Lean model (Model/Tebd.lean) to the source:
  * translator fragment TebdLayers (site factors, Trotter layer sequences, read / write sets of a
    gate, executor selection, import statements) and ControlCompose (statement order of a step);
  * correspondence (this file):
      - layer tables / exponentiation times of the real `compute_tebd_propagator` (exact),
      - `get_nn_full_liouvillians` against the generated summands (1e-12),
      - copied / replaced tensors of every gate application of the real back-end, and the
        *provenance* of every tensor after a layer (which gate outputs it was computed from),
        in the sequential mode, in the map mode and with an executor that hands the results back
        in every permutation — on Trotter layers and on artificial overlapping layers — against
        the symbolic run of the schedule model (exact strings),
      - dense evolution of small chains (real gate tensors, real process-tensor MPOs and caps,
        real controls shipped as exact rationals) against the real PtTebd results (1e-8),
      - the three execution modes of the real back-end, each in a FRESH interpreter,
      - the spec-level relations of the property text on the real code (uncoupled chain =
        per-site compute_dynamics, two-site / commuting chains = dense expm, partial traces,
        norm).
search(): the same relations, judged by the property text only.
"""
import glob
import itertools
import json
import os
import random
import subprocess
import sys
from types import SimpleNamespace as NS

import numpy as np

from . import framework as fw
from .framework import rat, crat, parse_crat

PID = "C10"
P = "OQuPyVerif.Props.C10."
THEOREMS = [P + t for t in (
    "site_weight_one", "bond_weight_one", "full_step_weight",
    "layers_are_trotter", "layer_gates_disjoint", "layer_order_indep", "mode_indep",
    "exec_modes", "executors_importable",
    "kron_gate_is_local", "uncoupled_half_step", "uncoupled_is_product",
    "uncoupled_site_is_compute_dynamics", "site_sequence_eq", "uncoupled_reduced_state",
    "two_site_exact", "commuting_gates_exact", "uncoupled_gates_commute",
    "norm_step", "norm_one", "partial_trace_consistent", "gate_on_own_bond",
    "site_gate_applies_matrix",
    "site_dissipator_trace_annihilating", "nn_dissipator_trace_annihilating",
    "hamiltonian_terms_trace_annihilating", "dissipators_hermiticity_preserving",
    "hamiltonian_terms_hermiticity_preserving", "kronecker_is_pairing",
    # Props/C10Gksl.lean: the generated site terms are of GKSL form; first-order complete positivity
    "site_dissipation_is_gksl", "site_hamiltonian_is_commutator", "site_liouvillian_first_order_kraus",
)]

KEY_MODE = "execution mode %s unusable in a fresh interpreter (%s)"
MODES = [None, "multithread", "multiprocess"]


# ---------------------------------------------------------------------------
# case specifications (plain JSON) and builders
# ---------------------------------------------------------------------------

def enc(a):
    a = np.asarray(a, dtype=complex)
    return {"shape": list(a.shape), "re": a.real.reshape(-1).tolist(), "im": a.imag.reshape(-1).tolist()}


def dec(o):
    return (np.array(o["re"]) + 1j * np.array(o["im"])).reshape(o["shape"])


def _herm(rng, d, scale):
    a = np.array([[rng.gauss(0, 1) + 1j * rng.gauss(0, 1) for _ in range(d)] for _ in range(d)])
    return scale * (a + a.conj().T) / 2


def _dm(rng, d):
    kind = rng.choice(["pure", "mixed"])
    r = 1 if kind == "pure" else d
    a = np.array([[rng.gauss(0, 1) + 1j * rng.gauss(0, 1) for _ in range(r)] for _ in range(d)])
    rho = a @ a.conj().T
    return rho / np.trace(rho)


def _diag(rng, d, scale):
    return np.diag([scale * rng.uniform(-1, 1) for _ in range(d)]).astype(complex)


def _nonnormal(rng, d):
    """a random operator that does not commute with its adjoint"""
    while True:
        a = np.array([[rng.gauss(0, 1) + 1j * rng.gauss(0, 1) for _ in range(d)] for _ in range(d)])
        a = a / np.linalg.norm(a, 2)
        if rng.random() < 0.3:        # ladder-like: strictly upper / lower triangular
            a = np.triu(a, 1) if rng.random() < 0.5 else np.tril(a, -1)
            a = a / max(np.linalg.norm(a, 2), 1e-3)
        if np.abs(a @ a.conj().T - a.conj().T @ a).max() > 0.2:
            return a


def gen_spec(rng, n, kind, order, dims=None, pts=None, steps=2, dt=None, epsrel=1e-8,
             sites=None, dissipation=None, nn_dissipation=None, homogeneous=False,
             site_terms=True):
    """kind: 'coupled' | 'uncoupled' | 'commuting' (diagonal site and coupling operators)"""
    dims = dims or [2] * n
    dt = dt if dt is not None else rng.choice([0.1, 0.05, 0.2])
    dissipation = rng.random() < 0.5 if dissipation is None else dissipation
    nn_dissipation = (kind != "uncoupled") if nn_dissipation is None else nn_dissipation
    site_h, site_diss, nn_h, nn_diss = [], [], [], []
    for j in range(n):
        d = dims[j]
        site_h.append(enc(_diag(rng, d, 1.0) if kind == "commuting" else _herm(rng, d, 0.8)))
        dl = []
        if dissipation:
            if kind == "commuting":
                dl.append([rng.uniform(0.05, 0.3), enc(_diag(rng, d, 1.0))])
            else:
                dl.append([rng.uniform(0.05, 0.3), enc(_nonnormal(rng, d))])
        site_diss.append(dl)
    for i in range(n - 1):
        terms = []
        if kind != "uncoupled":
            for _ in range(1 if kind == "commuting" else rng.choice([1, 2])):
                if kind == "commuting":
                    terms.append([enc(_diag(rng, dims[i], 0.9)), enc(_diag(rng, dims[i + 1], 1.0))])
                else:
                    terms.append([enc(_herm(rng, dims[i], 0.7)), enc(_herm(rng, dims[i + 1], 1.0))])
        nn_h.append(terms)
        dterms = []
        if nn_dissipation and kind != "uncoupled":
            if kind == "commuting":
                dterms.append([rng.uniform(0.1, 0.4), enc(_diag(rng, dims[i], 1.0)),
                               enc(_diag(rng, dims[i + 1], 1.0))])
            else:
                dterms.append([rng.uniform(0.2, 0.8), enc(_nonnormal(rng, dims[i])),
                               enc(_nonnormal(rng, dims[i + 1]))])
        nn_diss.append(dterms)
    if homogeneous:
        # translation invariant: the same site terms on every site, the same coupling on every
        # bond (bulk bonds then have bit-identical full Liouvillians)
        site_h = [site_h[0]] * n
        site_diss = [site_diss[0]] * n
        nn_h = [nn_h[0]] * (n - 1)
        nn_diss = [nn_diss[0]] * (n - 1)
    if not site_terms:
        site_h = [enc(np.zeros((d, d))) for d in dims]
        site_diss = [[] for _ in dims]
    if sites is None:
        sites = list(range(n)) + [[0, 1]]
        if n >= 3:
            sites += [[0, n - 1], list(range(n))] if n <= 4 else [[1, n - 1]]
    return {"dims": dims, "site_h": site_h, "site_diss": site_diss, "nn_h": nn_h, "nn_diss": nn_diss,
            "rho0": [enc(_dm(rng, d)) for d in dims], "pts": pts or [None] * n, "order": order,
            "dt": dt, "epsrel": epsrel, "steps": steps, "sites": sites, "controls": [],
            "kind": kind, "homogeneous": bool(homogeneous), "site_terms": bool(site_terms)}


_PT_CACHE = {}


def make_pt(ptspec, dt, steps):
    """None | {'kind': 'identity'} | {'kind': 'tempo', 'alpha': a, 'axis': 'z'|'x'}"""
    import oqupy
    from oqupy import operators as op
    from . import oq
    if ptspec is None:
        return None
    if ptspec["kind"] == "identity":
        return oq.identity_pt(steps, 2, dt)
    key = (ptspec["alpha"], ptspec["axis"], dt, steps)
    if key not in _PT_CACHE:
        corr = oqupy.PowerLawSD(alpha=ptspec["alpha"], zeta=1, cutoff=3.0, cutoff_type="exponential",
                                temperature=0.3)
        bath = oqupy.Bath(0.5 * op.sigma(ptspec["axis"]), corr)
        par = oqupy.TempoParameters(dt=dt, epsrel=1e-7, dkmax=3)
        _PT_CACHE[key] = oqupy.pt_tempo_compute(bath=bath, start_time=0.0,
                                                end_time=(max(steps, 2) + 0.5) * dt, parameters=par,
                                                progress_type="silent")
    return _PT_CACHE[key]


def build(spec):
    """the real objects of a case"""
    import oqupy
    n = len(spec["dims"])
    sc = oqupy.SystemChain(spec["dims"])
    for j in range(n):
        sc.add_site_hamiltonian(j, dec(spec["site_h"][j]))
        for g, a in spec["site_diss"][j]:
            sc.add_site_dissipation(j, dec(a), g)
    for i in range(n - 1):
        for a, b in spec["nn_h"][i]:
            sc.add_nn_hamiltonian(i, dec(a), dec(b))
        for g, a, b in (spec.get("nn_diss") or [[]] * (n - 1))[i]:
            sc.add_nn_dissipation(i, dec(a), dec(b), g)
    mps = oqupy.AugmentedMPS([dec(r) for r in spec["rho0"]])
    pts = [make_pt(p, spec["dt"], spec["steps"]) for p in spec["pts"]]
    par = oqupy.PtTebdParameters(dt=spec["dt"], order=spec["order"], epsrel=spec["epsrel"])
    ctl = None
    if spec.get("controls"):
        ctl = oqupy.ChainControl(spec["dims"])
        for site, step, post, mat in spec["controls"]:
            ctl.add_single_site_control(dec(mat), site, step, post=post)
    sites = [s if isinstance(s, int) else tuple(s) for s in spec["sites"]]
    return NS(n=n, sc=sc, mps=mps, pts=pts, par=par, ctl=ctl, sites=sites)


def run_real(spec, parallel=None):
    """PtTebd on the real code; returns plain data"""
    import oqupy
    b = build(spec)
    cfg = {} if parallel is None else {"parallel": parallel}
    obj = oqupy.PtTebd(initial_augmented_mps=b.mps, system_chain=b.sc, process_tensors=b.pts,
                       parameters=b.par, chain_control=b.ctl, dynamics_sites=b.sites,
                       backend_config=cfg)
    if spec.get("inspect"):
        # step by step, looking at the current state in between (must not change the results)
        for k in range(1, spec["steps"] + 1):
            r = obj.compute(k, progress_type="silent")
            obj.get_current_density_matrix(b.sites[0])
    else:
        r = obj.compute(spec["steps"], progress_type="silent")
    dyn = {}
    for s in b.sites:
        key = str(s) if isinstance(s, int) else ",".join(str(x) for x in s)
        dyn[key] = [np.asarray(x) for x in r["dynamics"][s].states]
    return {"norm": np.asarray(r["norm"]), "time": np.asarray(r["time"]), "dyn": dyn, "obj": obj}


def worker_main():
    """fresh-interpreter entry: spec + mode on stdin, result JSON on stdout"""
    job = json.load(sys.stdin)
    preloaded = "concurrent.futures" in sys.modules
    out = {"futures_preloaded_before_oqupy": preloaded}
    try:
        import oqupy  # noqa: F401
        out["futures_loaded_by_import_oqupy"] = "concurrent.futures" in sys.modules
        r = run_real(job["spec"], job["mode"])
        out.update(ok=True, norm=enc(r["norm"]), time=enc(r["time"]),
                   dyn={k: [enc(x) for x in v] for k, v in r["dyn"].items()})
    except BaseException as e:          # noqa: BLE001
        out.update(ok=False, exc=type(e).__name__, msg=str(e)[:300])
    sys.stdout.write("\n@@RESULT@@" + json.dumps(out) + "\n")


def start_fresh(jobs):
    """jobs: list of (spec, mode); each in its own interpreter, all started at once"""
    env = dict(os.environ, OQUPY_REPO=fw.REPO, PYTHONDONTWRITEBYTECODE="1")
    env["PYTHONPATH"] = fw.REPO + os.pathsep + fw.VERIF
    procs = []
    for spec, mode in jobs:
        p = subprocess.Popen([sys.executable, "-c",
                              "from harness.run_C10 import worker_main; worker_main()"],
                             cwd=fw.VERIF, env=env, stdin=subprocess.PIPE, stdout=subprocess.PIPE,
                             stderr=subprocess.PIPE, text=True)
        p.stdin.write(json.dumps({"spec": spec, "mode": mode}))
        p.stdin.close()
        p.stdin = None
        procs.append(p)
    return procs


def collect_fresh(procs, timeout=900):
    outs = []
    for p in procs:
        try:
            so, se = p.communicate(timeout=timeout)
        except subprocess.TimeoutExpired:
            p.kill()
            outs.append({"ok": False, "exc": "Timeout", "msg": ""})
            continue
        if "@@RESULT@@" not in so:
            outs.append({"ok": False, "exc": "NoResult", "msg": (so + se)[-300:]})
            continue
        o = json.loads(so.split("@@RESULT@@")[-1])
        if o.get("ok"):
            o["norm"], o["time"] = dec(o["norm"]), dec(o["time"])
            o["dyn"] = {k: [dec(x) for x in v] for k, v in o["dyn"].items()}
        outs.append(o)
    return outs


def fresh_runs(jobs, timeout=900):
    return collect_fresh(start_fresh(jobs), timeout)


def maxdiff(a, b):
    if set(a["dyn"]) != set(b["dyn"]):
        return float("inf")
    m = float(np.abs(np.asarray(a["norm"]) - np.asarray(b["norm"])).max())
    for k in a["dyn"]:
        if len(a["dyn"][k]) != len(b["dyn"][k]):
            return float("inf")
        for x, y in zip(a["dyn"][k], b["dyn"][k]):
            m = max(m, float(np.abs(x - y).max()))
    return m


# ---------------------------------------------------------------------------
# reference computations (spec level)
# ---------------------------------------------------------------------------

def _embed(mats):
    out = mats[0]
    for m in mats[1:]:
        out = np.kron(out, m)
    return out


def dense_states(b, spec):
    """vec(rho) of the whole chain at steps 0..steps by expm of the FULL Liouvillian
    (no process tensors, no controls); index = (p_0, .., p_{n-1}), p_j row-major pair index"""
    from scipy.linalg import expm
    n = b.n
    Ls = [d * d for d in spec["dims"]]
    tot = np.zeros((int(np.prod(Ls)),) * 2, dtype=complex)
    for j in range(n):
        mats = [np.eye(L) for L in Ls]
        mats[j] = b.sc.site_liouvillians[j]
        tot += _embed(mats)
    for i in range(n - 1):
        mats = [np.eye(L) for L in Ls[:i]] + [b.sc.nn_liouvillians[i]] + [np.eye(L) for L in Ls[i + 2:]]
        tot += _embed(mats)
    v = _embed([dec(r).reshape(-1) for r in spec["rho0"]])
    u = expm(tot * spec["dt"])

    def controls(v, step, post):
        # a control superoperator C on site j acts as C @ vec(rho_j), in insertion order
        for site, st, po, mat in spec.get("controls") or []:
            if st == step and bool(po) == post:
                mats = [np.eye(L) for L in Ls]
                mats[site] = dec(mat)
                v = _embed(mats) @ v
        return v
    v = controls(v, 0, False)
    out = [v]
    for k in range(spec["steps"]):
        v = controls(v, k, True)
        v = u @ v
        v = controls(v, k + 1, False)
        out.append(v)
    return out


def reduce_dense(vec, dims, keep):
    """reduced density matrix of the sites `keep` (ascending) from the dense vec, in the layout of
    get_density_matrix: rows = (l_s)_s, columns = (r_s)_s"""
    n = len(dims)
    t = vec.reshape([x for d in dims for x in (d, d)])
    # trace the sites not kept
    letters = "abcdefghijklmnopqrstuvwxyz"
    idx_in, rows, cols = "", "", ""
    for j in range(n):
        l, r = letters[2 * j], letters[2 * j + 1]
        if j in keep:
            idx_in += l + r
            rows += l
            cols += r
        else:
            idx_in += l + l
    red = np.einsum(idx_in + "->" + rows + cols, t)
    dk = int(np.prod([dims[j] for j in keep]))
    return red.reshape(dk, dk)


def site_dynamics(spec, j):
    """the single-site computation of site j with its own process tensor"""
    import oqupy
    h = dec(spec["site_h"][j])
    gam = [g for g, _ in spec["site_diss"][j]]
    lops = [dec(a) for _, a in spec["site_diss"][j]]
    system = oqupy.System(h, gammas=gam, lindblad_operators=lops)
    pt = make_pt(spec["pts"][j], spec["dt"], spec["steps"])
    ctl = None
    mine = [c for c in spec.get("controls") or [] if c[0] == j]
    if mine:
        ctl = oqupy.Control(spec["dims"][j])
        for _, step, post, mat in mine:
            ctl.add_single(int(step), dec(mat), post=post)
    import contextlib
    import io
    with contextlib.redirect_stdout(io.StringIO()):     # Control.get_controls prints
        dyn = oqupy.compute_dynamics(system=system, initial_state=dec(spec["rho0"][j]),
                                     dt=spec["dt"], num_steps=spec["steps"], process_tensor=pt,
                                     control=ctl, progress_type="silent")
    return [np.asarray(s) for s in dyn.states]


def control_library():
    """non-symmetric trace-preserving single-qubit superoperators (row-major vec): a rotation
    about y, a reset (operators.preparation) and amplitude damping"""
    from oqupy import operators as op
    th = 0.7
    u = np.array([[np.cos(th / 2), -np.sin(th / 2)], [np.sin(th / 2), np.cos(th / 2)]], dtype=complex)
    yrot = np.kron(u, u.conj())
    reset = op.preparation(np.array([[0.7, 0.2 - 0.1j], [0.2 + 0.1j, 0.3]]))
    pdamp = 0.35
    k0 = np.diag([1.0, np.sqrt(1 - pdamp)]).astype(complex)
    k1 = np.array([[0, np.sqrt(pdamp)], [0, 0]], dtype=complex)
    damp = np.kron(k0, k0.conj()) + np.kron(k1, k1.conj())
    ux = np.array([[1, -1j], [-1j, 1]], dtype=complex) / np.sqrt(2)      # rotation by pi/2 about x
    xrot = np.kron(ux, ux.conj())
    return {"yrot": yrot, "reset": reset, "ampdamp": damp, "xrot": xrot}


def add_controls(spec, rng):
    """ChainControl entries [site, step, post, matrix] on the qubit sites: pre and post, at the
    first, an interior and the last step, one stacked pair"""
    lib = control_library()
    names = ["ampdamp", "reset", "yrot"]
    qubits = [j for j, d in enumerate(spec["dims"]) if d == 2]
    m = spec["steps"]
    slots = [(0, False), (0, True), (max(1, m // 2), False), (max(1, m // 2), True), (m, False)]
    ctl = []
    for k, (step, post) in enumerate(slots):
        site = qubits[(k + rng.randrange(len(qubits))) % len(qubits)]
        ctl.append([site, step, post, enc(lib[names[k % 3]])])
    # stacked on the same slot: two non-commuting maps, neither of which forgets its input
    site, step, post, _ = ctl[2]
    ctl[2][3] = enc(lib["yrot"])
    ctl.append([site, step, post, enc(lib["ampdamp"])])
    ctl.append([site, step, post, enc(lib["xrot"])])
    spec["controls"] = ctl
    return spec


# ---------------------------------------------------------------------------
# oracles judged by the property text (used by the correspondence AND the search)
# ---------------------------------------------------------------------------

def oracle_uncoupled(spec, real=None):
    """-> list of (key, payload) of violations"""
    bad = []
    real = real or run_real(spec)
    for j in range(len(spec["dims"])):
        if str(j) not in real["dyn"]:
            continue
        ref = site_dynamics(spec, j)
        err = max(float(np.abs(a - b).max()) for a, b in zip(real["dyn"][str(j)], ref))
        if err > 1e-8:
            bad.append(("%suncoupled chain%s: site %d differs from its single-site computation"
                        % ("homogeneous " if spec.get("homogeneous") else "",
                           " of non-Hermitian operators" if spec.get("nonhermitian") else
                           " with ChainControl" if spec.get("controls") else "", j),
                        {"spec": spec, "site": j, "max_abs_difference": err}))
    return bad


def oracle_dense(spec, real=None, what="two-site"):
    bad = []
    real = real or run_real(spec)
    b = build(spec)
    ref = dense_states(b, spec)
    for key, states in real["dyn"].items():
        keep = [int(x) for x in key.split(",")]
        err = max(float(np.abs(st - reduce_dense(v, spec["dims"], keep)).max())
                  for st, v in zip(states, ref))
        if err > 1e-8:
            bad.append(("%s%s chain%s: sites %s differ from the propagator of the full Liouvillian"
                        % ("homogeneous " if spec.get("homogeneous") else "", what,
                           " of non-Hermitian operators" if spec.get("nonhermitian") else
                           " with ChainControl" if spec.get("controls") else
                           " inspected between steps" if spec.get("inspect") else
                           " re-initialised after changing the %s" % spec["reinit"]
                           if spec.get("reinit") else "", key), {"spec": spec, "sites": keep, "max_abs_difference": err}))
    return bad


def oracle_partial_trace(spec, real=None):
    bad = []
    real = real or run_real(spec)
    dims = spec["dims"]
    for key, states in real["dyn"].items():
        keep = [int(x) for x in key.split(",")]
        if len(keep) < 2:
            continue
        for drop in keep:
            rest = [s for s in keep if s != drop]
            rkey = ",".join(str(x) for x in rest)
            if rkey not in real["dyn"]:
                continue
            kd = [dims[s] for s in keep]
            for step, st in enumerate(states):
                t = st.reshape(kd + kd)
                p = keep.index(drop)
                red = np.trace(t, axis1=p, axis2=p + len(keep))
                dr = int(np.prod([dims[s] for s in rest]))
                err = float(np.abs(red.reshape(dr, dr) - real["dyn"][rkey][step]).max())
                if err > 1e-8:
                    bad.append(("partial trace: sites %s traced over %d differ from sites %s"
                                % (key, drop, rkey),
                                {"spec": spec, "step": step, "max_abs_difference": err}))
                    break
    return bad


def oracle_norm(spec, real=None):
    bad = []
    real = real or run_real(spec)
    tol = 1e-6 if any(p is not None and p["kind"] == "tempo" for p in spec["pts"]) else \
        max(1e-9, 50 * spec["epsrel"])
    err = float(np.abs(real["norm"] - 1.0).max())
    if err > tol and not spec.get("nonhermitian"):
        what = "norm drifts from one"
        if spec.get("controls"):
            what += " (chain with ChainControl)"
        elif any(spec.get("nn_diss") or []):
            what += " (chain with nearest-neighbour dissipators)"
        elif any(spec["site_diss"]):
            what += " (chain with site dissipators)"
        bad.append((what, {"spec": spec, "max_abs_deviation": err, "tolerance": tol,
                           "norm": [complex(x).real for x in real["norm"]]}))
    for key, states in real["dyn"].items():
        for step, st in enumerate(states):
            if abs(np.trace(st) - real["norm"][step]) > 1e-8:
                bad.append(("trace of the reduced state of sites %s differs from the norm" % key,
                            {"spec": spec, "step": step}))
                break
    return bad


# ---------------------------------------------------------------------------
# instrumented back-end: copied / replaced tensors and provenance of every tensor
# ---------------------------------------------------------------------------

class FakeExecutor:
    """stands for a concurrent.futures executor: computes in `comp` order and hands the results
    back in `ret` order (Executor.map hands them back in input order)"""

    def __init__(self, plan):
        self.plan = plan

    def __enter__(self):
        return self

    def __exit__(self, *a):
        return False

    def map(self, fn, inputs):
        inputs = list(inputs)
        comp, ret = self.plan(len(inputs))
        outs = [None] * len(inputs)
        for i in comp:
            outs[i] = fn(inputs[i])
        return [outs[i] for i in ret]


class Tracer:
    """patches the back-end module for the duration of a `with` block"""

    def __init__(self, plan=None):
        self.plan = plan
        self.keep = []          # keeps every node alive (ids stay unique)
        self.origin = {}        # id(copy) -> id(original)
        self.tag = {}           # id(node) -> provenance term
        self.intags = {}        # id(lam_l copy) -> terms of the copied tensors
        self.reads = []         # per gate application: (site_l, [cells])
        self.writes = []        # per write-back: (site_l, [cells])

    def cells(self, be):
        out = {}
        for k, g in enumerate(be._gammas):
            out[id(g)] = "g%d" % k
        for k, l in enumerate(be._lambdas):
            out[id(l)] = "l%d" % k
        return out

    def start(self, be):
        for k, g in enumerate(be._gammas):
            self.tag[id(g)] = "g%d" % k
            self.keep.append(g)
        for k, l in enumerate(be._lambdas):
            self.tag[id(l)] = "l%d" % k
            self.keep.append(l)

    def state(self, be):
        return " ".join(["g%d=%s" % (k, self.tag.get(id(g), "?")) for k, g in enumerate(be._gammas)]
                        + ["l%d=%s" % (k, self.tag.get(id(l), "?")) for k, l in enumerate(be._lambdas)])

    def __enter__(self):
        import tensornetwork as tn
        import oqupy.backends.pt_tebd_backend as mod
        self.mod, self.tn = mod, tn
        self.saved = (tn.Node.copy, mod.PtTebdBackend._apply_nn_gate_get_data, mod._apply_nn_gate,
                      mod.PtTebdBackend._apply_nn_gate_replace_gam_lam_gam, mod.concurrent)
        tr = self
        o_copy, o_get, o_apply, o_repl, _ = self.saved

        def copy(node, *a, **k):
            new = o_copy(node, *a, **k)
            tr.origin[id(new)] = id(node)
            tr.keep.append(new)
            return new

        def get_data(be, gate):
            cells = tr.cells(be)
            data = o_get(be, gate)
            nodes = [x for x in data[1:] if isinstance(x, tn.Node) and id(x) in tr.origin]
            src = [tr.origin[id(x)] for x in nodes]
            tr.reads.append((data[0], [cells.get(s, "?") for s in src]))
            tr.intags[id(data[1])] = [tr.tag.get(s, "?") for s in src]
            return data

        def apply(site_l, lam_l, *rest):
            terms = tr.intags.get(id(lam_l), ["?"])
            out = o_apply(site_l, lam_l, *rest)
            for k, node in enumerate(out[1:]):
                tr.tag[id(node)] = "(G%d.%d %s)" % (site_l, k, " ".join(terms))
                tr.keep.append(node)
            return out

        def repl(be, site_l, *new):
            before = tr.cells(be)
            o_repl(be, site_l, *new)
            after = tr.cells(be)
            inv_b = {v: k for k, v in before.items()}
            inv_a = {v: k for k, v in after.items()}
            changed = [c for c in inv_a if inv_a[c] != inv_b.get(c)]
            order = {id(x): i for i, x in enumerate(new)}
            changed.sort(key=lambda c: order.get(inv_a[c], 99))
            tr.writes.append((site_l, changed))

        tn.Node.copy = copy
        mod.PtTebdBackend._apply_nn_gate_get_data = get_data
        mod._apply_nn_gate = apply
        mod.PtTebdBackend._apply_nn_gate_replace_gam_lam_gam = repl
        if self.plan is not None:
            fake = lambda: FakeExecutor(tr.plan)          # noqa: E731
            mod.concurrent = NS(futures=NS(ThreadPoolExecutor=fake, ProcessPoolExecutor=fake))
        return self

    def __exit__(self, *a):
        tn, mod = self.tn, self.mod
        (tn.Node.copy, mod.PtTebdBackend._apply_nn_gate_get_data, mod._apply_nn_gate,
         mod.PtTebdBackend._apply_nn_gate_replace_gam_lam_gam, mod.concurrent) = self.saved
        return False


_GATES = {}


def cheap_gates(n):
    """real Trotter layers of a small spin chain of n sites (time step irrelevant here)"""
    import oqupy
    from oqupy import operators as op
    from oqupy.mps_mpo import compute_tebd_propagator
    if n not in _GATES:
        sc = oqupy.SystemChain([2] * n)
        for j in range(n):
            sc.add_site_hamiltonian(j, 0.5 * (1 + 0.1 * j) * op.sigma("z") + 0.2 * op.sigma("x"))
        for i in range(n - 1):
            sc.add_nn_hamiltonian(i, 0.6 * op.sigma("x"), op.sigma("x"))
            sc.add_nn_hamiltonian(i, 0.3 * op.sigma("y"), op.sigma("z"))
        prop = compute_tebd_propagator(sc, 0.05, 1e-9, 1)
        _GATES[n] = prop.gate_layers
    return _GATES[n]


def fresh_backend(n, parallel):
    import oqupy
    from oqupy import operators as op
    from oqupy.backends.pt_tebd_backend import PtTebdBackend
    dms = [op.spin_dm(x) for x in ("z+", "x+", "y-", "z-", "x-", "y+")]
    mps = oqupy.AugmentedMPS([dms[j % 6] for j in range(n)])
    cfg = {} if parallel is None else {"parallel": parallel}
    return PtTebdBackend(mps.gammas, mps.lambdas, 1e-9, cfg)


def traced_layers(n, layer_specs, warm=0):
    """layer_specs: list of (mode, bonds, perm|None).  Applies the layers to a fresh real back-end
    (gates of the bonds taken from the real Trotter layers) under the tracer; `warm` propagators
    are applied before (untraced) so that all bond dimensions have grown to their maximum.
    -> (state string, reads, writes, tensors)"""
    from oqupy.mps_mpo import GateLayer
    gates = {}
    for ly in cheap_gates(n):
        for g in ly.gates:
            gates[g.sites[0]] = g
    state = None
    # one back-end object per run is enough: the mode is switched through `_parallel`
    be = fresh_backend(n, "multithread")
    be._parallel = None
    for _ in range(warm):
        for ly in cheap_gates(n):
            be.apply_nn_gate_layer(ly)
    cur = {"perm": None}

    def plan(k):
        p = cur["perm"]
        if p is None:
            return list(range(k)), list(range(k))
        return list(reversed(p)), list(p)          # computed in yet another order
    with Tracer(plan) as tr:
        tr.start(be)
        for mode, bonds, perm in layer_specs:
            be._parallel = None if mode == "seq" else "multithread"
            cur["perm"] = perm if mode == "perm" else None
            be.apply_nn_gate_layer(GateLayer(parallel=True, gates=[gates[b] for b in bonds]))
        state = tr.state(be)
        reads, writes = list(tr.reads), list(tr.writes)
    return state, reads, writes, backend_observables(be, n)


def backend_observables(be, n):
    """gauge-independent content of the augmented MPS: norm and reduced density matrices (the
    gamma / lambda tensors themselves are fixed only up to the gauge freedom of the SVDs, which
    LAPACK resolves differently for equal inputs at different memory alignments)"""
    from oqupy.process_tensor import TrivialProcessTensor
    be.compute_traces(0, [TrivialProcessTensor()] * n)
    subsets = [[j] for j in range(n)] + [[0, 1], [0, n - 1]]
    if n >= 3:
        subsets += [[0, 1, n - 1], [n - 3, n - 2, n - 1]]
    if n <= 5:
        subsets.append(list(range(n)))
    out = [np.array([be.get_norm()])]
    seen = set()
    for sub in subsets:
        sub = sorted(set(sub))
        if tuple(sub) in seen:
            continue
        seen.add(tuple(sub))
        out.append(np.asarray(be.get_density_matrix(sub)))
    be.clear_traces()
    return out


def sched_line(n, layer_specs):
    parts = []
    for mode, bonds, perm in layer_specs:
        s = mode + " " + " ".join(str(b) for b in bonds)
        if mode == "perm":
            s += " ; " + " ".join(str(p) for p in perm)
        parts.append(s)
    return "sched %d | " % n + " | ".join(parts)


# ---------------------------------------------------------------------------
# dense run: ship the real tensors of a PtTebd computation to the model
# ---------------------------------------------------------------------------

def flat(a):
    return " ".join(crat(z) for z in np.asarray(a, dtype=complex).reshape(-1))


def dense_line(spec):
    """(protocol line, real results) for a small case; the real objects provide gate tensors,
    process-tensor MPOs / caps and controls"""
    import oqupy.mps_mpo as mm
    b = build(spec)
    n, m = b.n, spec["steps"]
    logged = []
    orig = mm.compute_nn_gate

    def logging_gate(liouvillian, site, hs_dim_l, hs_dim_r, dt, epsrel):
        g = orig(liouvillian=liouvillian, site=site, hs_dim_l=hs_dim_l, hs_dim_r=hs_dim_r, dt=dt,
                 epsrel=epsrel)
        logged.append((site, dt, g))
        return g
    mm.compute_nn_gate = logging_gate
    try:
        real = run_real(spec)
    finally:
        mm.compute_nn_gate = orig
    secs = ["run %d %d %s %d" % (n, spec["order"], rat(spec["dt"]), m),
            " ".join(str(d) for d in spec["dims"]),
            flat(_embed([dec(r).reshape(-1) for r in spec["rho0"]]))]
    seen = set()
    for site, dt, g in logged:
        key = (site, rat(dt))
        if key in seen:
            continue
        seen.add(key)
        tl, tr_ = g.tensors            # (out_l, in_l, chi), (chi, out_r, in_r)
        kern = np.einsum("xac,cyb->xyab", tl, tr_)
        secs.append("G %d %s %s" % (site, rat(dt), flat(kern)))
    obj = real["obj"]
    for j, pt in enumerate(obj._process_tensors):
        for k in range(m):
            t = pt.get_mpo_tensor(k)
            if t is not None:
                t = np.asarray(t)
                secs.append("P %d %d %d %d %s" % (j, k, t.shape[0], t.shape[1], flat(t)))
        for k in range(m + 1):
            c = np.asarray(pt.get_cap_tensor(k)).reshape(-1)
            secs.append("C %d %d %d %s" % (j, k, len(c), flat(c)))
    if b.ctl is not None:
        for k in range(m + 1):
            for post in (False, True):
                cs = b.ctl.get_single_site_controls(k, post)
                if cs is None:
                    continue
                for j, c in enumerate(cs):
                    if c is not None:
                        secs.append("X %s %d %d %s" % ("post" if post else "pre", j, k, flat(c)))
    for s in b.sites:
        secs.append("K " + (str(s) if isinstance(s, int) else " ".join(str(x) for x in s)))
    return " | ".join(secs), real, b


def parse_dense(answer, b, spec):
    """-> (norms, {key: [vectors per step]})"""
    norms, dyn = [], {}
    keys = [str(s) if isinstance(s, int) else ",".join(str(x) for x in s) for s in b.sites]
    recs = answer.split(" # ")
    hyp = {}
    if recs and recs[-1].startswith("hyp "):
        for kv in recs.pop().split()[1:]:
            k, v = kv.split("=")
            hyp[k] = float(fw.parse_rat(v)) ** 0.5
    parse_dense.hyp = hyp
    for rec in recs:
        parts = rec.split(" ; ")
        norms.append(parse_crat(parts[0]))
        for key, p in zip(keys, parts[1:]):
            dyn.setdefault(key, []).append(np.array([parse_crat(t) for t in p.split()]))
    return np.array(norms), dyn


def vec_to_dm(v, dims, keep):
    """model layout (p_s)_s, p = l*d + r   ->   get_density_matrix layout rows (l_s), cols (r_s)"""
    kd = [dims[s] for s in keep]
    t = v.reshape([x for d in kd for x in (d, d)])
    k = len(keep)
    t = t.transpose([2 * i for i in range(k)] + [2 * i + 1 for i in range(k)])
    dk = int(np.prod(kd))
    return t.reshape(dk, dk)


# ---------------------------------------------------------------------------
# correspondence
# ---------------------------------------------------------------------------

def mode_cases(rng, tier):
    """cases run in the three execution modes, each in a fresh interpreter"""
    tempo = {"kind": "tempo", "alpha": 0.08, "axis": "z"}
    ident = {"kind": "identity"}
    cases = [
        gen_spec(rng, 2, "coupled", 2, pts=[None, None], steps=2),
        gen_spec(rng, 2, "coupled", 1, pts=[None, None], steps=1),
        gen_spec(rng, 3, "coupled", 1, pts=[None, ident, None], steps=2),
        gen_spec(rng, 4, "coupled", 2, pts=[None, tempo, None, None], steps=1),
        gen_spec(rng, 5, "uncoupled", 1, pts=[None, None, tempo, None, None], steps=1),
    ]
    if tier != "quick":
        cases += [
            gen_spec(rng, 5, "coupled", 2, steps=3),
            gen_spec(rng, 6, "coupled", 1, steps=2, pts=[tempo, None, None, ident, None, None]),
            gen_spec(rng, 3, "coupled", 2, dims=[2, 3, 2], steps=3),
            gen_spec(rng, 2, "coupled", 1, dims=[3, 2], steps=4),
            gen_spec(rng, 4, "commuting", 1, steps=3),
            gen_spec(rng, 6, "uncoupled", 1, steps=2),
        ]
    return cases


def start_modes(specs):
    """start every spec in the three modes (fresh interpreters)"""
    return specs, start_fresh([(s, m) for s in specs for m in MODES])


def compare_modes(res, specs, fail=False, started=None):
    """collect / run every spec in the three modes (fresh interpreters); report"""
    if started is None:
        started = start_modes(specs)
    specs, procs = started
    outs = collect_fresh(procs)
    broken_modes = {}
    for ci, spec in enumerate(specs):
        by_mode = {m: outs[ci * 3 + k] for k, m in enumerate(MODES)}
        ref = by_mode[None]
        desc = "n=%d %s order=%d pts=%s" % (len(spec["dims"]), spec["kind"], spec["order"],
                                            [p["kind"] if p else None for p in spec["pts"]])
        if not ref.get("ok"):
            res.disagree("sequential run failed: " + desc, {"result": ref})
            if fail:
                res.fail("sequential mode fails: " + desc, {"spec": spec, "result": ref})
            continue
        for m in MODES[1:]:
            o = by_mode[m]
            res.case("modes:%d:%s" % (ci, m), True,
                     {"case": desc, "mode": m,
                      "outcome": "ok" if o.get("ok") else o.get("exc")})
            res.count("mode-run:%s:%s" % (m, "ok" if o.get("ok") else o.get("exc")))
            if o.get("futures_preloaded_before_oqupy"):
                res.notes.append("worker had concurrent.futures loaded before importing oqupy; "
                                 "the import check is not meaningful in this run")
            model = getattr(res, "model_exec", {}).get(m)
            if model is not None:
                real_resolves = not (o.get("exc") == "AttributeError" and "futures" in o.get("msg", ""))
                if model["resolvable"] != real_resolves:
                    res.disagree("import model: %s is %sresolvable in the model but the fresh "
                                 "interpreter says otherwise" % (model["class"],
                                                                 "" if model["resolvable"] else "not "),
                                 {"mode": m, "result": {k: o.get(k) for k in ("ok", "exc", "msg")}})
            if not o.get("ok"):
                res.disagree("execution mode %s is not usable: %s: %s (%s)"
                             % (m, o.get("exc"), o.get("msg"), desc), {"mode": m, "result": o})
                is_import = o.get("exc") == "AttributeError" and "futures" in (o.get("msg") or "")
                broken_modes.setdefault((m, o.get("exc"), None if is_import else len(spec["dims"])),
                                        (spec, o))
                continue
            d = maxdiff(ref, o)
            res.mode_diffs = max(getattr(res, "mode_diffs", 0.0), d)
            if d > 1e-11:
                res.disagree("mode %s differs from the sequential mode by %.3g (%s)" % (m, d, desc),
                             {"mode": m, "max_abs_difference": d})
                if fail:
                    res.fail("mode %s result differs from sequential: %s" % (m, desc),
                             {"spec": spec, "mode": m, "max_abs_difference": d})
    if hasattr(res, "mode_diffs"):
        res.notes.append("largest difference between the execution modes: %.3g" % res.mode_diffs)
    if fail:
        for (m, exc, nlen), (spec, o) in broken_modes.items():
            res.fail(KEY_MODE % (m, exc) if nlen is None else
                     "execution mode %s fails on a %d-site chain (%s)" % (m, nlen, exc),
                     {"backend_config": {"parallel": m}, "exception": exc, "message": o.get("msg"),
                      "how": "fresh interpreter: PtTebd(..., backend_config={'parallel': %r})"
                             ".compute(%d)" % (m, spec["steps"]),
                      "futures_loaded_by_import_oqupy": o.get("futures_loaded_by_import_oqupy"),
                      "spec": spec})
    return broken_modes


def correspondence(res, tier, rng):
    import oqupy
    import oqupy.mps_mpo as mm
    lines, checks = [], []
    # the fresh-interpreter runs of the three execution modes work in the background
    started = start_modes(mode_cases(random.Random(rng.random()), tier))

    def add(line, check):
        lines.append(line)
        checks.append(check)

    # -- (1) layer tables and exponentiation times of the real propagator --------------------
    ns = range(2, 7) if tier == "quick" else range(2, 10)
    for n in ns:
        for order in (1, 2, 3):
            dt = rng.choice([0.1, 0.05, 0.2, 0.3, round(rng.uniform(0.01, 0.5), 3)])
            sc = oqupy.SystemChain([2] * n)
            logged = {}
            orig = mm.compute_nn_gate

            def lg(liouvillian, site, hs_dim_l, hs_dim_r, dt, epsrel, _o=orig, _l=logged):
                g = _o(liouvillian=liouvillian, site=site, hs_dim_l=hs_dim_l, hs_dim_r=hs_dim_r,
                       dt=dt, epsrel=epsrel)
                _l[id(g)] = dt
                return g
            mm.compute_nn_gate = lg
            try:
                # what PtTebd.initialize does
                stub = NS(_parameters=NS(dt=dt, epsrel=1e-6, order=order), _system_chain=sc,
                          _start_step=0, _initial_augmented_mps=NS(gammas=[], lambdas=[]))
                try:
                    prop = mm.compute_tebd_propagator(system_chain=sc, time_step=dt / 2.0,
                                                      epsrel=1e-6, order=order)
                    parts = []
                    for ly in prop.gate_layers:
                        ts = {rat(logged[id(g)]) for g in ly.gates}
                        for g in ly.gates:
                            assert g.sites == [g.sites[0], g.sites[0] + 1]
                        bonds = ",".join(str(g.sites[0]) for g in ly.gates) or "-"
                        t = ts.pop() if len(ts) == 1 else ("?" if ts else None)
                        parts.append((bonds, t))
                    impl = parts
                except NotImplementedError:
                    impl = "notimplemented"
            finally:
                mm.compute_nn_gate = orig
            del stub

            def chk(ans, impl=impl, n=n, order=order, dt=dt):
                if impl == "notimplemented" or ans == "notimplemented":
                    return impl == ans, impl
                got = [tuple(p.split("@")) for p in ans.split(" ; ")]
                # a layer without gates exponentiates nothing: its time is not observable
                ok = len(got) == len(impl) and all(
                    g[0] == i[0] and (i[1] is None or g[1] == i[1]) for g, i in zip(got, impl))
                return ok, " ; ".join("%s@%s" % i for i in impl)
            add("layers %d %d %s" % (n, order, rat(dt)), chk)
            res.count("layers:order=%d" % order)
        # source-level init of PtTebd uses dt/2: checked through a real object below (dense runs)

    # -- (2) full nearest-neighbour Liouvillians ---------------------------------------------
    for _ in range(4 if tier == "quick" else 20):
        n = rng.choice([2, 3, 4])
        dims = [rng.choice([2, 2, 3]) for _ in range(n)]
        spec = gen_spec(rng, n, "coupled", 1, dims=dims, dissipation=True)
        b = build(spec)
        full = b.sc.get_nn_full_liouvillians()
        i = rng.randrange(n - 1)
        ll, lr = dims[i] ** 2, dims[i + 1] ** 2

        def chk(ans, want=full[i]):
            got = np.array([parse_crat(t) for t in ans.split()]).reshape(want.shape)
            err = float(np.abs(got - want).max())
            return err < 1e-12, "max abs difference %.3g" % err
        add("nnfull %d %d %d %d | %s | %s | %s" % (
            n, i, ll, lr, flat(b.sc.site_liouvillians[i]), flat(b.sc.site_liouvillians[i + 1]),
            flat(b.sc.nn_liouvillians[i])), chk)
        res.count("nnfull:n=%d" % n)

    # -- (3) executor selection ----------------------------------------------------------------
    from oqupy.backends.pt_tebd_backend import PtTebdBackend
    for key in ["multithread", "multiprocess", "threads", "sequential", "None"]:
        be = fresh_backend(2, key)
        with Tracer(lambda k: (list(range(k)), list(range(k)))) as tr:
            tr.start(be)
            try:
                be.apply_nn_gate_layer(cheap_gates(2)[0])
                impl = "map"
            except NotImplementedError:
                impl = "none"
        add("execkind " + key, lambda ans, impl=impl: (ans == impl, impl))
    def chk_exec(ans):
        parts = ans.split(" ; ")
        model = {}
        for p_ in parts[1:]:
            key, rest = p_.split("=")
            kind, cls, ok = rest.split(":")
            model[key] = {"kind": kind, "class": cls, "resolvable": ok == "true"}
        res.model_exec = model
        return (parts[0] == "absent=sequential" and sorted(model) == ["multiprocess", "multithread"]
                and all(v["kind"] == "map" for v in model.values())), \
            "absent=sequential ; multiprocess=map:... ; multithread=map:..."
    add("exec", chk_exec)
    del PtTebdBackend

    # -- (4) copied / replaced tensors and provenance, all execution orders --------------------
    sched = []
    ns = [2, 3, 4, 5, 6, 7] if tier == "quick" else [2, 3, 4, 5, 6, 7, 8, 9, 10]
    for n in ns:
        layers = cheap_gates(n)
        for li, ly in enumerate(layers):
            bonds = [g.sites[0] for g in ly.gates]
            if not bonds:
                continue
            k = len(bonds)
            perms = list(itertools.permutations(range(k))) if k <= 3 else \
                [tuple(rng.sample(range(k), k)) for _ in range(4 if tier == "quick" else 12)]
            sched.append((n, [("seq", bonds, None)]))
            sched.append((n, [("map", bonds, None)]))
            for p in perms:
                sched.append((n, [("perm", bonds, list(p))]))
    # whole propagators (order 2 sequence), mixed modes
    for n in ([3, 4, 5] if tier == "quick" else [3, 4, 5, 6, 7]):
        ev = [g.sites[0] for g in cheap_gates(n)[0].gates]
        od = [g.sites[0] for g in cheap_gates(n)[1].gates]
        for modes in (("seq",) * 4, ("map",) * 4, ("perm", "seq", "map", "perm")):
            specs = []
            for mode, bonds in zip(modes, (ev, od, od, ev)):
                if bonds:
                    specs.append((mode, bonds, list(reversed(range(len(bonds)))) if mode == "perm" else None))
            sched.append((n, specs))
    # artificial OVERLAPPING layers: here the modes must differ, and the model must say how
    for n, bonds in [(3, [0, 1]), (4, [0, 1, 2]), (4, [1, 0]), (5, [0, 2, 1]), (4, [2, 1])]:
        sched.append((n, [("seq", bonds, None)], 3))
        sched.append((n, [("map", bonds, None)], 3))
        sched.append((n, [("perm", bonds, list(reversed(range(len(bonds))))),
                          ("seq", bonds, None)], 3))
    ref_tensors = {}
    for item in sched:
        n, specs = item[0], item[1]
        warm = item[2] if len(item) > 2 else 0
        try:
            state, reads, writes, tensors = traced_layers(n, specs, warm)
        except ValueError as e:
            # overlapping layer written back with stale bond dimensions: the real network refuses
            res.count("sched:overlap-rejected-by-tensornetwork")
            del e
            continue
        add(sched_line(n, specs), lambda ans, state=state: (ans == state, state[:200]))
        res.count("sched:%s" % "+".join(s[0] for s in specs))
        # read / write sets of every gate application, against `rw`
        for (site, cells) in reads[:2]:
            add("rw %d" % site, lambda ans, cells=cells: (ans.split(" | ")[0] == " ".join(cells),
                                                         " ".join(cells)))
        for (site, cells) in writes[:2]:
            add("rw %d" % site, lambda ans, cells=cells: (ans.split(" | ")[1] == " ".join(cells),
                                                         " ".join(cells)))
        # numbers: on disjoint layers every order gives the same tensors
        key = (n, tuple(tuple(s[1]) for s in specs))
        disjoint = all(abs(a - b) >= 2 for s in specs for a in s[1] for b in s[1] if a != b)
        if disjoint:
            if key in ref_tensors:
                err = max(float(np.abs(a - b).max()) if a.shape == b.shape else float("inf")
                          for a, b in zip(ref_tensors[key], tensors))
                if err > 1e-11:
                    res.disagree("real back-end: layer result depends on the execution order",
                                 {"n": n, "layers": [list(s) for s in specs], "max_abs_difference": err})
            else:
                ref_tensors[key] = tensors

    # -- (5) dense evolution of small chains ---------------------------------------------------
    tempo = {"kind": "tempo", "alpha": 0.08, "axis": "x"}
    ident = {"kind": "identity"}
    dense_specs = [
        gen_spec(rng, 2, "coupled", 1, steps=2, epsrel=1e-12, sites=[0, 1, [0, 1]]),
        gen_spec(rng, 3, "coupled", 2, steps=2, epsrel=1e-12, sites=[0, 2, [0, 2], [0, 1, 2]]),
        gen_spec(rng, 2, "coupled", 2, steps=2, epsrel=1e-12, pts=[tempo, None], sites=[0, 1, [0, 1]]),
        gen_spec(rng, 3, "coupled", 1, steps=2, epsrel=1e-12, pts=[None, ident, None],
                 sites=[1, [0, 1], [1, 2]]),
    ]
    if tier != "quick":
        dense_specs += [
            gen_spec(rng, 2, "coupled", 2, steps=3, epsrel=1e-12, dims=[2, 3], sites=[0, 1, [0, 1]]),
            gen_spec(rng, 3, "coupled", 2, steps=2, epsrel=1e-12, pts=[None, tempo, None],
                     sites=[0, 1, 2, [0, 2]]),
            gen_spec(rng, 4, "coupled", 1, steps=2, epsrel=1e-12, sites=[0, 3, [1, 2], [0, 3]]),
            gen_spec(rng, 3, "uncoupled", 2, steps=3, epsrel=1e-12, pts=[tempo, None, ident],
                     sites=[0, 1, 2, [0, 1, 2]]),
        ]
    # controls on one of them
    kick = np.kron(np.array([[0, 1], [1, 0]]), np.array([[0, 1], [1, 0]])).astype(complex)
    damp = np.diag([1.0, 0.5, 0.5, 1.0]).astype(complex)
    dense_specs[1]["controls"] = [[0, 1, False, enc(kick)], [2, 0, True, enc(damp)],
                                  [0, 1, False, enc(damp)]]
    add_controls(dense_specs[0], rng)
    add_controls(dense_specs[3], rng)
    nh = nonherm_specs(rng)[0][1]
    nh["epsrel"] = 1e-12
    dense_specs.append(nh)
    for spec in dense_specs:
        line, real, b = dense_line(spec)

        def chk(ans, real=real, b=b, spec=spec):
            norms, dyn = parse_dense(ans, b, spec)
            hyp = dict(parse_dense.hyp)
            err = float(np.abs(norms - real["norm"]).max())
            for key, vecs in dyn.items():
                keep = [int(x) for x in key.split(",")]
                for v, st in zip(vecs, real["dyn"][key]):
                    err = max(err, float(np.abs(vec_to_dm(v, spec["dims"], keep) - st).max()))
            # hypotheses of norm_step on the real tensors (exact residuals of float data: the
            # gates carry the round-off of expm and the truncation epsrel of their SVD split,
            # PT-TEMPO process tensors their own truncation)
            tol = {"gate": 1e-9, "ctrl": 1e-12, "pt": 1e-9}
            badh = {k: v for k, v in hyp.items() if v > tol.get(k, 1e-9)
                    and not (k == "ctrl" and spec.get("nonhermitian"))}   # rho -> A rho is not TP
            res.hyp_max = {k: max(v, getattr(res, "hyp_max", {}).get(k, 0.0)) for k, v in hyp.items()}
            if sorted(hyp) != ["ctrl", "gate", "pt"]:
                return False, "no hypothesis residuals in the answer"
            if badh:
                res.hyp_violations = getattr(res, "hyp_violations", []) + [(spec, badh)]
                return False, "the real tensors violate the hypotheses of norm_step: %r" % badh
            return err < 1e-8, "max abs difference %.3g; hypothesis residuals %r" % (err, hyp)
        add(line, chk)
        res.count("dense:n=%d,order=%d,pts=%s,ctrl=%d" % (
            len(spec["dims"]), spec["order"], "".join("T" if p and p["kind"] == "tempo" else
                                                      "I" if p else "-" for p in spec["pts"]),
            len(spec["controls"])))

    # -- (5b) the generated Liouvillian contributions on random operators ------------------------
    for _ in range(3 if tier == "quick" else 12):
        for kind in ("siteH", "siteD", "nnH", "nnD"):
            d1, d2 = rng.choice([2, 2, 3]), rng.choice([2, 2, 3])
            two = kind.startswith("nn")
            if kind.endswith("H"):
                a, bb = _herm(rng, d1, 1.0), _herm(rng, d2, 1.0)
            else:
                a, bb = _nonnormal(rng, d1), _nonnormal(rng, d2)
            g = rng.uniform(0.1, 1.5)
            sc = oqupy.SystemChain([d1, d2])
            if kind == "siteH":
                sc.add_site_hamiltonian(0, a)
                want = sc.site_liouvillians[0]
            elif kind == "siteD":
                sc.add_site_dissipation(0, a, g)
                want = sc.site_liouvillians[0]
            elif kind == "nnH":
                sc.add_nn_hamiltonian(0, a, bb)
                want = sc.nn_liouvillians[0]
            else:
                sc.add_nn_dissipation(0, a, bb, g)
                want = sc.nn_liouvillians[0]

            def chk(ans, want=np.array(want)):
                head, body = ans.split(" | ")
                got = np.array([parse_crat(t) for t in body.split()]).reshape(want.shape)
                err = float(np.abs(got - want).max())
                return head == "tr=0 herm=0" and err < 1e-12, \
                    "tr=0 herm=0, max abs difference %.3g" % err
            line = "lind %s %d %d %s | %s" % (kind, d1, d2, crat(g), flat(a))
            if two:
                line += " | " + flat(bb)
            add(line, chk)
            res.count("lind:" + kind)

    # -- (6) weights ---------------------------------------------------------------------------
    for n in (2, 3, 6):
        for order in (1, 2):
            dt = 0.1

            def chk(ans, n=n, dt=dt):
                sw, bw, cnt = ans.split(" | ")
                half = rat(dt / 2.0)
                ok = sw.split() == [half] * n and bw.split() == [half] * (n - 1) and cnt == "2"
                return ok, "site and bond weights %s, two propagators per step" % half
            add("weights %d %d %s" % (n, order, rat(dt)), chk)

    # -- run the model -------------------------------------------------------------------------
    out = fw.run_driver(PID, lines)
    if len(out) != len(lines):
        raise fw.Infra("driver returned %d lines for %d inputs" % (len(out), len(lines)))
    for line, chk, ans in zip(lines, checks, out):
        try:
            ok, want = chk(ans)
        except Exception as e:      # noqa: BLE001
            ok, want = False, "unparsable answer (%s)" % type(e).__name__
        op = line.split()[0]
        res.case(line[:300], op in ("run", "sched", "nnfull", "layers", "lind"),
                 {"op": line[:120], "impl": str(want)[:120], "model": ans[:120]})
        if not ok:
            res.disagree("model and implementation differ on: " + line[:160],
                         {"line": line[:2000], "impl": str(want)[:400], "model": ans[:400]})

    if hasattr(res, "hyp_max"):
        res.notes.append("largest residuals of the hypotheses of norm_step on the real tensors: "
                         + ", ".join("%s %.2g" % kv for kv in sorted(res.hyp_max.items())))

    # -- (7) spec-level relations on the real code ----------------------------------------------
    rel = []
    for n, order, pts in [(3, 1, [None, tempo, None]), (4, 2, [ident, None, None, tempo])]:
        spec = gen_spec(rng, n, "uncoupled", order, pts=[dict(p, axis="z") if p and "axis" in p else p
                                                         for p in pts], steps=3, epsrel=1e-10,
                        sites=list(range(n)) + [[0, 1]])
        rel.append(("uncoupled", spec))
    rel.append(("two-site", gen_spec(rng, 2, "coupled", 1, steps=3, epsrel=1e-10, sites=[0, 1, [0, 1]])))
    rel.append(("two-site", gen_spec(rng, 2, "coupled", 2, steps=3, epsrel=1e-10, dims=[2, 3],
                                     sites=[0, 1, [0, 1]])))
    rel.append(("commuting", gen_spec(rng, 3, "commuting", 2, steps=3, epsrel=1e-10,
                                      sites=[0, 1, 2, [0, 2], [0, 1, 2]])))
    rel.append(("coupled", gen_spec(rng, 4, "coupled", 2, steps=2, epsrel=1e-9,
                                    pts=[None, None, dict(tempo, axis="z"), None],
                                    sites=[0, 1, 2, 3, [0, 1], [1, 3], [0, 1, 3], [1, 2, 3]])))
    rel += homogeneous_specs(rng, tempo)
    rel += control_specs(rng, tempo)
    rel += nonherm_specs(rng)
    if tier != "quick":
        for _ in range(6):
            n = rng.choice([2, 3, 4, 5])
            kind = rng.choice(["uncoupled", "commuting", "coupled"]) if n > 2 else "coupled"
            rel.append(({"coupled": "two-site" if n == 2 else "coupled"}.get(kind, kind),
                        gen_spec(rng, n, kind, rng.choice([1, 2]), steps=3, epsrel=1e-10,
                                 dims=[rng.choice([2, 2, 3]) for _ in range(n)] if n <= 3 else None)))
    for what, spec in rel:
        bad = relations(what, spec)
        res.case("relation:%s:n=%d:order=%d:hom=%s:siteterms=%s" % (
            what, len(spec["dims"]), spec["order"], spec.get("homogeneous"), spec.get("site_terms")), True)
        res.count("relation:" + what + (":homogeneous" if spec.get("homogeneous") else ""))
        for key, payload in bad:
            res.disagree("real code violates: " + key, payload)

    for a, b_spec, change in reinit_specs(rng):
        res.case("reinit:" + change, True)
        res.count("relation:reinit:" + change)
        for key, payload in oracle_reinit(a, b_spec, change):
            res.disagree("real code violates: " + key, payload)

    # -- (8) the three execution modes, fresh interpreters --------------------------------------
    compare_modes(res, None, started=started)


def homogeneous_specs(rng, tempo):
    """translation-invariant chains: two or more bonds with bit-identical full Liouvillians
    (N = 5 with identical site terms and couplings; N = 3 / 4 without site terms)"""
    z = dict(tempo, axis="z")
    return [
        ("uncoupled", gen_spec(rng, 5, "uncoupled", 2, pts=[None, None, z, None, None], steps=2,
                               epsrel=1e-10, homogeneous=True, sites=[0, 1, 2, 3, 4, [1, 3]])),
        ("commuting", gen_spec(rng, 5, "commuting", 1, steps=2, epsrel=1e-10, homogeneous=True,
                               sites=[0, 1, 2, 3, 4, [1, 2], [2, 3]])),
        ("commuting", gen_spec(rng, 3, "commuting", 2, steps=2, epsrel=1e-10, homogeneous=True,
                               site_terms=False, sites=[0, 1, 2, [0, 1], [1, 2], [0, 1, 2]])),
        ("commuting", gen_spec(rng, 4, "commuting", 1, steps=2, epsrel=1e-10, homogeneous=True,
                               site_terms=False, sites=[0, 1, 2, 3, [1, 2], [2, 3]])),
    ]


def reinit_specs(rng):
    """histories  compute -> change the chain / the parameters -> initialize() -> compute :
    (spec before, spec after, what changed); two-site chains, so the reference is exact"""
    out = []
    for change in ("site dissipator", "coupling", "dt", "order"):
        a = gen_spec(rng, 2, "coupled", rng.choice([1, 2]), steps=2, epsrel=1e-10, dt=0.1,
                     sites=[0, 1, [0, 1]])
        b = json.loads(json.dumps(a))
        if change == "site dissipator":
            b["site_diss"][1] = b["site_diss"][1] + [[0.9, enc(_nonnormal(rng, 2))]]
        elif change == "coupling":
            b["nn_h"][0] = b["nn_h"][0] + [[enc(_herm(rng, 2, 1.5)), enc(_herm(rng, 2, 1.0))]]
        elif change == "dt":
            b["dt"] = 0.25
        else:
            b["order"] = 3 - a["order"]
        b["reinit"] = change
        out.append((a, b, change))
    return out


def run_reinit(a, b_spec, change):
    """the history on ONE PtTebd object; returns the results of the second computation"""
    import oqupy
    b = build(a)
    obj = oqupy.PtTebd(initial_augmented_mps=b.mps, system_chain=b.sc, process_tensors=b.pts,
                       parameters=b.par, chain_control=b.ctl, dynamics_sites=b.sites)
    obj.compute(a["steps"], progress_type="silent")
    if change == "site dissipator":
        g, op_ = b_spec["site_diss"][1][-1]
        b.sc.add_site_dissipation(1, dec(op_), g)
    elif change == "coupling":
        x, y = b_spec["nn_h"][0][-1]
        b.sc.add_nn_hamiltonian(0, dec(x), dec(y))
    elif change == "dt":
        b.par.dt = b_spec["dt"]
    else:
        b.par.order = b_spec["order"]
    obj.initialize()
    r = obj.compute(b_spec["steps"], progress_type="silent")
    dyn = {}
    for s_ in b.sites:
        key = str(s_) if isinstance(s_, int) else ",".join(str(x) for x in s_)
        dyn[key] = [np.asarray(x) for x in r["dynamics"][s_].states]
    return {"norm": np.asarray(r["norm"]), "time": np.asarray(r["time"]), "dyn": dyn}


def oracle_reinit(a, b_spec, change):
    real = run_reinit(a, b_spec, change)
    bad = oracle_dense(b_spec, real, "two-site")
    want = [k * b_spec["dt"] for k in range(b_spec["steps"] + 1)]
    if len(real["time"]) != len(want) or np.abs(np.real(real["time"]) - want).max() > 1e-12:
        bad.append(("time stamps after re-initialisation (changed: %s)" % change,
                    {"spec": b_spec, "times": [float(np.real(t)) for t in real["time"]]}))
    bad += oracle_norm(b_spec, real)
    return bad


def nonherm_specs(rng):
    """the propagation is linear on operators: NON-Hermitian initial site matrices (sigma_+ rho)
    and left-multiplication controls rho -> A rho"""
    out = []
    sp = np.array([[0, 1], [0, 0]], dtype=complex)
    for n, kind, order in ((2, "coupled", 2), (3, "commuting", 1)):
        spec = gen_spec(rng, n, kind, order, steps=3, epsrel=1e-10,
                        sites=list(range(n)) + [[0, 1]] + ([[1, 2], [0, 1, 2]] if n == 3 else []))
        rho = dec(spec["rho0"][0])
        spec["rho0"][0] = enc(sp @ (rho + 0.3 * np.eye(2)))
        a = np.eye(2) + 0.5 * _nonnormal(rng, 2)          # invertible: the state never vanishes
        a2 = np.eye(2) + 0.5 * _nonnormal(rng, 2)
        spec["controls"] = [[n - 1, 2, False, enc(np.kron(a, np.eye(2)))],
                            [0, 1, True, enc(np.kron(a2, np.eye(2)))]]
        spec["nonhermitian"] = True
        out.append(("two-site" if n == 2 else "commuting", spec))
    return out


def control_specs(rng, tempo):
    """chains WITH a ChainControl of non-symmetric superoperators"""
    z = dict(tempo, axis="z")
    return [
        ("uncoupled", add_controls(gen_spec(rng, 3, "uncoupled", 2, pts=[None, z, None], steps=3,
                                            epsrel=1e-10, sites=[0, 1, 2, [0, 2]]), rng)),
        ("two-site", add_controls(gen_spec(rng, 2, "coupled", 1, steps=3, epsrel=1e-10,
                                           sites=[0, 1, [0, 1]]), rng)),
        ("commuting", add_controls(gen_spec(rng, 3, "commuting", 2, steps=2, epsrel=1e-10,
                                            sites=[0, 1, 2, [0, 1], [0, 1, 2]]), rng)),
        ("two-site", dict(gen_spec(rng, 2, "coupled", 2, steps=3, epsrel=1e-10,
                                   sites=[0, 1, [0, 1]]), inspect=True)),
    ]


def relations(what, spec):
    real = run_real(spec)
    real.pop("obj")
    bad = []
    if what == "uncoupled":
        bad += oracle_uncoupled(spec, real)
    if what in ("two-site", "commuting") and all(p is None for p in spec["pts"]):
        bad += oracle_dense(spec, real, what)
    bad += oracle_partial_trace(spec, real)
    bad += oracle_norm(spec, real)
    return bad


# ---------------------------------------------------------------------------
# failing-input search (real code only, judged by the property text)
# ---------------------------------------------------------------------------

def weak_coupling_spec(n=3, order=2):
    """forced: a commuting ZZ chain whose bonds carry Schmidt values far below 1e-6 (coupling 2e-5)
    at a tight truncation (epsrel 1e-12); adjacent pairs and the whole chain are recorded"""
    z = np.diag([1.0, -1.0]).astype(complex)
    sp = {"dims": [2] * n, "site_h": [enc(0.3 * (j + 1) * z) for j in range(n)],
          "site_diss": [[] for _ in range(n)],
          "nn_h": [[[enc(2e-5 * z), enc(z)]] for _ in range(n - 1)], "nn_diss": [[] for _ in range(n - 1)],
          "rho0": [enc(np.array([[0.5, 0.35 - 0.2j * (j + 1) / n], [0.35 + 0.2j * (j + 1) / n, 0.5]]))
                   for j in range(n)],
          "pts": [None] * n, "order": order, "dt": 0.2, "epsrel": 1e-12, "steps": 3,
          "sites": list(range(n)) + [[i, i + 1] for i in range(n - 1)] + [list(range(n))],
          "controls": [], "kind": "commuting", "homogeneous": False, "site_terms": True}
    return sp


def weak_coupling(res):
    """always run: connected correlations of a weakly coupled chain against the propagator of the full
    Liouvillian to 1e-10 (every kept Schmidt value must be inverted exactly)"""
    for n, order in ((3, 2), (4, 1)):
        spec = weak_coupling_spec(n, order)
        real = run_real(spec)
        b = build(spec)
        ref = dense_states(b, spec)
        worst, where = 0.0, None
        for key, states in real["dyn"].items():
            keep = [int(x) for x in key.split(",")]
            err = max(float(np.abs(st - reduce_dense(v, spec["dims"], keep)).max()) for st, v in zip(states, ref))
            if err > worst:
                worst, where = err, keep
        res.case("weak-coupling:n=%d:order=%d" % (n, order), True, {"max_abs_difference": worst})
        res.count("weak-coupling chain")
        if worst > 1e-10:
            res.fail("weak coupling (2e-5), epsrel=1e-12, n=%d order=%d: sites %s differ from the propagator "
                     "of the full Liouvillian" % (n, order, where),
                     {"oracle": "weak-coupling", "spec": spec, "sites": where, "max_abs_difference": worst})


def search(res, rng=None):
    rng = rng or random.Random(res.seed + 1)
    tempo = {"kind": "tempo", "alpha": 0.08, "axis": "z"}
    # (a) every execution mode is usable and gives the same results
    #     — chain lengths 2 (a layer without gates), 3, 4; both Trotter orders
    compare_modes(res, [gen_spec(rng, 2, "coupled", 1, steps=2),
                        gen_spec(rng, 2, "coupled", 2, steps=1),
                        gen_spec(rng, 3, "coupled", 2, steps=2),
                        gen_spec(rng, 4, "coupled", 1, steps=2, pts=[None, tempo, None, None])],
                  fail=True)
    # (b) relations of the property text; first the inputs on which the real tensors violated the
    #     hypotheses of norm_step, then ladder-operator dissipators (hopping, pair decay)
    todo = [("coupled", spec) for spec, _ in getattr(res, "hyp_violations", [])[:3]]
    todo += homogeneous_specs(rng, tempo)
    todo += control_specs(rng, tempo)
    todo += nonherm_specs(rng)
    sm = np.array([[0, 0], [1, 0]], dtype=complex)
    for n, (opl, opr_), g in ((3, (sm, sm.T), 0.9), (2, (sm, sm), 1.2)):
        spec = gen_spec(rng, n, "coupled", 2, steps=3, epsrel=1e-10, nn_dissipation=False,
                        sites=list(range(n)) + [[0, 1]])
        spec["nn_diss"] = [[[g, enc(opl), enc(opr_)]] for _ in range(n - 1)]
        todo.append(("two-site" if n == 2 else "coupled", spec))
    todo += [("two-site", gen_spec(rng, 2, "coupled", o, steps=3, epsrel=1e-10, sites=[0, 1, [0, 1]]))
            for o in (1, 2)]
    todo += [("uncoupled", gen_spec(rng, n, "uncoupled", o, steps=3, epsrel=1e-10,
                                    pts=[tempo] + [None] * (n - 1), sites=list(range(n)) + [[0, 1]]))
             for n, o in ((2, 1), (3, 2), (5, 1))]
    todo += [("commuting", gen_spec(rng, n, "commuting", o, steps=3, epsrel=1e-10))
             for n, o in ((3, 1), (4, 2))]
    todo += [("coupled", gen_spec(rng, 4, "coupled", 2, steps=2, epsrel=1e-9,
                                  sites=[0, 1, 2, 3, [0, 1], [1, 3], [0, 1, 3]]))]
    for what, spec in todo:
        for key, payload in relations(what, spec):
            res.fail(key, payload)
    for a, b_spec, change in reinit_specs(rng):
        for key, payload in oracle_reinit(a, b_spec, change):
            res.fail(key, dict(payload, history="compute(%d); change the %s; initialize(); "
                                                "compute(%d)" % (a["steps"], change, b_spec["steps"]),
                               spec_before=a))
    # (c) completion orders on the real back-end
    for n in (4, 5, 6):
        for ly in cheap_gates(n):
            bonds = [g.sites[0] for g in ly.gates]
            if len(bonds) < 2:
                continue
            ref = traced_layers(n, [("seq", bonds, None)])[3]
            for p in itertools.permutations(range(len(bonds))):
                t = traced_layers(n, [("perm", bonds, list(p))])[3]
                err = max(float(np.abs(a - b).max()) for a, b in zip(ref, t))
                if err > 1e-11:
                    res.fail("completion order changes the result of a layer",
                             {"n": n, "bonds": bonds, "completion_order": list(p),
                              "max_abs_difference": err})


def replay_case(res, payload):
    fi = payload.get("failing_input", payload)
    key = payload.get("key", "")
    if "backend_config" in fi:
        mode = fi["backend_config"]["parallel"]
        o = fresh_runs([(fi["spec"], mode)])[0]
        if not o.get("ok"):
            res.fail(KEY_MODE % (mode, o.get("exc")), dict(fi, exception=o.get("exc"),
                                                            message=o.get("msg")))
            return True
        return False
    if "spec" in fi:
        bad = relations(fi["spec"].get("kind", "coupled") if len(fi["spec"]["dims"]) > 2
                        else "two-site", fi["spec"])
        for k, p in bad:
            res.fail(k, p)
        return bool(bad)
    res.notes.append("replay %s: no oracle for key %r" % (payload.get("property"), key))
    return False


def run(tier, seed, replay):
    res = fw.Result(PID, tier, seed, level="proof")
    rng = random.Random(seed)
    res.rule = (
        "layer tables: chains of 2..6 (thorough 2..9) sites x orders 1, 2, 3 through the real "
        "compute_tebd_propagator (gate sites and the dt every gate was exponentiated with, exact); "
        "get_nn_full_liouvillians on random chains (dims 2/3) vs the generated summands (1e-12); "
        "schedule: every Trotter layer of chains of 2..7 (2..10) sites on the REAL back-end under a "
        "tracer, sequential / map / every completion permutation (<= 3 gates exhaustive, longer "
        "sampled), whole order-2 propagators in mixed modes, and artificial overlapping layers: "
        "copied and replaced tensors per gate and the provenance term of every tensor compared "
        "exactly with the symbolic run of the schedule model, resulting tensors to 1e-12 between "
        "orders; dense model: 2-4 site chains (dims 2/3, orders 1/2, none / identity / PT-TEMPO "
        "process tensors, stacked controls) with the real gate tensors, MPOs, caps and controls "
        "shipped as exact rationals vs the recorded norm and every recorded site subset (1e-8), "
        "and the HYPOTHESES of norm_step (every shipped gate, control, process-tensor MPO/cap "
        "preserves the trace covector) evaluated exactly on those tensors (residual <= 1e-9; "
        "observed 1e-14); chains carry random non-normal site and nearest-neighbour dissipators "
        "(add_site_dissipation / add_nn_dissipation); generated Lindblad terms (ChainLindblad) "
        "evaluated on random Hermitian / non-normal operators (dims 2/3) vs the real "
        "add_site_* / add_nn_* Liouvillians (1e-12) with tr∘L = 0 and Hermiticity preservation "
        "exactly zero in rational arithmetic; "
        "modes: chains of 2-5 (2-6) sites in {absent, multithread, multiprocess}, each in a fresh "
        "interpreter, results to 1e-12; relations on the real code: uncoupled = per-site "
        "compute_dynamics, two-site and commuting chains = expm of the full Liouvillian (1e-8), "
        "partial traces of recorded subsets, norm.  Non-trivial = tensor / schedule / layer case; "
        "distinct = distinct protocol line or (case, mode).")
    res.assumptions = [
        "scipy.linalg.expm: one-parameter group expm(sL)expm(tL) = expm((s+t)L); "
        "expm(A x 1 + 1 x B) = expm(A) x expm(B); for commuting generators the product of the "
        "exponentials is the exponential of the sum (hypotheses hE / hgrp / hG of the theorems)",
        "truncated SVDs (split_node_full_svd, scipy.linalg.svd) reconstruct their input up to "
        "epsrel: the model is the exact limit; real runs use epsrel 1e-8 .. 1e-12",
        "concurrent.futures.Executor.map yields the results in input order; worker threads / "
        "processes only see the copies handed to them (the translator checks that _apply_nn_gate "
        "is a module-level function that does not refer to self or globals)",
        "dt/2.0 and dt/4.0 are exact in binary64 (no underflow)",
        "expm(t·L) preserves the trace covector when L annihilates it (links the Lindblad-form "
        "theorems to hypothesis hg of norm_step; the residual of hg is also measured on every "
        "shipped gate)",
        "process-tensor caps: cap_{k+1} closed over MPO k with the trace gives cap_k (shown for "
        "PT-TEMPO process tensors in C04) — hypothesis hT of norm_step",
    ]
    res.not_shown = [
        "that thread / process pools start, pickle tensornetwork nodes and shut down correctly is "
        "runtime behaviour: observed in the fresh-interpreter runs, not proved",
        "accuracy of the Trotter splitting for non-commuting gates on three or more sites is "
        "outside the property (only two-site / commuting / uncoupled chains are exact)",
        "the dense model is exact (no SVD truncation); agreement with the real MPS contraction is "
        "by correspondence (1e-8 at epsrel 1e-12), its error bound in epsrel is not proved",
        "exact-ancilla process tensors of the quantifier are not generated (none / identity / "
        "PT-TEMPO are)",
        "positivity of reduced states",
    ]
    res.trusted.append("Generated/ControlCompose.lean (statement order of PtTebd.initialize / "
                       "compute_step, owned by C18) is imported by the model")

    files = [replay] if replay else sorted(glob.glob(os.path.join(fw.CORPUS, PID, "*.json")))
    for f in files:
        try:
            payload = json.load(open(f))
        except (OSError, ValueError):
            continue
        again = replay_case(res, payload)
        res.count("corpus:%s" % ("fails" if again else "passes"))
        if again:
            fw.log("stored failing input still fails: %s" % f)
    if replay:
        rc = 0
        seen = set()
        for key, payload in res.failing:
            if key in seen:
                continue
            seen.add(key)
            path = fw.write_replay(PID, {"property": PID, "key": key, "failing_input": payload,
                                         "seed": seed})
            fw.log("VIOLATION property=%s replay=%s" % (PID, path))
            rc = 1
        if rc == 0:
            fw.log("OK property=%s replay=%s no longer fails" % (PID, replay))
        return rc

    fw.standard_pipeline(res, ["TebdLayers", "ChainLindblad", "ControlCompose"], THEOREMS,
                         extra_modules=["OQuPyVerif.Props.C10Gksl"])
    built = all(o[1] for o in res.obligations if o[0].startswith("translator"))
    try:
        if built:
            correspondence(res, tier, rng)
        else:
            res.notes.append("correspondence skipped: generated model unavailable")
    except fw.Infra as e:
        res.oblige("correspondence run", False, str(e))
    weak_coupling(res)
    return fw.finish(res, search)
