"""Ship the tensors of a real TEMPO / PT computation to the Lean path-sum model."""
import numpy as np
import oqupy
from oqupy import operators as op
from .framework import crat, parse_crat


def flat(a):
    return " ".join(crat(z) for z in np.asarray(a, dtype=complex).reshape(-1))


def needed_ids(dkmax, has_add, n):
    """table ids the model's step machine may ask for up to step n (superset is fine)"""
    ids = set()
    for step in range(1, n + 1):
        for dk in range(step):
            if dkmax is None:
                ids.add(dk)
            elif dk <= dkmax:
                if step > dkmax and dk == dkmax and has_add:
                    ids.add(dkmax - step)
                else:
                    ids.add(dk)
    return sorted(ids)


def tempo_line(tempo, n):
    """protocol line for a real (un-run) oqupy.Tempo object, n steps.
    Tables are the *real* influence_matrix outputs; propagators the real ones."""
    d = tempo._dimension
    L = d * d
    par = tempo._parameters
    dkmax = par.dkmax
    has_add = par.add_correlation_time is not None
    u = tempo._bath.unitary_transform
    uout = op.left_right_super(u, u.conjugate().T)        # super_u
    uin = op.left_right_super(u.conjugate().T, u)          # super_u_dagg
    props = tempo._system.get_propagators(par.dt, tempo._start_time, par.subdiv_limit,
                                          par.liouvillian_epsrel)
    secs = ["tempo %d %d %s %d" % (L, n, "none" if dkmax is None else dkmax, int(has_add)),
            flat(tempo._initial_state), flat(uin), flat(uout)]
    for k in range(1, n + 1):
        p1, p2 = props(k - 1)
        secs += [flat(p1), flat(p2)]
    was_unique = tempo._unique
    tempo._unique = False
    try:
        for i in needed_ids(dkmax, has_add, n):
            tbl = tempo._influence(i)
            if i == 0:
                tbl = np.diag(np.diag(tbl)) if tbl.ndim == 2 else np.diag(tbl)
                # dk = 0: factor for the pair (a_n, a_n): only the diagonal is used
            secs.append("%d %s" % (i, flat(tbl)))
    finally:
        tempo._unique = was_unique
    return " | ".join(secs)


def parse_states(line, L):
    out = []
    for st in line.split(" ; "):
        out.append(np.array([parse_crat(t) for t in st.split()]))
    return out


def mpo_line(pt, n, rho0, props, controls=None, mode="mpo"):
    """protocol line for compute_dynamics with ONE process tensor `pt` over n steps.
    props(k) -> (P1, P2) real propagators; controls(k) -> (pre, post) or None."""
    d = pt.hilbert_space_dimension
    L = d * d
    eye = np.eye(L, dtype=complex)
    Ts, Ds = [], []
    for k in range(n):
        t = np.asarray(pt.get_mpo_tensor(k))
        Ts.append(t)
        Ds.append(t.shape[0])
    Ds.append(Ts[-1].shape[1] if Ts else 1)
    caps = [np.asarray(pt.get_cap_tensor(k)) for k in range(n + 1)]
    secs = ["mpo %d %d %s" % (L, n, mode), flat(rho0), " ".join(str(x) for x in Ds)]
    secs += [flat(t) for t in Ts]
    secs += [flat(c) for c in caps]
    pres = []
    for k in range(n + 1):
        pre, post = controls(k) if controls else (None, None)
        pre = eye if pre is None else pre
        post = eye if post is None else post
        pres.append(pre)
        if k < n:
            p1, p2 = props(k)
            secs += [flat(p1 @ post @ pre), flat(p2)]
    secs += [flat(p) for p in pres]
    return " | ".join(secs)
