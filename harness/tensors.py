"""Ship the tensors of a real TEMPO / PT computation to the Lean path-sum model."""
import numpy as np
import oqupy
from oqupy import operators as op
from .framework import crat, parse_crat


def flat(a):
    return " ".join(crat(z) for z in np.asarray(a, dtype=complex).reshape(-1))


def needed_ids(dkmax, has_add, n):
    """table ids the model's step machine may ask for up to step n (superset is fine)"""
    ids = set()
    for step in range(1, n + 1):
        for dk in range(step):
            if dkmax is None:
                ids.add(dk)
            elif dk <= dkmax:
                if step > dkmax and dk == dkmax and has_add:
                    ids.add(dkmax - step)
                else:
                    ids.add(dk)
    return sorted(ids)


def tempo_line(tempo, n, res=None):
    """protocol line for a real (un-run) oqupy.Tempo object, n steps.
    Tables are the *real* influence_matrix outputs (the module-level function whose formula and
    arguments C01 regenerates and characterises); propagators the real ones.  With `res`, the
    table the Tempo object hands to its backend (`Tempo._influence`) is compared bit for bit with
    that function for every table id the run can ask for."""
    d = tempo._dimension
    L = d * d
    par = tempo._parameters
    dkmax = par.dkmax
    has_add = par.add_correlation_time is not None
    u = tempo._bath.unitary_transform
    uout = op.left_right_super(u, u.conjugate().T)        # super_u
    uin = op.left_right_super(u.conjugate().T, u)          # super_u_dagg
    props = tempo._system.get_propagators(par.dt, tempo._start_time, par.subdiv_limit,
                                          par.liouvillian_epsrel)
    secs = ["tempo %d %d %s %d" % (L, n, "none" if dkmax is None else dkmax, int(has_add)),
            flat(tempo._initial_state), flat(uin), flat(uout)]
    for k in range(1, n + 1):
        p1, p2 = props(k - 1)
        secs += [flat(p1), flat(p2)]
    from oqupy.tempo import influence_matrix
    unique = bool(tempo._unique)
    if unique:
        north, west = tempo._bath.north_degeneracy_map, tempo._bath.west_degeneracy_map
        npos = [int(np.where(north == c)[0][0]) for c in range(int(north.max()) + 1)]
        wpos = [int(np.where(west == c)[0][0]) for c in range(int(west.max()) + 1)]
    # ask in the order the backend asks (ascending steps), so that any state the object keeps
    # between requests sees the same history as in a run
    order = sorted(needed_ids(dkmax, has_add, n), key=lambda i: (i < 0, abs(i)))
    for i in order:
        tbl = influence_matrix(i, parameters=par, correlations=tempo._correlations,
                               coupling_acomm=tempo._bath.coupling_acomm,
                               coupling_comm=tempo._bath.coupling_comm)
        if res is not None:
            via_object = tempo._influence(i)
            expected = tbl
            if unique and tbl is not None:
                expected = np.diag(tbl)[npos] if i == 0 else tbl[np.ix_(npos, wpos)]
            if via_object is None or expected is None or via_object.shape != expected.shape \
                    or not np.array_equal(via_object, expected):
                res.disagree("Tempo._influence(%d) is not influence_matrix(%d, ...) of the "
                             "object's own parameters, correlations and coupling%s"
                             % (i, i, " read at the class representatives" if unique else ""),
                             {"dk": i, "dkmax": dkmax, "dt": par.dt, "unique": unique,
                              "add_correlation_time": par.add_correlation_time})
        if i == 0:
            tbl = np.diag(np.diag(tbl)) if tbl.ndim == 2 else np.diag(tbl)
            # dk = 0: factor for the pair (a_n, a_n): only the diagonal is used
        secs.append("%d %s" % (i, flat(tbl)))
    return " | ".join(secs)


def parse_states(line, L):
    out = []
    for st in line.split(" ; "):
        out.append(np.array([parse_crat(t) for t in st.split()]))
    return out


def mpo_line(pt, n, rho0, props, controls=None, mode="mpo"):
    """protocol line for compute_dynamics with ONE process tensor `pt` over n steps.
    props(k) -> (P1, P2) real propagators; controls(k) -> (pre, post) or None."""
    d = pt.hilbert_space_dimension
    L = d * d
    eye = np.eye(L, dtype=complex)
    Ts, Ds = [], []
    for k in range(n):
        t = np.asarray(pt.get_mpo_tensor(k))
        Ts.append(t)
        Ds.append(t.shape[0])
    Ds.append(Ts[-1].shape[1] if Ts else 1)
    caps = [np.asarray(pt.get_cap_tensor(k)) for k in range(n + 1)]
    secs = ["mpo %d %d %s" % (L, n, mode), flat(rho0), " ".join(str(x) for x in Ds)]
    secs += [flat(t) for t in Ts]
    secs += [flat(c) for c in caps]
    pres = []
    for k in range(n + 1):
        pre, post = controls(k) if controls else (None, None)
        pre = eye if pre is None else pre
        post = eye if post is None else post
        pres.append(pre)
        if k < n:
            p1, p2 = props(k)
            secs += [flat(p1 @ post @ pre), flat(p2)]
    secs += [flat(p) for p in pres]
    return " | ".join(secs)
