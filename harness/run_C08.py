"""C08 — the adjoint gradient equals the derivative of the objective.  DESIGN.md §4 C08.

correspondence(): the real `state_gradient` / `compute_gradient_and_dynamics` / `_chain_rule`
(forward states, every stored forward tensor, every backward tensor, the adjoint tensors, the
final gradient) against the Lean model (Drivers/C08.lean) on hand-built random rank-4 process
tensors (1-2 environments, bond dimensions 1-3, N = 1..3, d = 2) shipped as exact rationals.

search(): spec-level oracles on the real code only — central finite differences of the
objective computed from the *forward* dynamics (`compute_dynamics` with a piecewise-constant
`TimeDependentSystem`, independent of gradient.py) against `state_gradient`'s gradient, and the
dynamics it reports against those forward dynamics.
"""
import glob
import json
import os
import random

import numpy as np

from . import framework as fw
from .framework import crat, parse_crat

PID = "C08"
P = "OQuPyVerif.Props.C08."
THEOREMS = [P + t for t in (
    "wiring_as_modelled", "propagator_memo_keys_complete", "derivative_rows_match", "halfstep_derivative_as_modelled",
    "adjoint_exact_first", "adjoint_exact_second", "objective_invariant",
    "forward_eq_spec_one", "forward_eq_spec_two",
    "model_backprop_eq_spec_one", "backward_order_reversed", "model_backprop_eq_spec_two",
    "model_backprop_eq_spec_of_commute", "same_order_backward_wrong",
    "gradient_exact_one_first", "gradient_exact_one_second",
    "gradient_exact_two_first", "gradient_exact_two_second",
    "dual_number_gradient_first", "dual_number_gradient_second", "dual_number_gradient_coeff",
    "gradient_is_derivative_one_first", "gradient_is_derivative_one_second",
    "gradient_is_derivative_two_first", "gradient_is_derivative_two_second",
    "dynamics_same_one", "dynamics_same_two")]
TOL = 1e-9          # correspondence (observed agreement ~1e-15)
FD_RTOL = 1e-6      # finite-difference oracle, relative to the largest gradient entry
                    # (observed on correct code: <= 2e-9; the order defect gives >= 1e-4)
DT = 0.1


# ---------------------------------------------------------------------------
# inputs
# ---------------------------------------------------------------------------

def _grid(rng, shape, denom=16, scale=1.0):
    """random complex array with entries on the lattice (Z + iZ)/denom (small exact rationals)"""
    n = int(np.prod(shape))
    re = np.array([rng.randrange(-denom, denom + 1) for _ in range(n)], dtype=float)
    im = np.array([rng.randrange(-denom, denom + 1) for _ in range(n)], dtype=float)
    return (scale * (re + 1j * im) / denom).reshape(shape)


def rand_pt(rng, n, bonds, dim=2, kind="random", dt=DT):
    """hand-built rank-4 process tensor (bond dims `bonds`, first and last = 1)"""
    from . import oq
    L = dim * dim
    mpos = []
    for k in range(n):
        shape = (bonds[k], bonds[k + 1], L, L)
        if kind == "identity-like":        # commutes with everything: c * identity on the system leg
            m = np.zeros(shape, dtype=complex)
            c = _grid(rng, (bonds[k], bonds[k + 1]), 8)
            for i in range(L):
                m[:, :, i, i] = c
        elif kind == "diagonal":           # rank-3-like (diagonal in the system leg)
            m = np.zeros(shape, dtype=complex)
            dg = _grid(rng, (bonds[k], bonds[k + 1], L), 8)
            for i in range(L):
                m[:, :, i, i] = dg[:, :, i]
        else:
            m = _grid(rng, shape, 8, 0.75)
        mpos.append(m)
    return oq.simple_pt(mpos, dim, dt=dt)


def rand_bonds(rng, n, maxd=3):
    return [1] + [rng.randrange(1, maxd + 1) for _ in range(n - 1)] + [1]


def make_fixed_system(props, dprops, M):
    """ParameterizedSystem whose propagators / derivatives are prescribed arrays
    (props[k] = (P1, P2); dprops[k] = ([dP1_j], [dP2_j]))"""
    import oqupy
    from oqupy import operators as op

    class FixedSystem(oqupy.ParameterizedSystem):
        def __init__(self):
            args = ", ".join("x%d" % i for i in range(M))
            ham = eval("lambda %s: x0 * SX" % args, {"SX": op.sigma("x")})
            super().__init__(ham)

        def get_propagators(self, dt, parameters):
            return lambda step: props[step]

        def get_propagator_derivatives(self, dt, parameters):
            return lambda step: dprops[step]

    return FixedSystem()


PAULI = None


def _pauli():
    global PAULI
    if PAULI is None:
        from oqupy import operators as op
        PAULI = [op.sigma("x"), op.sigma("z"), op.sigma("y")]
    return PAULI


def real_system_parts(M, dissipator, coeffs):
    """Hamiltonian / rates / Lindblad operators as functions of M parameters"""
    from oqupy import operators as op
    sx, sz, sy = _pauli()
    c = coeffs

    def ham(*x):
        if dissipator == "pulse":
            # a bare drive: at x0 == 0 the half-step propagator is exactly REAL (H is a multiple of
            # sigma_y, or zero) while its derivative w.r.t. x0 is purely imaginary
            h = 0.5 * x[0] * sx
            if M >= 2:
                h = h + 0.5 * x[1] * sy
            if M >= 3:
                h = h + 0.25 * x[2] * sy
            return h
        h = c[0] * sz + x[0] * sx
        if M >= 2:
            h = h + x[1] * sz
        if M >= 3:
            h = h + x[2] * sy
        return h

    gammas, lops = [], []
    if dissipator == "const":
        gammas = [lambda *x: c[1]]
        lops = [lambda *x: op.sigma("-")]
    elif dissipator == "param":
        gammas = [lambda *x: c[1] * (1.0 + 0.5 * x[0] ** 2), lambda *x: c[2]]
        lops = [lambda *x: op.sigma("-") + 0.3 * x[-1] * sz, lambda *x: sz + 0.2 * x[0] * sx]
    return ham, gammas, lops


def _with_arity(f, M):
    args = ", ".join("x%d" % i for i in range(M))
    return eval("lambda %s: F(%s)" % (args, args), {"F": f})


def make_real_system(M, dissipator, coeffs, derivs="frechet"):
    """a genuine ParameterizedSystem; `derivs`: 'frechet' = user-supplied propagator derivatives
    (expm_frechet of the centrally differenced Liouvillian), 'numdiff' = the library's default"""
    import oqupy
    from scipy.linalg import expm_frechet
    ham, gammas, lops = real_system_parts(M, dissipator, coeffs)
    kw = dict(gammas=[_with_arity(g, M) for g in gammas] or None,
              lindblad_operators=[_with_arity(l, M) for l in lops] or None)
    if not gammas:
        kw = {}
    holder = {}

    def prop_derivs(dt, params):
        s = holder["s"]
        x = np.array(params, dtype=float)
        liou = s.liouvillian(*x)
        out = []
        for j in range(M):
            e = np.zeros(M)
            e[j] = 1e-6
            dl = (s.liouvillian(*(x + e)) - s.liouvillian(*(x - e))) / 2e-6
            out.append(expm_frechet(liou * dt / 2.0, dl * dt / 2.0, compute_expm=False))
        return out

    s = oqupy.ParameterizedSystem(_with_arity(ham, M),
                                  propagator_derivatives=prop_derivs if derivs == "frechet" else None,
                                  **kw)
    holder["s"] = s
    return s


def piecewise_system(M, dissipator, coeffs, params, start=0.0, dt=DT):
    """the same controls as a TimeDependentSystem, piecewise constant on half steps — the forward
    oracle (independent of gradient.py and of ParameterizedSystem)"""
    import oqupy
    ham, gammas, lops = real_system_parts(M, dissipator, coeffs)
    params = np.array(params, dtype=float)

    def row(t):
        k = int(np.floor((t - start) / (dt / 2.0) + 1e-9))
        return params[min(max(k, 0), len(params) - 1)]

    kw = {}
    if gammas:
        kw = dict(gammas=[(lambda t, g=g: g(*row(t))) for g in gammas],
                  lindblad_operators=[(lambda t, l=l: l(*row(t))) for l in lops])
    return oqupy.TimeDependentSystem(lambda t: ham(*row(t)), **kw)


# ---------------------------------------------------------------------------
# running the real code
# ---------------------------------------------------------------------------

class _TnProxy:
    """stands in for the `tn` module inside oqupy.gradient: logs every replicated node"""

    def __init__(self, tn, log):
        self._tn, self._log = tn, log

    def __getattr__(self, name):
        return getattr(self._tn, name)

    def replicate_nodes(self, nodes, *a, **kw):
        out = self._tn.replicate_nodes(nodes, *a, **kw)
        self._log.append(np.array(out[0].tensor))
        return out


def tensor_of(x):
    return np.array(x.tensor if hasattr(x, "tensor") else x)


def quadratic_target(w):
    """callable target derivative of the objective Z(rho) = 1/2 sum_ij w_ij rho_ij^2"""
    return lambda rho: np.array(w) * np.array(rho)


def quadratic_objective(w, rho):
    return 0.5 * np.sum(np.array(w).reshape(-1) * np.array(rho).reshape(-1) ** 2)


def run_real(system, rho0, target, pts, params):
    """state_gradient on the real code + the tensors it stores on the way"""
    import oqupy.gradient as G
    log = []
    used_target = []
    if callable(target):
        inner = target

        def target(rho):
            out = np.array(inner(rho))
            used_target.append(out.copy())
            return out
    saved = G.tn
    G.tn = _TnProxy(saved, log)
    try:
        r = G.state_gradient(system=system, initial_state=np.array(rho0), target_derivative=target,
                             process_tensors=list(pts), parameters=np.array(params),
                             progress_type="silent")
    finally:
        G.tn = saved
    n = len(pts[0])
    # replicate order: N forward tensors; then backward node, first adjoint tensor; then one
    # backward node per iteration of the backward loop
    fwd = log[:n]
    rest = log[n:]
    bwd = [rest[0]] + rest[2:] if rest else []
    return {"states": [np.array(s).reshape(-1) for s in r["dynamics"].states],
            "times": [float(t) for t in r["dynamics"].times],
            "final_state": np.array(r["final_state"]).reshape(-1),
            "fwd": fwd, "bwd": bwd, "n_replicated": len(log),
            "gradprop": [tensor_of(g) for g in r["gradprop"]],
            "gradient": np.array(r["gradient"]), "used_target": used_target}


def flat(a):
    return " ".join(crat(z) for z in np.asarray(a, dtype=complex).reshape(-1))


def model_line(pts, n, M, rho0, tgt, props, dprops):
    E = len(pts)
    L = pts[0].hilbert_space_dimension ** 2
    secs = ["grad %d %d %d %d" % (E, L, n, M), flat(rho0), flat(tgt)]
    Ts = [[np.asarray(pt.get_mpo_tensor(k)) for k in range(n)] for pt in pts]
    for e in range(E):
        secs.append(" ".join(str(t.shape[0]) for t in Ts[e]) + " %d" % Ts[e][-1].shape[1])
    for e in range(E):
        secs += [flat(t) for t in Ts[e]]
    for pt in pts:
        secs += [flat(pt.get_cap_tensor(k)) for k in range(n + 1)]
    for k in range(n):
        secs += [flat(props[k][0]), flat(props[k][1])]
    for k in range(n):
        secs += [flat(dprops[k][0][j]) for j in range(M)]
        secs += [flat(dprops[k][1][j]) for j in range(M)]
    return " | ".join(secs)


def parse_group(text):
    out = []
    for item in text.split(" ; "):
        out.append(np.array([parse_crat(t) for t in item.split()]))
    return out


def parse_model(line):
    groups = line.split(" | ")
    if len(groups) != 5:
        raise fw.Infra("driver C08 answered %r" % line[:200])
    return {"states": parse_group(groups[0]), "fwd": parse_group(groups[1]),
            "bwd": parse_group(groups[2]), "gradprop": parse_group(groups[3]),
            "gradient": parse_group(groups[4])}


def maxdiff(xs, ys):
    if len(xs) != len(ys):
        return float("inf")
    worst = 0.0
    for a, b in zip(xs, ys):
        a, b = np.asarray(a).reshape(-1), np.asarray(b).reshape(-1)
        if a.shape != b.shape:
            return float("inf")
        if a.size:
            worst = max(worst, float(np.abs(a - b).max()))
    return worst


# ---------------------------------------------------------------------------
# correspondence
# ---------------------------------------------------------------------------

def gen_case(rng, tier, i):
    """one correspondence case: dict with everything needed to run both sides"""
    E = 1 if i % 3 == 0 else 2
    n = rng.randrange(1, 4)
    M = rng.randrange(1, 4)
    kinds = [rng.choice(["random", "random", "random", "diagonal", "identity-like"]) for _ in range(E)]
    maxd = 3 if E == 1 or tier != "quick" else rng.choice([2, 3])
    bonds = [rand_bonds(rng, n, maxd) for _ in range(E)]
    pts = [rand_pt(rng, n, bonds[e], 2, kinds[e]) for e in range(E)]
    rho0 = _grid(rng, (2, 2), 8)
    tgt = _grid(rng, (2, 2), 8)
    syskind = rng.choice(["fixed", "fixed", "real", "real-param-dissipator"])
    params = np.array([[rng.uniform(-1.5, 1.5) for _ in range(M)] for _ in range(2 * n)])
    tkind = rng.choice(["array", "array", "callable"])
    desc = {"E": E, "N": n, "M": M, "bonds": bonds, "pt_kinds": kinds, "system": syskind,
            "target": tkind}
    if syskind == "fixed":
        props = [(_grid(rng, (4, 4), 8), _grid(rng, (4, 4), 8)) for _ in range(n)]
        dprops = [([_grid(rng, (4, 4), 8) for _ in range(M)], [_grid(rng, (4, 4), 8) for _ in range(M)])
                  for _ in range(n)]
        system = make_fixed_system(props, dprops, M)
    else:
        coeffs = [rng.uniform(0.2, 1.0), rng.uniform(0.05, 0.4), rng.uniform(0.05, 0.3)]
        system = make_real_system(M, "param" if syskind.endswith("dissipator") else
                                  rng.choice(["none", "const"]), coeffs)
        pf = system.get_propagators(DT, params)
        df = system.get_propagator_derivatives(DT, params)
        props = [pf(k) for k in range(n)]
        dprops = [df(k) for k in range(n)]
    return dict(desc=desc, pts=pts, n=n, M=M, rho0=rho0, tgt=tgt, system=system, params=params,
                props=props, dprops=dprops, callable_target=(tkind == "callable"))


REUSE_CALLS = [(0.2, 1), (0.1, 2)]      # (dt, num_steps) of the consecutive calls


def special_tables(tier):
    """(name, M, N, parameter array) — tables with exact zeros and non-float64 dtypes"""
    out = [("all-zero pulse", 1, 1, np.zeros((2, 1))),
           ("integer dtype (ones)", 1, 1, np.ones((2, 1), dtype=int)),
           ("float32 dtype", 1, 1, np.array([[0.375], [-0.625]], dtype=np.float32))]
    if tier != "quick":
        out += [("zeros at the pulse ends", 2, 2,
                 np.array([[0.0, 0.7], [0.4, -0.3], [-0.6, 0.5], [0.0, 0.2]])),
                ("integer dtype (zeros and ones)", 2, 1, np.array([[0, 1], [1, 0]], dtype=int)),
                ("all-zero pulse, integer dtype", 2, 1, np.zeros((2, 2), dtype=int))]
    return out


def plateau_table(r, n, M):
    """piecewise-constant pulse: plateaus of >= 2 half steps in column 0 with at least one switch
    (for N >= 4: one switch at a step boundary and one mid-step); further columns constant"""
    total = 2 * n
    if total >= 8:
        lengths = [2, 3]                  # switches after half step 2 (boundary) and 5 (mid-step)
        rest = total - 5
        while rest >= 4 and r.random() < 0.5:
            cut = r.randrange(2, rest - 1)
            lengths.append(cut)
            rest -= cut
        lengths.append(rest)
    elif total >= 5:
        lengths = r.choice([[2, total - 2], [3, total - 3]])
    else:
        lengths = [total]
    vals, prev = [], None
    for _ in lengths:
        v = round(r.uniform(-2, 2), 2)
        while prev is not None and abs(v - prev) < 0.3:
            v = round(r.uniform(-2, 2), 2)
        vals.append(v)
        prev = v
    col0 = [v for v, l in zip(vals, lengths) for _ in range(l)]
    const = [round(r.uniform(-1, 1), 2) for _ in range(M - 1)]
    return np.array([[col0[k]] + const for k in range(total)], dtype=float)


def closure_order_mismatch(system_factory, dt, params, n, order, derivatives=False):
    """max |value from ONE closure queried in `order`  -  value from a fresh object queried once|"""
    used = system_factory()
    f = used.get_propagator_derivatives(dt, params) if derivatives else used.get_propagators(dt, params)
    worst = 0.0
    for k in order:
        got = f(k)
        fresh = system_factory()
        g = fresh.get_propagator_derivatives(dt, params) if derivatives else fresh.get_propagators(dt, params)
        want = g(k)
        for a, b in zip(got, want):
            worst = max(worst, float(np.abs(np.array(a) - np.array(b)).max()))
    return worst


def closure_order_checks(r, tier):
    """(key, mismatch) for the closures of get_propagators / get_propagator_derivatives evaluated in
    decreasing and random order of the step on plateau tables"""
    out = []
    for M, n in ([(1, 4), (2, 3)] if tier == "quick" else [(1, 4), (2, 3), (2, 6), (1, 3)]):
        params = plateau_table(r, n, M)
        orders = {"decreasing": list(range(n - 1, -1, -1)),
                  "random": r.sample(range(n), n) + r.sample(range(n), n)}
        for oname, order in orders.items():
            fac = lambda M=M: make_real_system(M, "param", [0.5, 0.2, 0.1], derivs="frechet")
            out.append(("closure-order:get_propagators:M=%d:N=%d:order=%s" % (M, n, oname),
                        closure_order_mismatch(fac, DT, params, n, order),
                        {"parameters": params.tolist(), "order": order, "dt": DT}))
            out.append(("closure-order:get_propagator_derivatives(user-supplied):M=%d:N=%d:order=%s"
                        % (M, n, oname),
                        closure_order_mismatch(fac, DT, params, n, order, derivatives=True),
                        {"parameters": params.tolist(), "order": order, "dt": DT}))
        if M == 1:
            fac = lambda M=M: make_real_system(M, "param", [0.5, 0.2, 0.1], derivs="numdiff")
            order = list(range(n - 1, -1, -1))
            out.append(("closure-order:get_propagator_derivatives(numdifftools):M=%d:N=%d:order=decreasing"
                        % (M, n),
                        closure_order_mismatch(fac, DT, params, n, order, derivatives=True),
                        {"parameters": params.tolist(), "order": order, "dt": DT}))
    return out


def plateau_cases(rng, tier):
    """plateau tables through numdifftools and user-supplied derivatives; the model's P, P' come from
    fresh objects queried once per step (so they cannot depend on the order of evaluation)"""
    out = []
    for M, n, derivs in ([(1, 3, "numdiff"), (2, 4, "frechet")] if tier == "quick" else
                         [(1, 3, "numdiff"), (2, 4, "frechet"), (2, 3, "numdiff"), (1, 4, "frechet")]):
        params = plateau_table(rng, n, M)
        used = make_real_system(M, "param", [0.5, 0.2, 0.1], derivs=derivs)
        props, dprops = [], []
        for k in range(n):
            fresh = make_real_system(M, "param", [0.5, 0.2, 0.1], derivs="frechet")
            props.append(fresh.get_propagators(DT, params)(k))
            dprops.append(fresh.get_propagator_derivatives(DT, params)(k))
        pts = [rand_pt(rng, n, rand_bonds(rng, n, 2))]
        out.append(dict(desc={"E": 1, "N": n, "M": M, "bonds": "rand<=2", "pt_kinds": ["random"],
                              "system": "real-param-dissipator-" + ("numdifftools" if derivs == "numdiff"
                                                                    else "user-derivs"),
                              "target": "array", "table": "plateaus with switches"},
                        pts=pts, n=n, M=M, rho0=_grid(rng, (2, 2), 8), tgt=_grid(rng, (2, 2), 8),
                        system=used, params=params, props=props, dprops=dprops, grad_rtol=1e-6))
    return out


def special_cases(rng, tier):
    """numerically differentiated derivatives at special parameter tables; the model's P, P' come
    from a fresh object with user-supplied (Frechet) derivatives at the same values as float64"""
    out = []
    for name, M, n, params in special_tables(tier):
        used = make_real_system(M, "pulse", [0.5, 0.2, 0.1], derivs="numdiff")
        fresh = make_real_system(M, "pulse", [0.5, 0.2, 0.1], derivs="frechet")
        p64 = np.array(params, dtype=np.float64)
        pf, df = fresh.get_propagators(DT, p64), fresh.get_propagator_derivatives(DT, p64)
        pts = [rand_pt(rng, n, rand_bonds(rng, n, 2))]
        out.append(dict(desc={"E": 1, "N": n, "M": M, "bonds": "rand<=2", "pt_kinds": ["random"],
                              "system": "bare-drive-numdifftools", "target": "array",
                              "table": name, "dtype": str(params.dtype)},
                        pts=pts, n=n, M=M, rho0=_grid(rng, (2, 2), 8), tgt=_grid(rng, (2, 2), 8),
                        system=used, params=params, props=[pf(k) for k in range(n)],
                        dprops=[df(k) for k in range(n)], grad_rtol=1e-6))
    return out


def reuse_cases(rng, M, coeffs=(0.5, 0.2, 0.1)):
    used = make_real_system(M, "param", list(coeffs), derivs="numdiff")
    shared = [round(rng.uniform(-1, 1), 3) for _ in range(M)]
    out = []
    for call, (dt, n) in enumerate(REUSE_CALLS):
        params = np.array([[rng.uniform(-1, 1) for _ in range(M)] for _ in range(2 * n)])
        params[0] = shared                   # the same control values occur in both calls
        params[-1] = shared
        if M >= 2:
            # "mixed" steps: some parameter columns are held over the whole step, others change
            # at the half step (a detuning held constant, a drive that changes mid-step)
            for k in range(n):
                if not np.array_equal(params[2 * k], params[2 * k + 1]):
                    col = rng.randrange(M)
                    if 2 * k + 1 == 2 * n - 1:
                        params[2 * k, col] = params[2 * k + 1, col]
                    else:
                        params[2 * k + 1, col] = params[2 * k, col]
        fresh = make_real_system(M, "param", list(coeffs), derivs="frechet")
        pf, df = fresh.get_propagators(dt, params), fresh.get_propagator_derivatives(dt, params)
        E = 1 + call % 2
        pts = [rand_pt(rng, n, rand_bonds(rng, n, 2), dt=dt) for _ in range(E)]
        out.append(dict(desc={"E": E, "N": n, "M": M, "bonds": "rand<=2", "pt_kinds": ["random"] * E,
                              "system": "reused-object-numdifftools", "target": "array",
                              "call": call, "dt": dt,
                              "table": "mixed held/changing columns" if M >= 2 else "random"},
                        pts=pts, n=n, M=M, rho0=_grid(rng, (2, 2), 8), tgt=_grid(rng, (2, 2), 8),
                        system=used, params=params, props=[pf(k) for k in range(n)],
                        dprops=[df(k) for k in range(n)], grad_rtol=1e-6))
    return out


def correspondence(res, tier, rng):
    ncase = 18 if tier == "quick" else 150
    cases = [gen_case(rng, tier, i) for i in range(ncase)]
    # ONE ParameterizedSystem object used for two calls with different dt / num_steps (the library's
    # numerically differentiated derivatives); expected propagators and derivatives come from a
    # fresh object (user-supplied Frechet derivatives), so a result that depends on the object's
    # history shows up as a disagreement
    for M in ([2] if tier == "quick" else [1, 2, 3]):
        cases += reuse_cases(rng, M)
    cases += special_cases(rng, tier)
    cases += plateau_cases(rng, tier)
    # the closures must not depend on the order in which the steps are requested
    for key, err, info in closure_order_checks(rng, tier):
        res.count("closure-order")
        res.case(key, True)
        if not err <= 1e-13:
            res.disagree("%s: differs from a fresh object by %g" % (key, err), dict(info, key=key))
    # cases through the library's own numerically differentiated propagator derivatives
    nd = 0 if tier == "quick" else 4
    for j in range(nd):
        M = 1 + j % 3
        n = 1 if tier == "quick" else 1 + j % 2
        system = make_real_system(M, "param", [0.5, 0.2, 0.1], derivs="numdiff")
        params = np.array([[rng.uniform(-1, 1) for _ in range(M)] for _ in range(2 * n)])
        E = 1 + j % 2
        pts = [rand_pt(rng, n, rand_bonds(rng, n, 2)) for _ in range(E)]
        pf, df = system.get_propagators(DT, params), system.get_propagator_derivatives(DT, params)
        cases.append(dict(desc={"E": E, "N": n, "M": M, "bonds": "rand<=2", "pt_kinds": ["random"] * E,
                                "system": "real-param-dissipator-numdifftools", "target": "array"},
                          pts=pts, n=n, M=M, rho0=_grid(rng, (2, 2), 8), tgt=_grid(rng, (2, 2), 8),
                          system=system, params=params, props=[pf(k) for k in range(n)],
                          dprops=[df(k) for k in range(n)]))
    lines, reals = ["wiring"], []
    for c in cases:
        if c.get("callable_target"):
            # the weights `tgt` define Z = 1/2 sum w rho^2; the model receives the array the
            # callable returned for the final state (the code evaluates it exactly once)
            real = run_real(c["system"], c["rho0"], quadratic_target(c["tgt"]), c["pts"], c["params"])
            if len(real["used_target"]) != 1:
                res.disagree("callable target_derivative evaluated %d times" % len(real["used_target"]),
                             c["desc"])
                continue
            want = np.array(c["tgt"]).reshape(-1) * real["final_state"]
            if np.abs(real["used_target"][0].reshape(-1) - want).max() > 1e-12:
                res.disagree("callable target_derivative was not evaluated at the final state", c["desc"])
            tgt_used = real["used_target"][0]
        else:
            real = run_real(c["system"], c["rho0"], c["tgt"].copy(), c["pts"], c["params"])
            tgt_used = c["tgt"]
        reals.append(real)
        lines.append(model_line(c["pts"], c["n"], c["M"], c["rho0"], tgt_used, c["props"], c["dprops"]))
    out = fw.run_driver(PID, lines)
    if len(out) != len(lines):
        raise fw.Infra("driver returned %d lines for %d inputs" % (len(out), len(lines)))
    res.notes.append("regenerated wiring: " + out[0])
    for c, real, line in zip(cases, reals, out[1:]):
        d = c["desc"]
        if line == "bad-op":
            raise fw.Infra("driver C08 rejected a case: %r" % d)
        m = parse_model(line)
        n, M = c["n"], c["M"]
        errs = {
            "states": maxdiff(real["states"], m["states"]),
            "forward_tensors": maxdiff(real["fwd"], m["fwd"]),
            "backward_tensors": maxdiff(real["bwd"], m["bwd"]),
            "adjoint_tensors": maxdiff(real["gradprop"], m["gradprop"]),
            "gradient": maxdiff([real["gradient"][r] for r in range(2 * n)], m["gradient"]),
        }
        for k in ("E", "N", "M", "system", "target"):
            res.count("%s=%s" % (k, d[k]))
        for kind in d["pt_kinds"]:
            res.count("pt=%s" % kind)
        key = json.dumps(d, sort_keys=True, default=str)
        res.case(key, d["E"] == 2 or d["N"] > 1, {"case": d, "max_abs_difference": errs})
        if real["n_replicated"] != 2 * n + 1:
            res.disagree("compute_gradient_and_dynamics copied %d nodes, the modelled loops copy %d"
                         % (real["n_replicated"], 2 * n + 1), d)
        if "grad_rtol" in c:
            # derivatives: numdifftools (real call) vs Frechet (model input) -- not exact
            scale = max(float(max(np.abs(g).max() for g in m["gradient"])), 1e-12)
            if not errs["gradient"] <= c["grad_rtol"] * scale:
                res.disagree("real gradient of call %s on a re-used system object differs from the "
                             "model by %g (relative %g)" % (d.get("call"), errs["gradient"],
                                                            errs["gradient"] / scale),
                             {"case": d, "what": "gradient", "difference": errs["gradient"]})
            errs = {k: v for k, v in errs.items() if k != "gradient"}
        for what, e in errs.items():
            if not e <= TOL:
                res.disagree("real %s differ from the model by %g" % (what, e),
                             {"case": d, "what": what, "difference": e})


# ---------------------------------------------------------------------------
# search: finite differences of the forward dynamics
# ---------------------------------------------------------------------------

def forward_objective(M, dissipator, coeffs, params, pts, rho0, tgt, n, quadratic=False, dt=DT):
    import oqupy
    system = piecewise_system(M, dissipator, coeffs, params, dt=dt)
    dyn = oqupy.compute_dynamics(system, initial_state=np.array(rho0), process_tensor=list(pts),
                                 dt=dt, num_steps=n, start_time=0.0, subdiv_limit=None,
                                 progress_type="silent")
    if quadratic:
        z = quadratic_objective(tgt, dyn.states[-1])
    else:
        z = np.sum(np.array(tgt).reshape(-1) * np.array(dyn.states[-1]).reshape(-1))
    return z, dyn


def fd_oracle(spec, pts, rho0, tgt, params, derivs="frechet", h=1e-5, quadratic=False,
              system=None, layout=None):
    """returns (relative gradient error per half step, dynamics error, details);
    `quadratic`: objective 1/2 sum tgt_ij rho_ij^2 through a callable target_derivative;
    `system`: an existing (possibly already used) ParameterizedSystem built from `spec`;
    the time step is that of the process tensors"""
    import oqupy.gradient as G
    M, dissipator, coeffs = spec
    n = len(pts[0])
    dt = pts[0].dt
    if system is None:
        system = make_real_system(M, dissipator, coeffs, derivs=derivs)
    r = G.state_gradient(system=system, initial_state=np.array(rho0),
                         target_derivative=(quadratic_target(tgt) if quadratic
                                            else (np.asfortranarray(np.array(tgt)) if layout == "F"
                                                  else np.array(tgt).copy())),
                         process_tensors=list(pts),
                         parameters=np.array(params), progress_type="silent")
    grad = np.array(r["gradient"])
    z0, dyn = forward_objective(M, dissipator, coeffs, params, pts, rho0, tgt, n, quadratic, dt)
    fd = np.zeros(grad.shape, dtype=complex)    # NOT zeros_like: the gradient's dtype is under test
    for k in range(2 * n):
        for j in range(M):
            p = np.array(params, dtype=float)
            p[k, j] += h
            zp, _ = forward_objective(M, dissipator, coeffs, p, pts, rho0, tgt, n, quadratic, dt)
            p[k, j] -= 2 * h
            zm, _ = forward_objective(M, dissipator, coeffs, p, pts, rho0, tgt, n, quadratic, dt)
            fd[k, j] = (zp - zm) / (2 * h)
    scale = max(np.abs(fd).max(), 1e-12)
    rel = np.abs(grad - fd).max(axis=1) / scale
    dyn_err = maxdiff([np.array(s).reshape(-1) for s in r["dynamics"].states],
                      [np.array(s).reshape(-1) for s in dyn.states])
    fin_err = float(np.abs(np.array(r["final_state"]) - np.array(dyn.states[-1])).max())
    return rel, max(dyn_err, fin_err), {"gradient": grad, "finite_difference": fd}


def tempo_pts(couplings, n, epsrel=1e-7):
    """tiny PT-TEMPO process tensors, one per coupling operator"""
    import oqupy
    from . import oq
    out = []
    for cpl in couplings:
        bath = oq.cheap_bath(cpl)
        par = oqupy.TempoParameters(dt=DT, epsrel=epsrel, dkmax=2)
        out.append(oqupy.pt_tempo_compute(bath=bath, start_time=0.0, end_time=(n + 0.5) * DT,
                                          parameters=par, progress_type="silent"))
    return out


def _cplx(a):
    return [[[float(np.real(z)), float(np.imag(z))] for z in row] for row in np.atleast_2d(a)]


def judge(res, key, spec, pts, rho0, tgt, params, ptdesc, derivs="frechet", system=None,
          history=None):
    quadratic = ":target=callable" in key
    rel, dyn_err, det = fd_oracle(spec, pts, rho0, tgt, params, derivs, quadratic=quadratic,
                                  system=system, layout="F" if ":target-layout=F" in key else None)
    bad = [int(k) for k in np.nonzero(rel > FD_RTOL)[0]]
    ok = True
    if bad:
        ok = False
        res.fail(key, {
            "api": "oqupy.state_gradient", "what": "gradient differs from the central finite "
            "difference of the forward dynamics (compute_dynamics, piecewise-constant controls)",
            "environments": ptdesc, "system": {"M": spec[0], "dissipator": spec[1], "coeffs": spec[2],
                                               "propagator_derivatives": derivs},
            "parameters": np.array(params).tolist(), "parameters_dtype": str(np.array(params).dtype),
            "dt": pts[0].dt, "num_steps": len(pts[0]),
            "earlier_calls_on_the_same_system_object": history or [],
            "initial_state": _cplx(rho0),
            "target_derivative": ("callable rho -> W*rho (objective 1/2 sum W rho^2), W below"
                                  if quadratic else "the array below" + (
                                      " in Fortran memory order (e.g. a transposed view)"
                                      if ":target-layout=F" in key else "")),
            "target_array": _cplx(tgt),
            "half_steps_off": bad, "relative_error_per_half_step": [float(x) for x in rel],
            "gradient": _cplx(det["gradient"]), "finite_difference": _cplx(det["finite_difference"]),
            "tolerance": FD_RTOL})
    if dyn_err > 1e-9:
        ok = False
        res.fail(key + ":dynamics", {
            "api": "oqupy.state_gradient", "what": "reported dynamics differ from compute_dynamics "
            "with the same piecewise-constant controls", "environments": ptdesc,
            "max_state_difference": dyn_err, "parameters": np.array(params).tolist()})
    return ok


SEARCH_PTS = {
    "tempo:z": lambda n: tempo_pts([2.0 * _pauli()[1]], n),
    "tempo:z+x": lambda n: tempo_pts([2.0 * _pauli()[1], 2.0 * _pauli()[0]], n),
    "tempo:x+z": lambda n: tempo_pts([2.0 * _pauli()[0], 2.0 * _pauli()[1]], n),
    "tempo:z+z": lambda n: tempo_pts([2.0 * _pauli()[1], 1.0 * _pauli()[1]], n),
}


def search_cases(seed, count):
    """deterministic list of (key, builder) pairs for the finite-difference oracle"""
    rng = random.Random(seed + 808)
    out = []
    # PT-TEMPO process tensors: one bath, two non-commuting baths (both orders), two commuting
    for name, n, M, dis in [("tempo:z+x", 2, 1, "none"), ("tempo:x+z", 3, 2, "param"),
                            ("tempo:z", 2, 2, "const"), ("tempo:z+z", 2, 3, "param"),
                            ("tempo:z+x", 3, 3, "const")]:
        out.append(("fd:%s:N=%d:M=%d:dissipator=%s" % (name, n, M, dis), name, n, M, dis, None))
    out.append(("fd:tempo:x+z:N=2:M=2:dissipator=param:target=callable", "tempo:x+z", 2, 2, "param", None))
    out.append(("fd:tempo:z:N=2:M=1:dissipator=const:nonhermitian", "tempo:z", 2, 1, "const", None))
    out.append(("fd:tempo:z+x:N=2:M=2:dissipator=param:nonhermitian", "tempo:z+x", 2, 2, "param", None))
    # hand-built random process tensors (strongly non-commuting)
    for i in range(count):
        E = 2 if i % 4 else 1
        n = 1 + i % 3
        M = 1 + (i // 2) % 3
        dis = ["none", "const", "param"][i % 3]
        bonds = [rand_bonds(rng, n, 2) for _ in range(E)]
        out.append(("fd:random-pt:E=%d:N=%d:M=%d:dissipator=%s:bonds=%s#%d%s%s"
                    % (E, n, M, dis, "/".join("".join(map(str, b)) for b in bonds), i,
                       ":target=callable" if i % 5 == 4 else "",
                       ":nonhermitian" if i % 3 == 0 else ""),
                    "random", n, M, dis, (bonds, rng.randrange(1 << 30))))
    return out


def build_search_case(item):
    key, name, n, M, dis, extra = item
    rng = random.Random(hash_key(key))
    if name == "random":
        bonds, s = extra
        r2 = random.Random(s)
        pts = [rand_pt(r2, n, b) for b in bonds]
        ptdesc = {"kind": "hand-built random rank-4 MPOs on the lattice (Z+iZ)*0.75/8",
                  "bonds": bonds, "rng_seed": s}
    else:
        pts = SEARCH_PTS[name](n)
        ptdesc = {"kind": "PT-TEMPO, dkmax=2, epsrel=1e-7, correlations of harness/oq.py, coupling "
                          "operators 2*sigma (second z bath: 1*sigma_z), in list order",
                  "couplings": name}
    coeffs = [0.5, 0.2, 0.1]
    params = [[round(rng.uniform(-1.2, 1.2), 3) for _ in range(M)] for _ in range(2 * n)]
    rho0 = np.array([[0.75, 0.25 - 0.125j], [0.25 + 0.125j, 0.25]])
    tgt = np.array([[0.5, 0.5j], [-0.5j, 0.5]]) if n % 2 else np.array([[0.25, 0.5], [0.125, 0.75]])
    if ":nonhermitian" in key:
        # complex non-Hermitian target derivative (Z = rho_01-like) and/or initial "state"
        tgt = np.array([[0.0, 1.0], [0.0, 0.0]]) if M % 2 else np.array([[0.25j, 0.5 - 0.25j], [0.125, 0.75]])
        if n % 2 == 0:
            rho0 = np.array([[0.5, 0.25 + 0.125j], [0.125j, 0.5 - 0.25j]])
    return (M, dis, coeffs), pts, rho0, tgt, params, ptdesc


def hash_key(key):
    import hashlib
    return int(hashlib.sha1(key.encode()).hexdigest()[:8], 16)


def search(res):
    n_random = 10 if res.tier == "quick" else 40
    for item in search_cases(res.seed, n_random):
        spec, pts, rho0, tgt, params, ptdesc = build_search_case(item)
        judge(res, item[0], spec, pts, rho0, tgt, params, ptdesc)
    # the library's own numerically differentiated propagator derivatives, one tiny case
    item = ("fd:random-pt:numdifftools:E=2:N=1:M=1", "random", 1, 1, "param", ([[1, 1], [1, 1]], 7))
    spec, pts, rho0, tgt, params, ptdesc = build_search_case(item)
    judge(res, item[0], spec, pts, rho0, tgt, params, ptdesc, derivs="numdiff")
    # the target derivative in a non-C memory layout (same values): a non-symmetric complex target
    item = ("fd:random-pt:E=1:N=2:M=1:dissipator=none:target-layout=F", "random", 2, 1, "none", ([[1, 2, 1]], 11))
    try:
        spec, pts, rho0, tgt, params, ptdesc = build_search_case(item)
        tgt = np.array(tgt, dtype=complex) + np.array([[0.0, 0.7 - 0.3j], [-0.2 + 0.5j, 0.1]])
        judge(res, item[0], spec, pts, rho0, tgt, params, ptdesc)
    except Exception as e:      # noqa: BLE001
        res.notes.append("search: layout case raised %r" % e)
    reuse_search(res)
    for key in MIXED_KEYS:
        mixed_search(res, key)
    for key in SPECIAL_KEYS:
        special_search(res, key)
    for key in PLATEAU_KEYS:
        plateau_search(res, key)
    closure_order_search(res)


MIXED_KEYS = ["fd:mixed-table:numdifftools:M=2:N=2", "fd:mixed-table:numdifftools:M=3:N=1",
              "fd:mixed-table:user-derivs:M=2:N=2", "fd:mixed-table:user-derivs:M=3:N=2"]


PLATEAU_KEYS = ["fd:plateau-table:numdifftools:M=1:N=4", "fd:plateau-table:numdifftools:M=2:N=3",
                "fd:plateau-table:user-derivs:M=2:N=6", "fd:plateau-table:user-derivs:M=1:N=3"]


def plateau_search(res, key):
    """piecewise-constant pulses with plateaus (>= 2 half steps) and switches at step boundaries and
    mid-step; finite differences of the objective"""
    parts = dict(x.split("=") for x in key.split(":") if "=" in x)
    M, n = int(parts["M"]), int(parts["N"])
    derivs = "numdiff" if "numdifftools" in key else "frechet"
    r = random.Random(hash_key(key))
    spec = (M, "param", [0.5, 0.2, 0.1])
    params = plateau_table(r, n, M)
    pts = [rand_pt(r, n, rand_bonds(r, n, 2))]
    rho0 = np.array([[0.75, 0.25 - 0.125j], [0.25 + 0.125j, 0.25]])
    tgt = np.array([[0.5, 0.25 + 0.5j], [0.125, 0.5]])
    ptdesc = {"kind": "hand-built random rank-4 MPOs, random.Random(hash of the key) stream",
              "parameter_table": "plateaus of >= 2 half steps with switches"}
    return judge(res, key, spec, pts, rho0, tgt, params, ptdesc, derivs=derivs)


def closure_order_search(res, only=None):
    """direct oracle on the closures: props(k) / derivs(k) requested in decreasing / random order of
    k equal the values of a fresh object (1e-13)"""
    ok = True
    for key, err, info in closure_order_checks(random.Random(1212), "quick"):
        if only is not None and key != only:
            continue
        if not err <= 1e-13:
            ok = False
            res.fail(key, dict(info, api="ParameterizedSystem." + key.split(":")[1].split("(")[0],
                               what="the closure's value for a step depends on which steps were "
                                    "requested before (differs from a fresh object)",
                               max_difference=err, system="harness real_system_parts(M, 'param', "
                                                          "[0.5, 0.2, 0.1])"))
    return ok


SPECIAL_KEYS = ["fd:special-table:numdifftools:zero-pulse:M=1:N=2",
                "fd:special-table:numdifftools:zero-ends:M=2:N=2",
                "fd:special-table:numdifftools:int-ones:M=1:N=1",
                "fd:special-table:numdifftools:int-zeros-ones:M=2:N=1",
                "fd:special-table:numdifftools:float32:M=1:N=1",
                "fd:special-table:user-derivs:int-ones:M=2:N=1",
                "fd:special-table:user-derivs:zero-pulse:M=1:N=2"]


def special_search(res, key):
    """bare-drive Hamiltonian (propagator real at x0 = 0, derivative imaginary) at parameter tables
    with exact zeros, and parameter arrays of integer / float32 dtype: finite differences of the
    objective, and the same values passed as float64"""
    import oqupy.gradient as G
    parts = dict(x.split("=") for x in key.split(":") if "=" in x)
    M, n = int(parts["M"]), int(parts["N"])
    kind = key.split(":")[3]
    derivs = "numdiff" if "numdifftools" in key else "frechet"
    r = random.Random(hash_key(key))
    if kind == "zero-pulse":
        params = np.zeros((2 * n, M))
    elif kind == "zero-ends":
        params = np.array([[round(r.uniform(-1, 1), 3) for _ in range(M)] for _ in range(2 * n)])
        params[0, 0] = 0.0
        params[-1, 0] = 0.0
    elif kind == "int-ones":
        params = np.ones((2 * n, M), dtype=int)
    elif kind == "int-zeros-ones":
        params = np.array([[(k + j) % 2 for j in range(M)] for k in range(2 * n)], dtype=int)
    elif kind == "float32":
        params = np.array([[r.randrange(-8, 9) / 8.0 for _ in range(M)] for _ in range(2 * n)],
                          dtype=np.float32)
    else:
        res.notes.append("no special table %r" % kind)
        return None
    spec = (M, "pulse", [0.5, 0.2, 0.1])
    pts = [rand_pt(r, n, rand_bonds(r, n, 2))]
    rho0 = np.array([[0.75, 0.25 - 0.125j], [0.25 + 0.125j, 0.25]])
    tgt = np.array([[0.5, 0.25 + 0.5j], [0.125, 0.5]])
    ptdesc = {"kind": "hand-built random rank-4 MPOs, random.Random(hash of the key) stream",
              "hamiltonian": "0.5*x0*sigma_x (+ 0.5*x1*sigma_y + 0.25*x2*sigma_y), no dissipator",
              "parameter_table": kind, "parameters_dtype": str(params.dtype)}
    ok = judge(res, key, spec, pts, rho0, tgt, params, ptdesc, derivs=derivs)
    if params.dtype != np.float64:
        # the same values as float64 must give the same gradient
        g = []
        for p in (params, np.array(params, dtype=np.float64)):
            system = make_real_system(M, "pulse", spec[2], derivs=derivs)
            rr = G.state_gradient(system=system, initial_state=rho0.copy(), target_derivative=tgt.copy(),
                                  process_tensors=list(pts), parameters=p, progress_type="silent")
            g.append(np.array(rr["gradient"], dtype=complex))
        diff = float(np.abs(g[0] - g[1]).max())
        if diff > FD_RTOL * max(float(np.abs(g[1]).max()), 1e-12):
            ok = False
            res.fail(key + ":vs-float64", {
                "api": "oqupy.state_gradient", "what": "the gradient changes when the same parameter "
                "values are passed as float64 instead of %s" % params.dtype, "environments": ptdesc,
                "parameters": params.tolist(), "parameters_dtype": str(params.dtype),
                "gradient": _cplx(g[0]), "gradient_float64": _cplx(g[1]), "max_difference": diff})
    return ok


def mixed_table(r, n, M):
    """per step: at least one parameter column held over the step, at least one changing mid-step"""
    params = [[round(r.uniform(-1, 1), 3) for _ in range(M)] for _ in range(2 * n)]
    for k in range(n):
        held = r.sample(range(M), r.randrange(1, M))
        for c in held:
            params[2 * k + 1][c] = params[2 * k][c]
    return params


def mixed_search(res, key):
    """parameter tables in which, per step, some columns are constant over the step and others change
    at the half step; numerically differentiated derivatives and the user-supplied variant"""
    parts = dict(x.split("=") for x in key.split(":") if "=" in x)
    M, n = int(parts["M"]), int(parts["N"])
    derivs = "numdiff" if "numdifftools" in key else "frechet"
    r = random.Random(hash_key(key))
    spec = (M, "param", [0.5, 0.2, 0.1])
    params = mixed_table(r, n, M)
    pts = [rand_pt(r, n, rand_bonds(r, n, 2))]
    rho0 = np.array([[0.75, 0.25 - 0.125j], [0.25 + 0.125j, 0.25]])
    tgt = np.array([[0.5, 0.25 + 0.5j], [0.125, 0.5]])
    ptdesc = {"kind": "hand-built random rank-4 MPOs, random.Random(hash of the key) stream",
              "parameter_table": "mixed: per step some columns held, others change at the half step"}
    return judge(res, key, spec, pts, rho0, tgt, params, ptdesc, derivs=derivs)


def reuse_search(res, only=None):
    """ONE ParameterizedSystem (numdifftools derivatives) used for consecutive state_gradient calls
    with process tensors of different dt and length; every call is judged on its own"""
    M, spec = 1, (1, "param", [0.5, 0.2, 0.1])
    system = make_real_system(M, spec[1], spec[2], derivs="numdiff")
    r = random.Random(4242)
    shared = [0.4]
    history, ok = [], None
    for call, (dt, n) in enumerate(REUSE_CALLS):
        key = "fd:reuse-system:numdifftools:call=%d:dt=%s:N=%d:M=%d" % (call, dt, n, M)
        params = [[round(r.uniform(-1, 1), 3)] for _ in range(2 * n)]
        params[0] = list(shared)
        params[-1] = list(shared)
        pts = [rand_pt(r, n, rand_bonds(r, n, 2), dt=dt)]
        rho0 = np.array([[0.75, 0.25 - 0.125j], [0.25 + 0.125j, 0.25]])
        tgt = np.array([[0.5, 0.5j], [-0.5j, 0.5]])
        ptdesc = {"kind": "hand-built random rank-4 MPOs, random.Random(4242) stream", "dt": dt}
        ok_call = judge(res, key, spec, pts, rho0, tgt, params, ptdesc, derivs="numdiff",
                        system=system, history=list(history))
        if only is None or only == key:
            ok = ok_call if ok is None else (ok and ok_call)
        history.append({"dt": dt, "num_steps": n, "parameters": params})
    return ok


def replay_one(res, payload):
    """re-judge a recorded failing input (corpus/C08/*.json, --replay) on the tree under test"""
    key = payload.get("key", "")
    fi = payload.get("failing_input", {})
    if key.startswith("closure-order:"):
        return closure_order_search(res, only=key)
    if not key.startswith("fd:"):
        res.notes.append("replay: no oracle for key %r" % key)
        return None
    base = key[:-len(":dynamics")] if key.endswith(":dynamics") else key
    if base.startswith("fd:reuse-system:"):
        return reuse_search(res, only=base)
    if base.startswith("fd:mixed-table:"):
        return mixed_search(res, base)
    if base.startswith("fd:plateau-table:"):
        return plateau_search(res, base)
    if base.startswith("fd:special-table:"):
        if base.endswith(":vs-float64"):
            base = base[:-len(":vs-float64")]
        return special_search(res, base)
    found = None
    for item in search_cases(payload.get("seed", res.seed), 40) + [
            ("fd:random-pt:numdifftools:E=2:N=1:M=1", "random", 1, 1, "param", ([[1, 1], [1, 1]], 7))]:
        if item[0] == base:
            found = item
    if found is None:
        res.notes.append("replay: key %r is not produced by the search generator" % key)
        return None
    spec, pts, rho0, tgt, params, ptdesc = build_search_case(found)
    if "parameters" in fi and np.array(fi["parameters"]).shape == np.array(params).shape:
        params = fi["parameters"]
    derivs = "numdiff" if "numdifftools" in base else "frechet"
    return judge(res, base, spec, pts, rho0, tgt, params, ptdesc, derivs)


def run(tier, seed, replay):
    res = fw.Result(PID, tier, seed, level="proof")
    rng = random.Random(seed)
    res.rule = ("hand-built random rank-4 process tensors (1 or 2 environments, bond dimensions 1-3, "
                "N = 1..3 steps, d = 2; dense, system-diagonal and identity-like tensors; entries on a "
                "dyadic lattice), M = 1..3 parameters, propagators and propagator derivatives either "
                "prescribed arrays or those of a real ParameterizedSystem (with and without "
                "parameter-dependent dissipators; user-supplied and numdifftools derivatives): the real "
                "state_gradient's recorded states, every stored forward tensor, every backward tensor, "
                "the adjoint tensors ('gradprop') and the final gradient vs the Lean model evaluated on "
                "the same inputs as exact Gaussian rationals; agreement to 1e-9.  Non-trivial = two "
                "environments or more than one step; distinct = distinct case description.")
    res.assumptions = [
        "tensornetwork: `a @ b` contracts exactly the connected edges and orders the remaining axes "
        "as (a's, then b's); `reorder_edges` permutes axes (pinned by the tensor-level correspondence)",
        "the objective is linear in the final state: Z = sum(target_derivative * final_state) "
        "(a callable target_derivative is evaluated once at the final state, as the code does)",
        "the last cap tensor of every process tensor is [1] (compute_caps guarantees it), so the "
        "final state and the tensor the backward pass starts from describe the same objective",
    ]
    res.not_shown = [
        "accuracy of the numerically differentiated propagator derivatives (numdifftools) and of "
        "scipy expm: they enter the model as given arrays P, P'",
        "three or more environments: the specification-layer theorems (adjoint_exact_*, "
        "dual_number_gradient_*) hold for any number through the combined tensor, but "
        "'code layer = specification layer' is proved for one and two environments",
        "controls passed to compute_gradient_and_dynamics (state_gradient never passes one): the "
        "statement order incl. the transposed controls is regenerated and pinned, not modelled",
        "TrivialProcessTensor (MPO tensor None) in the list: _apply_derivative_pt_mpos cannot handle it",
    ]
    fw.standard_pipeline(res, ["GradWiring"], THEOREMS)
    translated = all(o[1] for o in res.obligations if o[0].startswith("translator"))
    if replay:
        ok = replay_one(res, json.load(open(replay)))
        if res.failing:
            return fw.finish(res, None)
        fw.log("OK property=%s replay=%s %s" % (PID, replay, "no longer fails" if ok else "not judged"))
        return 0
    try:
        if translated:
            correspondence(res, tier, rng)
        else:
            res.notes.append("correspondence skipped: generated wiring unavailable")
    except fw.Infra as e:
        res.oblige("correspondence run", False, str(e))
    # corpus: past failing inputs must keep passing their oracle
    for f in sorted(glob.glob(os.path.join(fw.CORPUS, PID, "*.json"))):
        ok = replay_one(res, json.load(open(f)))
        res.count("corpus:%s" % ("passes" if ok else ("fails" if ok is False else "skipped")))
        if ok is not None:
            res.case("corpus:" + os.path.basename(f), True)
    return fw.finish(res, search)
