"""C01 — exactly solvable (commuting) models.  DESIGN.md §4 C01."""
import random
import numpy as np
from . import framework as fw
from .framework import rat, crat, parse_rat, parse_crat

PID = "C01"
THEOREMS = ["OQuPyVerif.Props.C01.commuting_collapse", "OQuPyVerif.Props.C01.prod_exp",
            "OQuPyVerif.Props.C01.decoherence_factor", "OQuPyVerif.Props.C01.full_memory_sum",
            "OQuPyVerif.Props.C01.cutoff_row_sum", "OQuPyVerif.Props.C01.infl_entry_is_model",
            "OQuPyVerif.Props.C01.infl_entry_diag_is_model", "OQuPyVerif.Props.C01.influence_args",
            "OQuPyVerif.Props.C01.tcut_general", "OQuPyVerif.Props.C01.dkmax_tcut",
            "OQuPyVerif.EtaCells.tiling", "OQuPyVerif.EtaCells.row_sum",
            "OQuPyVerif.EtaCells.row_sum_rect", "OQuPyVerif.PathSum.pathState_diag"]
BIG = 2.0 ** 1000      # stands for an infinite add_correlation_time on the Lean side


class StubCorr:
    """logs what influence_matrix asks for and answers with a fixed number"""
    def __init__(self, value):
        self.value, self.calls = value, []

    def correlation_2d_integral(self, delta, time_1, time_2=None, shape="square", epsrel=None,
                                **kw):
        self.calls.append((float(delta), float(time_1), None if time_2 is None else float(time_2),
                           shape))
        return self.value


def corr_influence_args(res, tier, rng):
    import oqupy
    from oqupy.tempo import influence_matrix
    n = 60 if tier == "quick" else 600
    lines, expect, meta = [], [], []
    for _ in range(n):
        dt = rng.choice([0.1, 0.05, 0.2, rng.uniform(0.01, 0.5)])
        kc = rng.randrange(1, 8)
        tau = rng.choice([None, 0.0, rng.uniform(0.0, 1.0), np.inf])
        dk = rng.choice([0, rng.randrange(1, 10), -rng.randrange(1, 10)])
        d = rng.choice([2, 3])
        o = np.array([rng.randrange(-4, 5) / 4 for _ in range(d)])
        par = oqupy.TempoParameters(dt=dt, epsrel=1e-6, dkmax=kc, add_correlation_time=tau)
        eta = complex(rng.randrange(-8, 9) / 16, rng.randrange(-8, 9) / 16)
        stub = StubCorr(eta)
        comm = (o[:, None] - o[None, :]).reshape(-1)
        acomm = (o[:, None] + o[None, :]).reshape(-1)
        infl = influence_matrix(dk, parameters=par, correlations=stub, coupling_acomm=acomm,
                                coupling_comm=comm)
        tau_s = "none" if tau is None else rat(BIG if tau == np.inf else tau)
        lines.append("inflargs %s %d %d %s" % (rat(dt), kc, dk, tau_s))
        if infl is None:
            expect.append("None")
        else:
            (delta, t1, t2, shape), = stub.calls
            assert delta == dt
            expect.append("%s %s %s" % (shape, rat(t1), "none" if t2 is None else rat(t2)))
        meta.append(("args", dk, kc, tau, dt))
        res.count("args:dk%s:tau=%s" % ("=0" if dk == 0 else (">0" if dk > 0 else "<0"),
                                        "none" if tau is None else ("inf" if tau == np.inf else "finite")))
        if infl is not None:
            lines.append("exponent %s %s %d | %s" % (rat(eta.real), rat(eta.imag), d,
                                                    " ".join(rat(x) for x in o)))
            expect.append(infl)
            meta.append(("entries", dk, d))
    # TempoParameters(tcut=...): the real conversion to dkmax vs the generated expression
    from decimal import Decimal
    ntc = 120 if tier == "quick" else 1500
    for _ in range(ntc):
        d_l = rng.choice(["0.04", "0.02", "0.3", "0.1", "0.05", "0.07", "0.025", "0.001", "0.35"])
        k = rng.randrange(0, 120)
        kind = rng.choice(["literal", "literal", "computed", "offgrid"])
        dt = float(d_l)
        if kind == "literal":
            tcut = float(Decimal(d_l) * k)
        elif kind == "computed":
            tcut = k * dt
        else:
            tcut = (k + rng.uniform(-0.45, 0.45)) * dt
            tcut = max(tcut, 0.0)
        par = oqupy.TempoParameters(dt=dt, epsrel=1e-6, tcut=tcut)
        lines.append("tcut %s %s" % (rat(tcut), rat(dt)))
        expect.append(str(par.dkmax))
        meta.append(("tcut", kind, tcut, dt))
        res.count("tcut:" + kind)
    out = fw.run_driver(PID, lines)
    for l, e, g, m in zip(lines, expect, out, meta):
        if m[0] == "tcut":
            res.case(l, True, None)
            if e != g:
                res.disagree("TempoParameters(tcut=%r, dt=%r).dkmax differs from the generated "
                             "expression" % (m[2], m[3]), {"line": l, "impl": e, "model": g})
            continue
        if m[0] == "args":
            res.case(l, True, {"op": l, "impl": e, "model": g})
            if e != g:
                res.disagree("influence_matrix arguments differ from the generated model",
                             {"line": l, "impl": e, "model": g})
        else:
            L = m[2] ** 2
            ex = np.array([parse_crat(t) for t in g.split()])
            model = np.exp(ex[:L * L].reshape(L, L)) if m[1] != 0 else np.diag(np.exp(ex[L * L:]))
            err = np.abs(model - e).max()
            res.case(l, True, None)
            if err > 1e-12:
                res.disagree("influence_matrix entries differ from exp(model exponent) by %g" % err,
                             {"line": l})


def commuting_case(rng, tier, force=None, force_shape=None):
    import oqupy
    from . import cases
    d = rng.choice([2, 2, 3] if tier == "quick" else [2, 3, 3, 4])
    n = rng.randrange(2, {2: 5, 3: 4, 4: 3}[d])
    ev = rng.sample([k / 4 for k in range(-6, 7)], d)
    rotated = rng.random() < 0.35
    if force_shape == "rotated":
        rotated = True
    elif force_shape == "repeated":
        # a repeated eigenvalue of the coupling operator (several index pairs share one class)
        d = 3
        n = min(n, 3)
        ev = [1.0, 1.0, 2.0]
    energies = [rng.uniform(-2, 2) for _ in range(d)]
    if force_shape == "repeated":
        # the Bath picks its own basis inside the degenerate eigenspace: keep H degenerate there
        # too, so that the propagators are diagonal in ANY eigenbasis of the coupling operator
        # (the hypothesis of commuting_collapse)
        energies[1] = energies[0]
    w = rng.uniform(0.5, 2.0)
    timedep = rng.random() < 0.3 and force_shape is None
    v = cases.rand_unitary(rng, d) if rotated else np.eye(d, dtype=complex)
    coupling = v @ np.diag(np.array(ev, dtype=complex)) @ v.conj().T
    if rotated:
        coupling = (coupling + coupling.conj().T) / 2
    hd = np.diag(np.array(energies, dtype=complex))
    h0 = v @ hd @ v.conj().T
    if timedep:
        system = oqupy.TimeDependentSystem(lambda t, h0=h0, w=w: (1.0 + 0.5 * np.cos(w * t)) * h0)
    else:
        system = oqupy.System(h0)
    dt = rng.choice([0.1, 0.05, 0.2])
    modes_eta = None
    if force in ("commensurate", "incommensurate") or (force is None and rng.random() < 0.35):
        # a bath of finitely many harmonic modes, given through its autocorrelation function;
        # every other case with frequencies commensurate with the time step
        from . import run_C12
        temp = rng.choice([0.0, 0.7, 2.0])
        unit = 2 * np.pi / dt
        if force == "commensurate" or (force is None and rng.random() < 0.5):
            # whole multiples of 2*pi/dt (Im C vanishes at every multiple of dt/2); when not
            # forced, half multiples occur too
            div = [1] if force == "commensurate" else [1, 2]
            modes = [(unit * rng.choice([1, 2]) / rng.choice(div), rng.uniform(0.1, 0.4))
                     for _ in range(rng.choice([1, 2]))]
            kind = "commensurate"
        else:
            modes = [(rng.uniform(0.5, 6.0), rng.uniform(0.1, 0.4)) for _ in range(rng.choice([1, 2, 3]))]
            kind = "incommensurate"
        f, eta_exact, _ = run_C12.mode_corr(modes, temp)
        corr = oqupy.CustomCorrelations(f)
        cdesc = ("modes", kind, [list(m) for m in modes], temp)
        modes_eta = eta_exact
    else:
        corr, cdesc = cases.rand_correlations(rng)
    dkmax, tau = cases.rand_memory(rng, n)
    if force is not None:
        dkmax, tau = None, None     # full memory: the analytic double integral applies
    start = rng.choice([0.0, 0.4, -1.0])
    rho0 = cases.rand_dm(rng, d)
    desc = {"d": d, "n": n, "eigenvalues": ev, "rotated": rotated, "timedep": timedep, "bath": cdesc,
            "dkmax": dkmax, "add_correlation_time": tau, "dt": dt, "start_time": start}
    return dict(d=d, n=n, coupling=coupling, correlations=corr, system=system, dkmax=dkmax, tau=tau,
                dt=dt, start=start, rho0=rho0, desc=desc, v=v, ev=ev, modes_eta=modes_eta)


def closed_form(case, tempo, s_list):
    """states 1..n from the theorem: rho0 * prod(P1 P2 diagonal entries) * decoherence factor"""
    d, n, v = case["d"], case["n"], case["v"]
    par = tempo._parameters
    props = tempo._system.get_propagators(par.dt, tempo._start_time, par.subdiv_limit,
                                          par.liouvillian_epsrel)
    u = tempo._bath.unitary_transform
    from oqupy import operators as op
    uout = op.left_right_super(u, u.conjugate().T)
    uin = op.left_right_super(u.conjugate().T, u)
    o = np.real(np.diag(tempo._bath.coupling_operator))
    om = (o[:, None] - o[None, :]).reshape(-1)
    opp = (o[:, None] + o[None, :]).reshape(-1)
    x = uin @ case["rho0"].reshape(-1)
    states = []
    free = np.ones(d * d, dtype=complex)
    for k in range(1, n + 1):
        p1, p2 = props(k - 1)
        p1e, p2e = uin @ p1 @ uout, uin @ p2 @ uout     # diagonal in the eigenbasis
        free = free * np.diag(p1e) * np.diag(p2e)
        s = s_list[k - 1]
        deco = np.exp(-om * (s.real * om + 1j * s.imag * opp))
        states.append(uout @ (x * free * deco))
    return states


def corr_closed_form(res, tier, rng):
    import oqupy
    from . import cases, tensors
    ncase = 6 if tier == "quick" else 40
    lines, meta = [], []
    for i in range(ncase):
        # the first two cases are always finite-mode baths (frequencies commensurate with the
        # time step, then incommensurate); the rest draw the bath kind at random
        case = commuting_case(rng, tier, force={0: "commensurate", 1: "incommensurate"}.get(i),
                              force_shape={3: "repeated", 5: "rotated"}.get(i))
        n = case["n"]
        t = cases.make_tempo(case, unique=bool(i % 2))
        par = t._parameters
        ids = tensors.needed_ids(case["dkmax"], case["tau"] is not None, n)
        etas = []
        for id_ in ids:
            stub = StubCorr(0j)
            from oqupy.tempo import influence_matrix
            influence_matrix(id_, parameters=par, correlations=stub, coupling_acomm=np.zeros(1),
                             coupling_comm=np.zeros(1))
            (delta, t1, t2, shape), = stub.calls
            etas.append((id_, t._correlations.correlation_2d_integral(
                delta=delta, time_1=t1, time_2=t2, shape=shape, epsrel=par.epsrel)))
        lines.append("ssum %s %d %d | %s" % ("none" if case["dkmax"] is None else case["dkmax"],
                                             int(case["tau"] is not None), n,
                                             " | ".join("%d %s" % (i_, crat(e)) for i_, e in etas)))
        if i == 2:
            # the documented way to continue a propagation: the closed form holds for the
            # states of both calls together
            t.compute(case["start"] + 1.5 * case["dt"], progress_type="silent")
        dyn = t.compute(cases.end_time(case), progress_type="silent")
        grid = [case["start"] + k * case["dt"] for k in range(n + 1)]
        if len(dyn.states) != n + 1 or np.abs(np.array(dyn.times) - np.array(grid)).max() > 1e-12:
            res.disagree("Tempo returned %d states for %d steps, times %s"
                         % (len(dyn.states), n, [float(x) for x in dyn.times]), case["desc"])
            lines.pop()
            continue
        pt = cases.make_pt(case, unique=bool(i % 2))
        pdyn = oqupy.compute_dynamics(case["system"], initial_state=case["rho0"], process_tensor=pt,
                                      start_time=case["start"], num_steps=n, progress_type="silent")
        meta.append((case, t, dyn, pdyn))
        res.count("closed:d=%d:rotated=%s:timedep=%s" % (case["d"], case["desc"]["rotated"],
                                                       case["desc"]["timedep"]))
        res.count("closed:memory=%s" % ("full" if case["dkmax"] is None else
                                        ("cut<n" if case["dkmax"] < n else "cut>=n")))
    out = fw.run_driver(PID, lines)
    for (case, t, dyn, pdyn), o in zip(meta, out):
        s_list = [parse_crat(x) for x in o.split()]
        cf = closed_form(case, t, s_list)
        e1 = max(np.abs(np.array(dyn.states[k + 1]).reshape(-1) - cf[k]).max() for k in range(case["n"]))
        e2 = max(np.abs(np.array(pdyn.states[k + 1]).reshape(-1) - cf[k]).max() for k in range(case["n"]))
        res.case(repr(case["desc"]), True, {"case": case["desc"], "Tempo_vs_closed_form": e1,
                                            "PT+compute_dynamics_vs_closed_form": e2})
        if case["modes_eta"] is not None and case["dkmax"] is None:
            # full memory has its documented meaning: S_n is the double time integral, known in
            # closed form for a finite-mode bath (Props.C01.full_memory_sum)
            s_exact = [complex(case["modes_eta"](k * case["dt"])) for k in range(1, case["n"] + 1)]
            cfx = closed_form(case, t, s_exact)
            e3 = max(np.abs(np.array(dyn.states[k + 1]).reshape(-1) - cfx[k]).max()
                     for k in range(case["n"]))
            res.count("closed:finite-mode-analytic")
            if e3 > 1e-7:
                res.disagree("Tempo differs from the independent-boson solution with the ANALYTIC "
                             "double integral of a finite-mode bath by %g (the eta cells returned by "
                             "correlation_2d_integral do not sum to the double integral)" % e3,
                             case["desc"])
        if e1 > 1e-8:
            res.disagree("Tempo differs from the closed form of commuting_collapse/decoherence_factor "
                         "by %g" % e1, case["desc"])
        if e2 > 1e-8:
            res.disagree("PT-TEMPO + compute_dynamics differs from the closed form by %g" % e2,
                         case["desc"])


def relations(res):
    """cheap relations between real runs of one commuting model (always run):
    (a) a very cold bath (cutoff/T far beyond the overflow guard of the thermal integrands) gives
        the zero-temperature dynamics up to O((T/cutoff)^2);
    (b) a System object used for a second run with another time step gives what a fresh System
        object gives."""
    import oqupy
    o = np.diag([1.0, 0.25, -0.5]).astype(complex)          # not symmetric about zero
    h = np.diag([0.3, -0.2, 0.7]).astype(complex)
    rho0 = np.full((3, 3), 1.0 / 3, dtype=complex)

    def run(temp, dt, system, steps):
        corr = oqupy.PowerLawSD(alpha=0.3, zeta=1.0, cutoff=3.0, cutoff_type="exponential",
                                temperature=temp)
        par = oqupy.TempoParameters(dt=dt, epsrel=1e-10, dkmax=None)
        t = oqupy.Tempo(system, oqupy.Bath(o, corr), par, rho0, start_time=0.0)
        return np.array(t.compute(steps * dt + dt / 4, progress_type="silent").states)

    sysm = oqupy.System(h)
    cold, zero = run(2.0e-3, 0.2, sysm, 4), run(0.0, 0.2, oqupy.System(h), 4)
    err = float(np.abs(cold - zero).max())
    res.case("relation:cold-bath", True, {"T": 2.0e-3, "difference_to_T=0": err})
    if err > 1e-5:
        res.fail("cold-bath:dynamics at T=2e-3 differ from T=0",
                 {"coupling_eigenvalues": [1.0, 0.25, -0.5], "alpha": 0.3, "cutoff": 3.0, "dt": 0.2,
                  "steps": 4, "difference": err})
    # (c) a finite memory means dkmax steps also when the first compute() call was shorter
    def run_cut(split):
        corr = oqupy.PowerLawSD(alpha=0.3, zeta=1.0, cutoff=3.0, cutoff_type="exponential",
                                temperature=0.0)
        par = oqupy.TempoParameters(dt=0.2, epsrel=1e-10, dkmax=4)
        t = oqupy.Tempo(oqupy.System(h), oqupy.Bath(o, corr), par, rho0, start_time=0.0)
        if split:
            t.compute(2 * 0.2 + 0.05, progress_type="silent")
        return np.array(t.compute(7 * 0.2 + 0.05, progress_type="silent").states)
    a, b = run_cut(True), run_cut(False)
    err = float(np.abs(a - b).max()) if a.shape == b.shape else float("inf")
    res.case("relation:continued-finite-memory", True, {"difference": err})
    if err > 1e-10:
        res.fail("memory-meaning:dkmax=4 with a first compute() of 2 steps, then continued",
                 {"dkmax": 4, "first_call_steps": 2, "total_steps": 7,
                  "difference_to_one_call": err})
    # (d) a convergence check: the same cell first with a coarse, then with a tight tolerance —
    #     the tight request must be integrated to ITS tolerance (closed form of the ohmic bath
    #     with exponential cutoff at T = 0: eta(t) = 2 alpha (ln(1 + i wc t) - i wc t))
    conv = oqupy.PowerLawSD(alpha=0.3, zeta=1.0, cutoff=30.0, cutoff_type="exponential", temperature=0.0)
    worst = 0.0
    for tt in (0.05, 0.7):
        conv.eta_function(tt, epsrel=1e-3)
        tight = conv.eta_function(tt, epsrel=1e-11)
        exact = 2 * 0.3 * (np.log(1 + 1j * 30.0 * tt) - 1j * 30.0 * tt)
        worst = max(worst, abs(tight - exact) / abs(exact))
    res.case("relation:coarse-then-tight", True, {"relative_error_of_the_tight_value": worst})
    if worst > 1e-9:
        res.fail("tolerance:a tight request after a coarse one on the same spectral density",
                 {"sequence": "eta_function(t, epsrel=1e-3); eta_function(t, epsrel=1e-11)",
                  "alpha": 0.3, "cutoff": 30.0, "relative_error_vs_closed_form": worst})
    # (e) the model only knows alpha * (eigenvalue differences)^2: a very weak bath (alpha = 1e-7)
    #     coupled through an operator of large norm (eigenvalues +-1000) decoheres like any other
    #     (cells that are tiny in absolute terms must still be integrated to the RELATIVE tolerance);
    #     closed form as in (d), times far beyond 1/cutoff (oscillatory frequency integrands)
    al, wc, dts, ns = 1e-7, 73.0, 0.1, 6
    weak = oqupy.PowerLawSD(alpha=al, zeta=1.0, cutoff=wc, cutoff_type="exponential", temperature=0.0)
    big = np.diag([1000.0, -1000.0]).astype(complex)
    hq = np.diag([0.3, -0.3]).astype(complex)
    r0 = np.array([[0.5, 0.5], [0.5, 0.5]], dtype=complex)
    parw = oqupy.TempoParameters(dt=dts, epsrel=1e-9, dkmax=None)
    tw = oqupy.Tempo(oqupy.System(hq), oqupy.Bath(big, weak), parw, r0, start_time=0.0)
    got_t = np.array(tw.compute(ns * dts + dts / 4, progress_type="silent").states)
    ptw = oqupy.pt_tempo_compute(bath=oqupy.Bath(big, weak), start_time=0.0, end_time=ns * dts + dts / 4,
                                 parameters=parw, progress_type="silent")
    got_p = np.array(oqupy.compute_dynamics(oqupy.System(hq), initial_state=r0, process_tensor=ptw,
                                            start_time=0.0, progress_type="silent").states)
    worst_w = 0.0
    for k in range(ns + 1):
        tk = k * dts
        eta = 2 * al * (np.log(1 + 1j * wc * tk) - 1j * wc * tk)
        c01 = 0.5 * np.exp(-0.6j * tk) * np.exp(-(2000.0 ** 2) * eta.real)
        for g in (got_t, got_p):
            worst_w = max(worst_w, abs(g[k][0, 1] - c01), abs(g[k][0, 0] - 0.5), abs(g[k][1, 1] - 0.5))
    res.case("relation:weak-bath-large-coupling-norm", True, {"alpha": al, "eigenvalues": [1000, -1000],
                                                              "deviation_from_closed_form": float(worst_w)})
    if worst_w > 1e-6:
        res.fail("scale:alpha=1e-7 with coupling eigenvalues +-1000 (ohmic, exponential cutoff, T=0)",
                 {"alpha": al, "cutoff": wc, "dt": dts, "steps": ns, "epsrel": 1e-9,
                  "coupling_eigenvalues": [1000.0, -1000.0],
                  "deviation_of_Tempo_or_PT_from_closed_form": float(worst_w)})
    again = run(0.0, 0.1, sysm, 8)            # the System object of the first run, half the step
    fresh = run(0.0, 0.1, oqupy.System(h), 8)
    err = float(np.abs(again - fresh).max())
    res.case("relation:system-reuse", True, {"second_dt": 0.1, "difference_to_fresh_System": err})
    if err > 1e-10:
        res.fail("system-reuse:same System object with a second time step",
                 {"first_dt": 0.2, "second_dt": 0.1, "difference_to_a_fresh_System_object": err})


def search(res):
    """independent-boson solution with the double integral done by direct quadrature"""
    import oqupy
    from scipy import integrate
    from . import cases, run_C12
    rng = random.Random(res.seed + 101)
    # (0) finite-mode baths given by their autocorrelation function: the cells must be the
    #     analytic integrals (also for frequencies commensurate with the cell size)
    for (label, d, modes, temp) in run_C12.mode_cases("quick", rng):
        for (shape, t1, t2) in run_C12.mode_cells(d, rng, 4):
            bad = run_C12.oracle_modes(label, d, modes, temp, shape, t1, t2)
            if bad is not None:
                res.fail("cells:" + run_C12.modes_key(label, shape), bad)
    # (0a) tcut written as the literal of k*dt means k memory steps
    from decimal import Decimal
    for d_l in ("0.04", "0.02", "0.3", "0.1", "0.07", "0.35"):
        for k in range(1, 200):
            tcut = float(Decimal(d_l) * k)
            got = oqupy.TempoParameters(dt=float(d_l), epsrel=1e-6, tcut=tcut).dkmax
            if got != k:
                res.fail("tcut:dt=%s tcut=%r" % (d_l, tcut),
                         {"dt": float(d_l), "tcut": tcut, "expected_dkmax": k, "got_dkmax": got})
                break
    # (0b) memory settings have their documented meaning: with dkmax*dt + add_correlation_time
    #      covering the whole run, a cut-off run must equal the full-memory run
    for i in range(4):
        case = commuting_case(rng, "quick")
        if case["n"] < 3:
            case["n"] = 3
        n, dt = case["n"], case["dt"]
        full = dict(case, dkmax=None, tau=None)
        # the last entry covers the run only just: (dkmax+1)*dt + tau >= n*dt > dkmax*dt + tau
        for (kc, tau) in [(1, (n + 1) * dt), (max(1, n - 2), n * dt), (1, np.inf),
                          (1, (n - 2) * dt + 0.25 * dt)]:
            cut = dict(case, dkmax=kc, tau=tau)
            a = cases.make_tempo(full, epsrel=1e-11).compute(cases.end_time(case), progress_type="silent").states
            b = cases.make_tempo(cut, epsrel=1e-11).compute(cases.end_time(case), progress_type="silent").states
            err = np.abs(np.array(a) - np.array(b)).max()
            if err > 1e-7:
                res.fail("memory-meaning:dkmax+add_correlation_time covering the run",
                         {"case": case["desc"], "dkmax": kc, "add_correlation_time": tau,
                          "difference_to_full_memory": err})
    for i in range(8):
        case = commuting_case(rng, "quick", force_shape={1: "rotated", 3: "repeated"}.get(i))
        case["dkmax"], case["tau"] = None, None
        if i == 5:
            # a very cold (but not zero-temperature) bath: cutoff / T far beyond the overflow guard
            # of the thermal integrands; eigenvalues not symmetric about zero
            case["correlations"] = oqupy.PowerLawSD(alpha=0.3, zeta=1.0, cutoff=3.0,
                                                    cutoff_type="exponential", temperature=2.0e-3)
            case["desc"]["bath"] = ("powerlaw", 0.3, 1.0, 3.0, "exponential", 2.0e-3)
        case["desc"]["dkmax"] = None
        corr = case["correlations"]
        n, dt, d = case["n"], case["dt"], case["d"]
        if case["desc"]["timedep"]:
            continue
        o = np.array(case["ev"])
        v = case["v"]
        h = v.conj().T @ case["system"].hamiltonian @ v
        en = np.real(np.diag(h))
        rho_e = v.conj().T @ case["rho0"] @ v
        unique = bool(i % 2)       # degeneracy reduction must not matter, also in rotated bases
        for api in ("tempo", "pt"):
            if api == "tempo":
                tobj = cases.make_tempo(case, unique=unique, epsrel=1e-10)
                if i % 4 == 2 and n >= 2:
                    # continued propagation: every returned (time, state) pair must follow the
                    # solution at ITS time
                    tobj.compute(case["start"] + 1.5 * dt, progress_type="silent")
                dyn_ = tobj.compute(cases.end_time(case), progress_type="silent")
                states = dyn_.states
                tl = [float(x) for x in dyn_.times]
                if len(tl) != n + 1 or max(abs(a - (case["start"] + k * dt)) for k, a in enumerate(tl)) > 1e-12:
                    res.fail("independent-boson:tempo:continued-propagation-times",
                             {"api": "tempo", "case": case["desc"], "times": tl,
                              "sequence": "compute(start + 1.5 dt); compute(end)"})
                    continue
            else:
                pt = cases.make_pt(case, unique=unique, epsrel=1e-10)
                states = oqupy.compute_dynamics(case["system"], initial_state=case["rho0"],
                                                process_tensor=pt, start_time=case["start"],
                                                progress_type="silent").states
            if api == "tempo" and i % 4 == 0 and not unique:
                # the same System object once more with half the time step (a convergence check):
                # its states at the common times must follow the same solution
                half = dict(case, dt=dt / 2, n=2 * n)
                st2 = cases.make_tempo(half, unique=False, epsrel=1e-10).compute(
                    cases.end_time(case), progress_type="silent").states
                if len(st2) >= 2 * n + 1:
                    states_half = [st2[2 * k] for k in range(n + 1)]
                else:
                    states_half = None
            else:
                states_half = None
            for k in range(1, n + 1):
                tk = k * dt
                re = integrate.dblquad(lambda y, x: np.real(corr.correlation(x - y)), 0, tk, 0,
                                       lambda x: x, epsrel=1e-8)[0]
                im = integrate.dblquad(lambda y, x: np.imag(corr.correlation(x - y)), 0, tk, 0,
                                       lambda x: x, epsrel=1e-8)[0]
                om = o[:, None] - o[None, :]
                opp = o[:, None] + o[None, :]
                want_e = rho_e * np.exp(-1j * (en[:, None] - en[None, :]) * tk) \
                    * np.exp(-om * (re * om + 1j * im * opp))
                want = v @ want_e @ v.conj().T
                if states_half is not None and np.abs(np.array(states_half[k]) - want).max() > 1e-5:
                    res.fail("independent-boson:tempo:same System object with a second time step",
                             {"api": "tempo", "case": case["desc"], "step": k, "second_dt": dt / 2,
                              "difference": float(np.abs(np.array(states_half[k]) - want).max())})
                    states_half = None
                err = np.abs(np.array(states[k]) - want).max()
                if err > 1e-5:
                    res.fail("independent-boson:%s%s" % (api, ":unique" if unique else ""),
                             {"api": api, "unique": unique, "case": case["desc"], "step": k,
                              "difference": err})
                    break


def run(tier, seed, replay):
    res = fw.Result(PID, tier, seed, level="proof")
    rng = random.Random(seed)
    res.rule = ("(1) influence_matrix called with a logging correlations stub for random (dk, dkmax, "
                "add_correlation_time in {None,0,finite,inf}, dt): (shape,time_1,time_2) vs the generated "
                "argument functions bit-exactly; entries vs exp of the generated exponent (1e-12). "
                "(2) commuting models (d 2..4, H diagonal in the coupling eigenbasis, constant or "
                "time-dependent, written in the eigenbasis or a random rotated basis, all memory settings, "
                "both unique settings): real Tempo and PT-TEMPO+compute_dynamics vs the closed form of "
                "commuting_collapse + decoherence_factor, with S_n summed in Lean from the real eta cells; "
                "forced shapes: finite-mode baths (commensurate / incommensurate, analytic double integral), "
                "repeated coupling eigenvalue, rotated basis, continued propagation.  (3) always-run "
                "relations between real runs: cold bath vs T=0, one System object with a second time "
                "step, a finite memory across continued calls.")
    res.assumptions = ["np.exp is a homomorphism (ExpHom hypothesis of decoherence_factor)",
                       "correlation_2d_integral returns the cell integrals (C12)"]
    res.not_shown = ["finite-mode bath with a non-commuting system equals explicit system+modes "
                     "evolution (Feynman–Vernon derivation; not formalised)",
                     "deviation bound in terms of epsrel/quadrature tolerances"]
    fw.standard_pipeline(res, ["InfluenceArgs"], THEOREMS)
    try:
        corr_influence_args(res, tier, rng)
        corr_closed_form(res, tier, rng)
        relations(res)
    except fw.Infra as e:
        res.oblige("correspondence run", False, str(e))
    return fw.finish(res, search)
