import importlib
import sys
from . import framework

def entry():
    if len(sys.argv) < 2:
        print("usage: ./check <Cxx> [--tier quick|thorough] [--replay f]")
        sys.exit(2)
    pid = sys.argv[1]
    mod = importlib.import_module("harness.run_" + pid)
    framework.main(pid, mod.run)

if __name__ == "__main__":
    entry()
