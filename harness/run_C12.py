"""C12 — bath correlation functions and their 2D integrals.  See DESIGN.md §4 C12.

Translator fragment BathShapes (difference formulas, dblquad region, integrand terms, cutoffs,
PowerLawSD's j) -> theorems in Props/C12.lean.  Correspondence on the real code:

 (a) every shape of CustomSD.correlation_2d_integral vs the *generated* difference formula run by
     the Lean driver on the eta_function values (and time arguments, bit-exact) the
     implementation actually used                                             [1e-13 of the terms]
 (b) vs direct numerical integration of the object's own correlation() over the cell (tensor
     Gauss-Legendre, convergence-controlled; scipy dblquad on a few)          [see cell_tolerance]
 (c) tiling: the cells of the first n steps vs the whole-triangle value
 (d) C(-tau) = conj C(tau), Re eta_tri > 0, Matsubara real, PowerLawSD == CustomSD with the same j,
     CustomCorrelations (simple callables) vs exact cell integrals
 (e) the generated integrand closures run in complex binary64 by the driver vs the Python
     closures captured from correlation()/eta_function(), and the generated spectral density vs
     spectral_density()                                                        [1e-12 of the terms]

search(): (b), (c), (d) and the T=0 closed form, judged by the property text only.
"""
import glob
import json
import math
import os
import random
import struct
import time
from itertools import chain as itertools_chain

import numpy as np

from . import framework as fw
from .framework import rat

PID = "C12"
P = "OQuPyVerif.Props.C12."
THEOREMS = [P + t for t in (
    "shape_formulas", "row_sum_generated", "tiling_generated", "rect_additive", "rect_eq_square",
    "row_sum_rect_generated",
    "square_is_region_integral", "rectangle_is_region_integral",
    "triangle_is_region_integral_at_zero", "triangle_is_region_integral",
    "triangle_is_region_integral_matsubara", "quadrature_variable",
    "corr_conj", "corr_conj_functional", "eta_conj", "corr_thermal_is_documented", "coth_x",
    "guard_branch_limit", "guard_branch_as_written", "guard_branch_difference",
    "guard_branch_error", "guard_branch_imaginary_time", "zero_temperature_limit",
    "eta_kernel_is_documented", "re_tri_integrand_nonneg_partial", "re_tri_integrand_lower",
    "re_tri_lower_functional",
    "matsubara_integrand_real", "matsubara_shape_real",
    "powerlaw_eq_custom", "powerlaw_j_formula", "powerlaw_j_documented", "cutoffs")]

KEY_TRI = "upper-triangle at time_1 != 0: CustomSD.correlation_2d_integral vs integration of correlation()"

KEY_ETA0 = ("eta_function(0) != 0 (cancellation in the thermal integrand, hot sub-ohmic bath): "
            "upper-triangle at time_1 = 0 vs integration of correlation()")



def bits(x):
    return str(struct.unpack("<Q", struct.pack("<d", float(x)))[0])


def unbits(s):
    return struct.unpack("<d", struct.pack("<Q", int(s)))[0]


# ---------------------------------------------------------------------------
# parameter points
# ---------------------------------------------------------------------------

CUTOFFS = ["hard", "exponential", "gaussian"]
# temperature in units of the cutoff: 0; almost everything in the overflow-guard branch; the
# guard crossover (omega/T = 36.04) inside the support; thermal; hot; very hot
T_OVER_WC = [0.0, 1e-3, 0.02, 0.1, 1.0, 7.0, 100.0]

QUICK_POINTS = [
    # alpha, zeta, wc, cutoff, T/wc, dt*wc
    (0.3, 1.0, 4.0, "exponential", 0.0, 0.4),
    (1.0, 3.0, 2.0, "gaussian", 0.65, 0.2),
    (0.2, 0.5, 3.0, "hard", 0.07, 0.3),
    (4.0, 2.0, 1.0, "exponential", 0.02, 0.5),
    (0.05, 4.0, 10.0, "hard", 7.0, 1.0),
    (0.5, 0.25, 0.5, "gaussian", 0.0, 0.25),
    (0.7, 1.5, 5.0, "gaussian", 1e-3, 0.5),
    (4.0, 0.25, 10.0, "hard", 100.0, 0.3),
]


def random_point(rng):
    alpha = rng.choice([0.05, 0.3, 1.0, 4.0, 10 ** rng.uniform(math.log10(0.05), math.log10(4.0))])
    zeta = rng.choice([0.25, 0.5, 1.0, 2.0, 3.0, 4.0, rng.uniform(0.2, 4.0)])
    wc = rng.choice([0.5, 1.0, 3.0, 10.0, rng.uniform(0.3, 12.0)])
    ct = rng.choice(CUTOFFS)
    t = rng.choice(T_OVER_WC)
    dtw = rng.choice([0.1, 0.2, 0.5, 1.0, rng.uniform(0.08, 1.0)])
    return (alpha, zeta, wc, ct, t, dtw)


def make(point):
    from oqupy.bath_correlations import PowerLawSD
    alpha, zeta, wc, ct, t, dtw = point
    return PowerLawSD(alpha, zeta, wc, ct, t * wc), dtw / wc


def pstr(point):
    return "alpha=%.4g zeta=%.4g wc=%.4g %s T=%.4g dt=%.4g" % (
        point[0], point[1], point[2], point[3], point[4] * point[2], point[5] / point[2])


# ---------------------------------------------------------------------------
# oracles on the real code
# ---------------------------------------------------------------------------

_GL = {}


def gauss(n):
    if n not in _GL:
        _GL[n] = np.polynomial.legendre.leggauss(n)
    return _GL[n]


def direct_cell(corr, shape, delta, t1, t2=None, n=7):
    """tensor Gauss-Legendre of  C(t' - t'')  over the documented region:
    t' in [t1, t2] (t2 = t1 + delta unless rectangle), t'' in [0, delta] resp. [0, t' - t1]."""
    xs, ws = gauss(n)
    if t2 is None:
        t2 = t1 + delta
    tot = 0.0
    hx = 0.5 * (t2 - t1)
    for x, wx in zip(xs, ws):
        tp = hx * x + 0.5 * (t2 + t1)
        hi = (tp - t1) if shape == "upper-triangle" else delta
        for y, wy in zip(xs, ws):
            tpp = 0.5 * hi * y + 0.5 * hi
            tot = tot + wx * wy * hx * 0.5 * hi * complex(corr(tp - tpp))
    return tot


def direct_cell_converged(corr, shape, delta, t1, t2=None, check=True):
    """(value, converged?)  -- the cells have delta*cutoff <= 1, where 7 nodes per dimension
    resolve the correlation function to ~1e-12; `check` re-does it with 9 nodes"""
    a = direct_cell(corr, shape, delta, t1, t2, 7)
    if not check:
        return a, True
    b = direct_cell(corr, shape, delta, t1, t2, 9)
    return b, abs(a - b) <= 1e-8 * abs(b) + 1e-300


def dblquad_cell(corr, shape, delta, t1, t2=None, epsrel=1e-8):
    from scipy import integrate
    if t2 is None:
        t2 = t1 + delta
    hi = (lambda x: x - t1) if shape == "upper-triangle" else (lambda x: delta)
    memo = {}

    def c(y, x):
        k = x - y
        if k not in memo:
            memo[k] = complex(corr(k))
        return memo[k]
    re = integrate.dblquad(lambda y, x: c(y, x).real, t1, t2, lambda x: 0.0, hi, epsrel=epsrel)[0]
    im = integrate.dblquad(lambda y, x: c(y, x).imag, t1, t2, lambda x: 0.0, hi, epsrel=epsrel)[0]
    return re + 1j * im


def eta_terms(obj, shape, delta, t1, t2, matsubara=False):
    """magnitudes of the numbers the difference formula combines"""
    kw = {"matsubara": matsubara} if matsubara else {}
    if shape == "upper-triangle":
        ts = [(1, t1 + delta), (1, t1)]
    elif shape == "square":
        ts = [(1, t1 + delta), (2, t1), (1, t1 - delta)]
    else:
        ts = [(1, t2), (1, t1), (1, t2 - delta), (1, t1 - delta)]
    return sum(c * abs(obj.eta_function(t, **kw)) for c, t in ts)


def cell_tolerance(direct, terms, nterms):
    """|shape - direct| allowed.  The difference formula combines eta values that are each only
    as accurate as the quadrature that produced them (requested: epsrel relative; QUADPACK's error
    estimate is not a bound -- observed up to 2.5e-6 of the
    terms for singular/oscillatory integrands; calibration over 440 random cells of the sampled
    domain: at most 0.07 of this allowance), so the comparison is relative to the *terms*,
    plus 1e-6 of the cell value for the direct integration itself."""
    return 1e-6 * abs(direct) + 2e-5 * terms


def cells_for(rng, dt, tier_n):
    """(shape, time_1, time_2) positions in priority order: upper-triangle away from 0, square on
    the grid, rectangle, upper-triangle at 0, square off the grid, rectangle off the grid"""
    k = rng.choice([1, 2, 4])
    out = [("upper-triangle", rng.choice([1, 2, 3]) * dt * rng.choice([1.0, 0.37, 1.6]), None),
           ("square", rng.choice([1, 2, 3, 5]) * dt, None),
           ("rectangle", k * dt, k * dt + rng.choice([0.3, 1.0, 2.5]) * dt),
           ("upper-triangle", 0.0, None),
           ("square", rng.uniform(1.0, 4.0) * dt, None),
           ("rectangle", rng.uniform(1.0, 3.0) * dt, rng.uniform(3.0, 5.0) * dt)]
    return out[:tier_n]


def oracle_cell(obj, point, shape, delta, t1, t2, use_dblquad=False, check=True):
    """returns None if fine / not judged, else a failing-input payload"""
    v = complex(obj.correlation_2d_integral(delta, t1, t2, shape))
    if use_dblquad:
        d, ok = dblquad_cell(obj.correlation, shape, delta, t1, t2), True
    else:
        d, ok = direct_cell_converged(obj.correlation, shape, delta, t1, t2, check=check)
    if not ok:
        return "unconverged"
    terms = eta_terms(obj, shape, delta, t1, t2)
    n = {"upper-triangle": 2, "square": 3, "rectangle": 4}[shape]
    tol = cell_tolerance(d, terms, n)
    if abs(v - d) <= tol:
        return None
    return {"class": "PowerLawSD", "alpha": point[0], "zeta": point[1], "cutoff": point[2],
            "cutoff_type": point[3], "temperature": point[4] * point[2],
            "shape": shape, "delta": delta, "time_1": t1, "time_2": t2,
            "correlation_2d_integral": [v.real, v.imag],
            "direct_integration_of_correlation": [d.real, d.imag],
            "difference": abs(v - d), "allowed": tol,
            "oracle": "scipy dblquad" if use_dblquad else (
                "tensor Gauss-Legendre, 7 nodes per dimension" + (" (9 nodes agree)" if check else "")),
            "how": "PowerLawSD(alpha, zeta, cutoff, cutoff_type, temperature)."
                   "correlation_2d_integral(delta, time_1, time_2, shape) vs the integral of "
                   "its own correlation(t'-t'') over t' in [time_1, time_2 or time_1+delta], "
                   "t'' in [0, delta] (square/rectangle) or [0, t'-time_1] (upper-triangle)"}


def oracle_eta_zero(obj, point, dt):
    """eta(0) is the double integral over an empty region.  The implementation evaluates it by
    quadrature like any other value and every cell touching the time origin subtracts it: judge
    the upper-triangle at time_1 = 0 (TEMPO's dk = 0 cell) against direct integration whenever
    eta_function(0.0) is not negligible."""
    e0 = complex(obj.eta_function(0.0))
    e1 = complex(obj.eta_function(dt))
    if abs(e0) <= 1e-7 * abs(e1):
        return None
    bad = oracle_cell(obj, point, "upper-triangle", dt, 0.0, None, check=False)
    if bad in (None, "unconverged"):
        return None
    bad["eta_function(0.0)"] = [e0.real, e0.imag]
    bad["eta_function(delta)"] = [e1.real, e1.imag]
    return bad


def touches_origin(shape, delta, t1, t2):
    ts = {"upper-triangle": [t1], "square": [t1, t1 - delta],
          "rectangle": [t1, t1 - delta, t2, (t2 or 0.0) - delta]}[shape]
    return any(t == 0.0 for t in ts)


def cell_class(shape, delta, t1, t2):
    if shape in ("square", "rectangle") and delta is not None and 0.0 <= t1 < delta:
        return shape + " straddling the diagonal (0 <= time_1 < delta)"
    if shape == "rectangle" and delta is not None and t2 is not None and t2 - t1 < delta:
        return "rectangle narrower than delta"
    return shape


def cell_key(shape, t1, point, delta=None, t2=None):
    if shape == "upper-triangle" and t1 != 0.0:
        return KEY_TRI
    return "cell:%s:%s:T%s vs integration of correlation()" % (
        cell_class(shape, delta, t1, t2), point[3], "=0" if point[4] == 0 else ">0")


def straddle_cells(dt):
    """squares / rectangles whose region contains t' < t'' (time_1 < delta), and rectangles
    narrower than delta"""
    return [("square", 0.0, None), ("rectangle", 0.3 * dt, 0.8 * dt), ("rectangle", 2.0 * dt, 2.4 * dt),
            ("square", 0.4 * dt, None), ("rectangle", 0.0, 1.5 * dt)]


def oracle_identities(c2d, dt, symmetric=True, tol_rel=1e-9):
    """relations between cells of one object (c2d(delta, time_1, time_2, shape) -> complex):
    square(0) = 2 Re triangle(0) (conjugate-symmetric C), and for a = 0.3 delta (straddling) and
    a = 2 delta:  rect[a, b] + rect[b, a + delta] = square(a)  with b = a + 0.4 delta.
    Returns [(class, payload)] of the violated ones."""
    out = []
    tri = complex(c2d(dt, 0.0, None, "upper-triangle"))
    scale = abs(tri)           # natural size of a cell (cells may vanish exactly, e.g. for modes
    #                            whose period divides delta)
    if symmetric:
        sq0 = complex(c2d(dt, 0.0, None, "square"))
        if abs(sq0 - 2 * tri.real) > tol_rel * (abs(sq0) + 2 * abs(tri)):
            out.append(("square(0) = 2 Re upper-triangle(0)",
                        {"delta": dt, "square(time_1=0)": [sq0.real, sq0.imag],
                         "upper-triangle(time_1=0)": [tri.real, tri.imag]}))
    for a in (0.3 * dt, 2.0 * dt):
        b = a + 0.4 * dt
        r1 = complex(c2d(dt, a, b, "rectangle"))
        r2 = complex(c2d(dt, b, a + dt, "rectangle"))
        sq = complex(c2d(dt, a, None, "square"))
        if abs(r1 + r2 - sq) > tol_rel * (abs(r1) + abs(r2) + abs(sq) + scale):
            out.append(("rect[a,b] + rect[b,a+delta] = square(a)",
                        {"delta": dt, "a": a, "b": b, "rect[a,b]": [r1.real, r1.imag],
                         "rect[b,a+delta]": [r2.real, r2.imag], "square(a)": [sq.real, sq.imag]}))
    return out


def oracle_tiling(obj, dt, n):
    tot, terms = 0.0, 0.0
    for k in range(n):
        for dk in range(k + 1):
            c = obj.correlation_2d_integral(dt, dk * dt, shape="upper-triangle" if dk == 0 else "square")
            tot += c
            terms += abs(c)
    whole = obj.correlation_2d_integral(n * dt, 0.0, shape="upper-triangle")
    return tot, whole, terms


def closed_form_T0_exp(alpha, zeta, wc, tau):
    """C(tau) = int_0^inf 2 alpha w^zeta wc^(1-zeta) e^(-w/wc) e^(-i w tau) dw
             = 2 alpha wc^(1-zeta) Gamma(zeta+1) (1/wc + i tau)^-(zeta+1)"""
    from scipy import special
    return 2 * alpha * wc ** (1 - zeta) * special.gamma(zeta + 1) * (1 / wc + 1j * tau) ** (-(zeta + 1))


# --- late times with the library's DEFAULT quadrature arguments ---------------------------
# cutoff * tau where the code converges with its default epsrel / subdiv_limit without any
# IntegrationWarning (measured: 'hard' up to cutoff*tau = 1500, 'exponential' up to 30,
# 'gaussian' up to 200; beyond that the (cutoff, inf) part reaches the subdivision limit)
LATE_POINTS = [
    # alpha, zeta, wc, cutoff type, T/wc, [cutoff*tau ...]
    (0.3, 1.0, 5.0, "hard", 0.0, [1250.0, 1500.0]),
    (0.3, 3.0, 5.0, "hard", 0.2, [1500.0]),
    (0.3, 1.0, 5.0, "exponential", 0.0, [20.0, 30.0]),
    (0.5, 1.0, 2.0, "gaussian", 0.0, [100.0, 200.0]),
]
LATE_CELLS = [
    # alpha, zeta, wc, cutoff type, T/wc, dt, [(shape, time_1, time_2)]
    (0.3, 1.0, 5.0, "hard", 0.0, 0.1, [("square", 250.0, None), ("rectangle", 300.0, 300.3)]),
]
GENEROUS = {"epsrel": 1e-10, "subdiv_limit": 4000}


def closed_form_T0_hard_ohmic(alpha, wc, tau):
    """C(tau) = 2 alpha int_0^wc w e^(-i w tau) dw = 2 alpha [e^(-i wc tau)(1 + i wc tau) - 1]/tau^2"""
    return 2 * alpha * (np.exp(-1j * wc * tau) * (1 + 1j * wc * tau) - 1) / tau ** 2


def oracle_late(stream):
    """yields (key, payload or None): calls made with the DEFAULT epsrel / subdiv_limit vs the
    same call with explicit generous ones (and the T=0 closed forms)"""
    from oqupy.bath_correlations import PowerLawSD
    for (alpha, zeta, wc, ct, t_over, xs) in LATE_POINTS:
        obj = PowerLawSD(alpha, zeta, wc, ct, t_over * wc)
        for x in xs:
            tau = x / wc + 0.0137
            with stream("late-default"):
                v = complex(obj.correlation(tau))
            with stream("late-generous"):
                r = complex(obj.correlation(tau, **GENEROUS))
            refs = {"same call with epsrel=1e-10, subdiv_limit=4000": r}
            if t_over == 0.0 and ct == "hard" and zeta == 1.0:
                refs["closed form"] = complex(closed_form_T0_hard_ohmic(alpha, wc, tau))
            if t_over == 0.0 and ct == "exponential":
                refs["closed form"] = complex(closed_form_T0_exp(alpha, zeta, wc, tau))
            bad = {k: [z.real, z.imag] for k, z in refs.items() if abs(v - z) > 1e-8 * abs(z)}
            key = "late-time correlation() with default epsrel/subdiv_limit: %s cutoff" % ct
            yield key, (None if not bad else {
                "class": "PowerLawSD", "alpha": alpha, "zeta": zeta, "cutoff": wc, "cutoff_type": ct,
                "temperature": t_over * wc, "tau": tau, "cutoff*tau": x,
                "correlation(tau)": [v.real, v.imag], "references_missed": bad,
                "how": "obj.correlation(tau) with the default arguments vs the listed references "
                       "(1e-8 relative)"})
    for (alpha, zeta, wc, ct, t_over, dt, cells) in LATE_CELLS:
        obj = PowerLawSD(alpha, zeta, wc, ct, t_over * wc)
        for (shape, t1, t2) in cells:
            with stream("late-default"):
                v = complex(obj.correlation_2d_integral(dt, t1, t2, shape))
            with stream("late-generous"):
                r = complex(obj.correlation_2d_integral(dt, t1, t2, shape, **GENEROUS))
            terms = eta_terms(obj, shape, dt, t1, t2)
            tol = 1e-7 * abs(r) + 1e-12 * terms
            key = "late-time %s cell with default epsrel/subdiv_limit: %s cutoff" % (shape, ct)
            yield key, (None if abs(v - r) <= tol else {
                "class": "PowerLawSD", "alpha": alpha, "zeta": zeta, "cutoff": wc, "cutoff_type": ct,
                "temperature": t_over * wc, "shape": shape, "delta": dt, "time_1": t1, "time_2": t2,
                "default_arguments": [v.real, v.imag], "epsrel=1e-10,subdiv_limit=4000": [r.real, r.imag],
                "difference": abs(v - r), "allowed": tol,
                "how": "obj.correlation_2d_integral(delta, time_1, time_2, shape) with the default "
                       "arguments vs the same call with epsrel=1e-10, subdiv_limit=4000"})


# --- custom j-functions with gaps / bands vs an independent frequency integral ---------------

def _j_gap(w):          # zero on [0, 1.5), kink at 1.5
    return 0.3 * (w - 1.5) if w > 1.5 else 0.0


def _j_node(w):         # smooth, double zero at w = 1
    return 0.5 * w * (w - 1.0) ** 2


def _j_band(w):         # zero beyond 1.3 (jump), so also at 2*cutoff
    return 0.6 * w if w < 1.3 else 0.0


GAP_CASES = [
    # label, j, breakpoints of j (for the reference quadrature), cutoff
    ("zero below 1.5", _j_gap, [1.5], 2.0),
    ("zero at cutoff/2", _j_node, [1.0], 2.0),
    ("zero beyond 1.3", _j_band, [1.3], 2.0),
]


def freq_integral(fun, breaks, wc, ct, wmax_hint):
    """composite Gauss-Legendre (16 nodes per panel) of fun(w) over (0, cutoff) and, unless the
    cutoff is hard, on to where the cutoff function is < 1e-17; panels end at the breakpoints of j"""
    top = wc if ct == "hard" else (wc * 40.0 if ct == "exponential" else wc * 6.5)
    edges = sorted(set([0.0, top] + [b for b in breaks if 0.0 < b < top] + ([wc] if wc < top else [])))
    xs, ws = gauss(16)
    tot = 0.0
    for lo, hi in zip(edges[:-1], edges[1:]):
        n = max(1, int(math.ceil((hi - lo) / wmax_hint)))
        h = (hi - lo) / n
        for k in range(n):
            a_, b_ = lo + k * h, lo + (k + 1) * h
            w = 0.5 * (b_ - a_) * xs + 0.5 * (b_ + a_)
            tot = tot + 0.5 * (b_ - a_) * np.sum(ws * fun(w))
    return tot


def gap_reference(obj, breaks, temp):
    """C(tau), eta(t), eta'(t) from J = obj.spectral_density by an independent quadrature"""
    wc, ct = obj.cutoff, obj.cutoff_type

    def coth(w):
        return 1.0 / np.tanh(w / (2 * temp)) if temp > 0 else np.ones_like(w)

    def J(w):
        return np.asarray(obj.spectral_density(w), dtype=float)

    def panel(t):
        return min(0.25 * wc, 1.5 / max(abs(t), 1e-9))

    def corr(tau):
        return complex(freq_integral(lambda w: J(w) * (coth(w) * np.cos(w * tau) - 1j * np.sin(w * tau)),
                                     breaks, wc, ct, panel(tau)))

    def eta(t):
        return complex(freq_integral(lambda w: J(w) / w ** 2 * (coth(w) * (1 - np.cos(w * t))
                                                               - 1j * (w * t - np.sin(w * t))),
                                     breaks, wc, ct, panel(t)))

    def gint(t):
        return complex(freq_integral(lambda w: J(w) / w * (coth(w) * np.sin(w * t) - 1j * (1 - np.cos(w * t))),
                                     breaks, wc, ct, panel(t)))
    return corr, eta, gint


def oracle_gaps(stream, tier="quick"):
    """yields (key, payload or None)"""
    from oqupy.bath_correlations import CustomSD
    dt = 0.35
    cells = [("upper-triangle", 0.0, None), ("square", dt, None), ("rectangle", 2 * dt, 2.6 * dt),
             ("square", 3 * dt, None), ("upper-triangle", 1.5 * dt, None)]
    for (label, jf, breaks, wc) in GAP_CASES:
        for ct in CUTOFFS:
            for temp in ([0.0] if tier == "quick" and ct != "exponential" else [0.0, 0.7]):
                with stream("gaps"):
                    obj = CustomSD(jf, cutoff=wc, cutoff_type=ct, temperature=temp)
                    corr, eta, gint = gap_reference(obj, breaks, temp)
                    c0 = abs(corr(0.0))
                    bad = None
                    for tau in (0.4, 1.3, -0.9):
                        v, r = complex(obj.correlation(tau)), corr(tau)
                        if abs(v - r) > 1e-6 * (abs(r) + c0):
                            bad = {"quantity": "correlation(%g)" % tau, "library": [v.real, v.imag],
                                   "independent": [r.real, r.imag]}
                            break
                key = "CustomSD with a j-function that is %s (%s cutoff): correlation() vs an " \
                      "independent frequency integral of spectral_density()" % (label, ct)
                if bad is not None:
                    bad.update({"class": "CustomSD", "j_function": label, "cutoff": wc, "cutoff_type": ct,
                                "temperature": temp,
                                "how": "CustomSD(j, cutoff, cutoff_type, temperature).correlation(tau) vs "
                                       "composite Gauss-Legendre of J(w)(coth(w/2T) cos(w tau) - i sin(w tau)) "
                                       "with J = obj.spectral_density (tolerance 1e-6 of |C(tau)| + |C(0)|)"})
                yield key, bad
                with stream("gaps"):
                    bad = None
                    for (shape, t1, t2) in cells[:(3 if tier == "quick" else 5)]:
                        v = complex(obj.correlation_2d_integral(dt, t1, t2, shape))
                        r = complex(exact_cell(eta, gint, shape, dt, t1, t2))
                        terms = eta_terms(obj, shape, dt, t1, t2)
                        if abs(v - r) > 1e-6 * abs(r) + 2e-5 * terms:
                            bad = {"shape": shape, "delta": dt, "time_1": t1, "time_2": t2,
                                   "library": [v.real, v.imag], "independent": [r.real, r.imag]}
                            break
                key = "CustomSD with a j-function that is %s (%s cutoff): 2D integrals vs an " \
                      "independent frequency integral of spectral_density()" % (label, ct)
                if bad is not None:
                    bad.update({"class": "CustomSD", "j_function": label, "cutoff": wc, "cutoff_type": ct,
                                "temperature": temp,
                                "how": "obj.correlation_2d_integral(delta, time_1, time_2, shape) vs the cell "
                                       "formed from eta(t) = int J(w)/w^2 [coth (1 - cos wt) - i(wt - sin wt)] dw "
                                       "(composite Gauss-Legendre, J = obj.spectral_density)"})
                yield key, bad


# --- scale covariance and the memo tie ------------------------------------------------------
# A change of the time unit by s (cutoff/s, T/s, times*s) leaves every cell unchanged and
# multiplies C by 1/s^2.  Measured on the unchanged tree: hard cutoff invariant to 3e-14 for
# s = 1e-6, 1e-9, 1e-12.  For the exponential/gaussian cutoffs this needs the frequency quadrature
# to be done in x = w/cutoff (then the cells agree to 1e-14 for s = 1e-9 .. 1e6); with the
# quadrature in w itself the (cutoff, inf) tail is silently lost outside cutoffs ~[4e-3, 4e3]
# (40-100 % at time units 1e-6 and 1e6); and it needs a purely relative quadrature tolerance
# (epsabs=0.0): with scipy's default epsabs=1.49e-8 correlation() -- and the offset upper-triangle,
# which integrates it -- lose accuracy for small cutoffs / couplings (5e-5..1e-2 at cutoff 4e-6,
# 3e-3 at alpha 1e-6).  The same family is run over the coupling strength: cells / alpha and
# C / alpha must not depend on alpha.
SCALE_POINTS = [
    # alpha, zeta, wc, cutoff type, T/wc, dt*wc, [time units]
    (0.3, 1.0, 4.0, "hard", 0.0, 0.3712345678912, [1e-6, 1e-9]),
    (0.7, 0.5, 4.0, "hard", 0.8, 0.1498765432198, [1e-6, 1e-9]),
    (0.3, 1.0, 4.0, "exponential", 0.0, 0.3712345678912, [1e-6, 1e-3, 1e3, 1e6]),
    (0.5, 2.0, 4.0, "gaussian", 0.5, 0.2123456789123, [1e-6, 1e-3, 1e3, 1e6]),
    (0.4, 3.0, 4.0, "exponential", 1.5, 0.2, [1e-6, 1e6]),
]
SCALE_CELLS = [("upper-triangle", 0.0, None), ("square", 1.0, None), ("square", 3.0, None),
               ("rectangle", 2.0, 4.5), ("upper-triangle", 2.0, None)]


def oracle_scale(stream):
    from oqupy.bath_correlations import PowerLawSD
    for (alpha, zeta, wc, ct, t_over, dtw, units) in SCALE_POINTS:
        vals = {}
        for s_ in [1.0] + list(units):
            with stream("scale"):
                obj = PowerLawSD(alpha, zeta, wc / s_, ct, t_over * wc / s_)
                dt = dtw / wc * s_
                cells = [complex(obj.correlation_2d_integral(dt, k * dt, None if k2 is None else k2 * dt, sh))
                         for (sh, k, k2) in SCALE_CELLS]
                terms = [eta_terms(obj, sh, dt, k * dt, None if k2 is None else k2 * dt)
                         for (sh, k, k2) in SCALE_CELLS]
                corr = complex(obj.correlation(1.3 * dt)) * s_ * s_
            vals[s_] = (cells, terms, corr)
        base = vals[1.0]
        for s_ in units:
            cells, terms, corr = vals[s_]
            key = "scale covariance (time unit %g): %s cutoff" % (s_, ct)
            worst = None
            for (sh, k, k2), v, b, tm in zip(SCALE_CELLS, cells, base[0], base[1]):
                if abs(v - b) > 1e-9 * tm + 1e-9 * abs(b):
                    worst = {"shape": sh, "time_1/dt": k, "time_2/dt": k2,
                             "unit 1": [b.real, b.imag], "unit %g" % s_: [v.real, v.imag]}
                    break
            if worst is None and abs(corr - base[2]) > 1e-9 * abs(base[2]):
                worst = {"quantity": "correlation(1.3 dt) * unit^2", "unit 1": [base[2].real, base[2].imag],
                         "unit %g" % s_: [corr.real, corr.imag]}
            if worst is not None:
                worst.update({"class": "PowerLawSD", "alpha": alpha, "zeta": zeta, "cutoff(unit 1)": wc,
                              "cutoff_type": ct, "temperature(unit 1)": t_over * wc, "dt(unit 1)": dtw / wc,
                              "time unit": s_,
                              "how": "PowerLawSD(alpha, zeta, cutoff/s, type, T/s) with delta*s, time_1*s, "
                                     "time_2*s must return the same cell value as s = 1 (tolerance 1e-9 "
                                     "of the eta terms; the unchanged code meets 3e-14)"})
            yield key, worst
        if t_over == 0.0 and ct == "exponential":
            # the T = 0 closed form in every time unit
            for s_ in [1.0] + list(units):
                w_ = wc / s_
                tau = 1.3 * dtw / wc * s_
                with stream("scale"):
                    c_ = complex(PowerLawSD(alpha, zeta, w_, ct, 0.0).correlation(tau))
                cf = complex(closed_form_T0_exp(alpha, zeta, w_, tau))
                key = "T=0 closed form (time unit %g): exponential cutoff" % s_
                yield key, (None if abs(c_ - cf) <= 1e-7 * abs(cf) else {
                    "class": "PowerLawSD", "alpha": alpha, "zeta": zeta, "cutoff": w_, "cutoff_type": ct,
                    "temperature": 0.0, "tau": tau, "correlation(tau)": [c_.real, c_.imag],
                    "closed_form": [cf.real, cf.imag],
                    "how": "PowerLawSD(alpha, zeta, cutoff, 'exponential', 0).correlation(tau) vs "
                           "2 alpha cutoff^(1-zeta) Gamma(zeta+1) (1/cutoff + i tau)^-(zeta+1)"})


COUPLINGS = [1e-3, 1e-6]


def oracle_coupling(stream):
    """cells / alpha and C / alpha do not depend on alpha"""
    from oqupy.bath_correlations import PowerLawSD
    for (alpha, zeta, wc, ct, t_over, dtw, _units) in SCALE_POINTS[1:4]:
        vals = {}
        dt = dtw / wc
        for a_ in [1.0] + COUPLINGS:
            with stream("scale"):
                obj = PowerLawSD(a_, zeta, wc, ct, t_over * wc)
                cells = [complex(obj.correlation_2d_integral(dt, k * dt, None if k2 is None else k2 * dt, sh)) / a_
                         for (sh, k, k2) in SCALE_CELLS]
                terms = [eta_terms(obj, sh, dt, k * dt, None if k2 is None else k2 * dt) / a_
                         for (sh, k, k2) in SCALE_CELLS]
                corr = complex(obj.correlation(1.3 * dt)) / a_
            vals[a_] = (cells, terms, corr)
        base = vals[1.0]
        for a_ in COUPLINGS:
            cells, terms, corr = vals[a_]
            key = "coupling covariance (alpha %g): %s cutoff" % (a_, ct)
            worst = None
            for (sh, k, k2), v, b, tm in zip(SCALE_CELLS, cells, base[0], base[1]):
                if abs(v - b) > 1e-9 * tm + 1e-9 * abs(b):
                    worst = {"shape": sh, "time_1/dt": k, "time_2/dt": k2,
                             "alpha 1 (value/alpha)": [b.real, b.imag],
                             "alpha %g (value/alpha)" % a_: [v.real, v.imag]}
                    break
            if worst is None and abs(corr - base[2]) > 1e-9 * abs(base[2]):
                worst = {"quantity": "correlation(1.3 dt) / alpha", "alpha 1": [base[2].real, base[2].imag],
                         "alpha %g" % a_: [corr.real, corr.imag]}
            if worst is not None:
                worst.update({"class": "PowerLawSD", "zeta": zeta, "cutoff": wc, "cutoff_type": ct,
                              "temperature": t_over * wc, "dt": dt, "alpha": a_,
                              "how": "PowerLawSD(alpha, ...) values divided by alpha vs PowerLawSD(1.0, ...): "
                                     "tolerance 1e-9 of the eta terms"})
            yield key, worst


def oracle_memo(obj, taus, matsubara=False):
    """the memoised, positionally called eta_function(tau) must be the un-memoised function at
    the SAME tau, bit for bit (also called with a keyword)"""
    kw = {"matsubara": True} if matsubara else {}
    raw = getattr(type(obj).eta_function, "__wrapped__", None)
    for tau in taus:
        v_pos = obj.eta_function(tau, **kw)
        v_key = obj.eta_function(tau=tau, **kw)
        v_raw = raw(obj, tau, **kw) if raw is not None else v_key
        if not (v_pos == v_raw and v_pos == v_key):
            return {"class": type(obj).__name__, "tau": tau, "matsubara": matsubara,
                    "eta_function(tau)": repr(v_pos), "eta_function(tau=tau)": repr(v_key),
                    "un-memoised eta_function(tau)": repr(v_raw),
                    "how": "obj.eta_function(tau) vs type(obj).eta_function.__wrapped__(obj, tau) and "
                           "obj.eta_function(tau=tau): must be identical floats"}
    return None


KEY_MEMO = "memoised eta_function(tau) differs from the un-memoised evaluation at the same tau"


def oracle_matsubara_triangle(obj, point, dt, t1):
    """imaginary time, offset upper-triangle: the value returned is minus the integral of the
    Matsubara correlation function over the documented region (eta'' = -C there)"""
    v = complex(obj.correlation_2d_integral(dt, t1, None, "upper-triangle", matsubara=True))
    d, ok = direct_cell_converged(lambda t: obj.correlation(t, matsubara=True), "upper-triangle",
                                  dt, t1, None, check=False)
    d = -d
    terms = abs(obj.eta_function(t1 + dt, matsubara=True)) + abs(obj.eta_function(t1, matsubara=True))
    tol = cell_tolerance(d, terms, 2)
    if abs(v - d) <= tol:
        return None
    return {"class": "PowerLawSD", "alpha": point[0], "zeta": point[1], "cutoff": point[2],
            "cutoff_type": point[3], "temperature": point[4] * point[2], "matsubara": True,
            "shape": "upper-triangle", "delta": dt, "time_1": t1,
            "correlation_2d_integral": [v.real, v.imag],
            "minus_direct_integration_of_matsubara_correlation": [d.real, d.imag],
            "difference": abs(v - d), "allowed": tol,
            "how": "obj.correlation_2d_integral(delta, time_1, shape='upper-triangle', matsubara=True) "
                   "vs -(integral of obj.correlation(t'-t'', matsubara=True) over t' in "
                   "[time_1, time_1+delta], t'' in [0, t'-time_1])"}


KEY_MATS_TRI = "imaginary time, upper-triangle at time_1 != 0 vs integration of the Matsubara correlation()"


# --- low temperature, imaginary time up to beta -----------------------------------------------
LOW_T_POINTS = [
    # alpha, zeta, wc, cutoff type, T/wc   (the overflow-guard crossover w/T = 36 lies inside the
    #                                       support of J for all of them)
    (0.3, 1.0, 1.0, "exponential", 0.05),
    (0.3, 0.5, 1.0, "exponential", 0.1),
    (0.3, 3.0, 1.0, "gaussian", 0.05),
    (0.5, 1.0, 2.0, "hard", 0.1),
    (0.4, 2.0, 1.5, "gaussian", 0.2),
]


def oracle_low_T(stream, tier="quick"):
    """imaginary time at T <= 0.2 cutoff: C_M(tau) = C_M(beta - tau) on a grid up to beta
    (1e-8; unchanged code 2e-15), and the cells just below beta -- last squares, offset
    upper-triangle -- vs minus the direct integral of the object's own Matsubara correlation
    (1e-7 of the cell + 1e-9 of the eta terms; unchanged code 1e-10 / 3e-13)"""
    from oqupy.bath_correlations import PowerLawSD
    pts = LOW_T_POINTS[:3] if tier == "quick" else LOW_T_POINTS
    for (alpha, zeta, wc, ct, tr) in pts:
        T = tr * wc
        beta = 1.0 / T
        point = (alpha, zeta, wc, ct, tr, 0.0)
        with stream("low-T matsubara"):
            obj = PowerLawSD(alpha, zeta, wc, ct, T)
            bad = None
            for f in (0.0, 0.02, 0.1, 0.3, 0.45):
                c1 = float(obj.correlation(f * beta, matsubara=True))
                c2 = float(obj.correlation((1 - f) * beta, matsubara=True))
                if not abs(c1 - c2) <= 1e-8 * abs(c1):
                    bad = {"tau/beta": f, "C_M(tau)": c1, "C_M(beta-tau)": c2}
                    break
        key = "imaginary time, T/cutoff <= 0.2: C_M(tau) = C_M(beta - tau) (%s cutoff)" % ct
        if bad is not None:
            bad.update({"class": "PowerLawSD", "alpha": alpha, "zeta": zeta, "cutoff": wc, "cutoff_type": ct,
                        "temperature": T,
                        "how": "obj.correlation(tau, matsubara=True) vs obj.correlation(1/T - tau, matsubara=True)"})
        yield key, bad
        dt = beta / 16
        cells = [("square", beta - dt), ("upper-triangle", beta - 1.5 * dt), ("square", beta - 2 * dt),
                 ("square", 0.5 * beta)]
        with stream("low-T matsubara"):
            bad = None
            for (shape, t1) in cells[:(2 if tier == "quick" else 4)]:
                v = complex(obj.correlation_2d_integral(dt, t1, None, shape, matsubara=True))
                d = -direct_cell(lambda t: obj.correlation(t, matsubara=True), shape, dt, t1, None, 7)
                terms = sum(abs(obj.eta_function(t, matsubara=True)) for t in (t1 + dt, t1, t1 - dt))
                tol = 1e-7 * abs(d) + 1e-9 * terms
                if not abs(v - d) <= tol:
                    bad = {"shape": shape, "delta": dt, "time_1": t1, "time_1/beta": t1 / beta,
                           "correlation_2d_integral": [v.real, v.imag],
                           "minus_direct_integration_of_matsubara_correlation": [d.real, d.imag],
                           "difference": abs(v - d), "allowed": tol}
                    break
        key = "imaginary time, T/cutoff <= 0.2: cells just below beta vs integration of the " \
              "Matsubara correlation() (%s cutoff)" % ct
        if bad is not None:
            bad.update({"class": "PowerLawSD", "alpha": alpha, "zeta": zeta, "cutoff": wc, "cutoff_type": ct,
                        "temperature": T, "matsubara": True,
                        "how": "obj.correlation_2d_integral(delta, time_1, shape=.., matsubara=True) vs "
                               "-(tensor Gauss-Legendre integral of obj.correlation(t'-t'', matsubara=True) "
                               "over the documented region)"})
        yield key, bad


# --- T = 0 cells of tiny size; very low non-zero temperature, sub-ohmic -------------------------

def _x_minus_sin(x):
    return np.where(np.abs(x) < 0.5,
                    x ** 3 / 6 * (1 - x ** 2 / 20 * (1 - x ** 2 / 42 * (1 - x ** 2 / 72))), x - np.sin(x))


def eta_T0_reference(obj, t):
    """eta(t) at T = 0 by composite Gauss-Legendre of J/w^2 [2 sin^2(wt/2) - i (wt - sin wt)]
    (cancellation-free for small w t)"""
    def J(w):
        return np.asarray(obj.spectral_density(w), dtype=float)
    return complex(freq_integral(lambda w: J(w) / w ** 2 * (2 * np.sin(w * t / 2) ** 2 - 1j * _x_minus_sin(w * t)),
                                 [], obj.cutoff, obj.cutoff_type, 0.25 * obj.cutoff))


TINY_POINTS = [(0.3, 1.0, 2.0, "exponential"), (0.5, 3.0, 1.0, "hard")]
LOWEST_T_POINTS = [
    # alpha, zeta, wc, cutoff type, T/wc, compare C(0) with the closed form?
    (0.3, 0.1, 1.0, "exponential", 5e-5, True),
    (0.3, 0.5, 2.0, "exponential", 5e-5, True),
    (0.3, 0.1, 1.0, "hard", 5e-5, False),
    (0.3, 0.5, 1.0, "gaussian", 1e-5, False),
]


def oracle_tiny_and_cold(stream, tier="quick"):
    from scipy import special
    from oqupy.bath_correlations import PowerLawSD
    # (a) T = 0, delta * cutoff in {1e-3, 1e-4, 1e-5}: real and imaginary part separately (1e-4;
    #     unchanged code <= 2e-6, limited by the cancellation in exp(-ix) - 1 + ix itself)
    for (alpha, zeta, wc, ct) in TINY_POINTS:
        with stream("tiny cells"):
            obj = PowerLawSD(alpha, zeta, wc, ct, 0.0)
            bad = None
            for dw in (1e-3, 1e-4, 1e-5):
                d = dw / wc
                for (shape, t1, t2) in [("upper-triangle", 0.0, None), ("square", d, None),
                                        ("rectangle", 2 * d, 2.6 * d)]:
                    v = complex(obj.correlation_2d_integral(d, t1, t2, shape))
                    r = complex(exact_cell(lambda t: eta_T0_reference(obj, t), lambda t: 0.0, shape, d, t1, t2))
                    if abs(v.real - r.real) > 1e-4 * abs(r.real) or abs(v.imag - r.imag) > 1e-4 * abs(r.imag):
                        bad = {"shape": shape, "delta": d, "delta*cutoff": dw, "time_1": t1, "time_2": t2,
                               "library": [v.real, v.imag], "independent": [r.real, r.imag]}
                        break
                if bad:
                    break
        key = "T = 0, cells with delta*cutoff <= 1e-3 vs an independent frequency integral (%s cutoff)" % ct
        if bad is not None:
            bad.update({"class": "PowerLawSD", "alpha": alpha, "zeta": zeta, "cutoff": wc, "cutoff_type": ct,
                        "temperature": 0.0,
                        "how": "obj.correlation_2d_integral(delta, time_1, time_2, shape) vs the cell formed from "
                               "eta(t) = int J/w^2 [2 sin^2(wt/2) - i(wt - sin wt)] dw (composite "
                               "Gauss-Legendre); real and imaginary part each to 1e-4"})
        yield key, bad
    # (b) 0 < T <= 5e-5 cutoff, sub-ohmic
    for (alpha, zeta, wc, ct, tr, closed) in LOWEST_T_POINTS:
        T = tr * wc
        with stream("very low T"):
            obj = PowerLawSD(alpha, zeta, wc, ct, T)
            bad = None
            if closed:
                cf = 2 * alpha * wc ** (1 - zeta) * special.gamma(zeta + 1) * (
                    wc ** (zeta + 1) + 2 * T ** (zeta + 1) * special.zeta(zeta + 1, 1 + T / wc))
                c0 = complex(obj.correlation(0.0))
                if abs(c0 - cf) > 1e-8 * abs(cf):
                    bad = {"quantity": "correlation(0)", "library": [c0.real, c0.imag], "closed_form": cf,
                           "closed form": "2 alpha wc^(1-zeta) Gamma(zeta+1) [wc^(zeta+1) + 2 T^(zeta+1) "
                                          "zeta_Hurwitz(zeta+1, 1 + T/wc)]"}
            if bad is None:
                dt = 0.3 / wc
                for (shape, t1, t2) in [("upper-triangle", 0.0, None), ("square", 2 * dt, None)]:
                    v = complex(obj.correlation_2d_integral(dt, t1, t2, shape))
                    d = direct_cell(obj.correlation, shape, dt, t1, t2, 7)
                    terms = eta_terms(obj, shape, dt, t1, t2)
                    if abs(v - d) > 1e-7 * abs(d) + 1e-9 * terms:
                        bad = {"shape": shape, "delta": dt, "time_1": t1, "time_2": t2,
                               "correlation_2d_integral": [v.real, v.imag],
                               "direct_integration_of_correlation": [d.real, d.imag]}
                        break
        key = "0 < T <= 5e-5 cutoff, sub-ohmic: C(0) closed form and cells vs integration of " \
              "correlation() (%s cutoff, zeta %g)" % (ct, zeta)
        if bad is not None:
            bad.update({"class": "PowerLawSD", "alpha": alpha, "zeta": zeta, "cutoff": wc, "cutoff_type": ct,
                        "temperature": T})
        yield key, bad


class WarningLog:
    """counts scipy IntegrationWarnings raised inside oqupy/bath_correlations.py, per phase"""

    def __init__(self):
        self.counts = {}
        self.messages = {}

    def __call__(self, phase):
        return _WarnCtx(self, phase)


class _WarnCtx:
    def __init__(self, log, phase):
        self.log, self.phase = log, phase

    def __enter__(self):
        import warnings
        self.cm = warnings.catch_warnings(record=True)
        self.rec = self.cm.__enter__()
        warnings.simplefilter("always")
        return self

    def __exit__(self, *a):
        from scipy.integrate import IntegrationWarning
        n = 0
        for w in self.rec:
            if issubclass(w.category, IntegrationWarning):
                n += 1
                first = str(w.message).split(".")[0][:70]
                self.log.messages[first] = self.log.messages.get(first, 0) + 1
        self.log.counts[self.phase] = self.log.counts.get(self.phase, 0) + n
        return self.cm.__exit__(*a)


# --- CustomCorrelations with a simple callable: C(tau) = a e^(-lam tau) --------------------

def simple_corr(a, lam):
    f = lambda tau: a * np.exp(-lam * tau)
    eta = lambda t: a * (np.exp(-lam * t) - 1 + lam * t) / lam ** 2       # eta'' = C, eta(0)=eta'(0)=0
    g = lambda t: a * (1 - np.exp(-lam * t)) / lam                        # eta'
    return f, eta, g


def exact_cell(eta, g, shape, delta, t1, t2):
    if shape == "upper-triangle":
        return eta(t1 + delta) - eta(t1) - delta * g(t1)
    if shape == "square":
        return eta(t1 + delta) - 2 * eta(t1) + eta(t1 - delta)
    return eta(t2) - eta(t1) - eta(t2 - delta) + eta(t1 - delta)


# --- CustomCorrelations for a bath of finitely many modes -----------------------------------
#     C(tau) = sum_k g_k^2 [coth(w_k/2T) cos(w_k tau) - i sin(w_k tau)]

def mode_corr(modes, temp):
    def coth(w):
        return 1.0 / np.tanh(w / 2 / temp) if temp > 0 else 1.0

    def f(tau):
        return sum(g ** 2 * (coth(w) * np.cos(w * tau) - 1j * np.sin(w * tau)) for w, g in modes)

    def eta(t):
        return sum(g ** 2 / w ** 2 * (coth(w) * (1 - np.cos(w * t)) - 1j * (w * t - np.sin(w * t)))
                   for w, g in modes)

    def gint(t):
        return sum(g ** 2 / w * (coth(w) * np.sin(w * t) - 1j * (1 - np.cos(w * t))) for w, g in modes)
    return f, eta, gint


def mode_cases(tier, rng):
    """(label, delta, modes, T): mode frequencies incommensurate with the cell size, and
    commensurate ones  w = 2 pi n / delta  (sin(w tau) vanishes at every multiple of delta/2)
    and  w = pi n / delta  (at every multiple of delta)"""
    pi = math.pi
    out = [("incommensurate", 0.5, [(3.0, 0.7), (1.7, 0.4)], 0.8),
           ("commensurate-2pi", 0.5, [(2 * pi / 0.5, 0.6)], 0.0),
           ("commensurate-2pi", 0.4, [(2 * pi / 0.4, 0.5), (4 * pi / 0.4, 0.3)], 2.0),
           ("commensurate-pi", 0.5, [(pi / 0.5, 0.6), (3 * pi / 0.5, 0.3)], 1.0)]
    if tier != "quick":
        for _ in range(6):
            d = rng.choice([0.1, 0.25, 0.5, 1.0])
            kind = rng.choice(["incommensurate", "commensurate-2pi", "commensurate-pi"])
            nm = rng.choice([1, 2, 3])
            if kind == "incommensurate":
                modes = [(rng.uniform(0.5, 8.0) / d * 0.5, rng.uniform(0.2, 0.8)) for _ in range(nm)]
            else:
                unit = (2 * pi if kind == "commensurate-2pi" else pi) / d
                modes = [(unit * rng.choice([1, 2, 3]), rng.uniform(0.2, 0.8)) for _ in range(nm)]
            out.append((kind, d, modes, rng.choice([0.0, 0.5, 2.0])))
    return out


def mode_cells(d, rng, n):
    k = rng.choice([1, 2, 3])
    cells = [("square", k * d, None), ("upper-triangle", 0.0, None), ("rectangle", k * d, (k + 2) * d),
             ("upper-triangle", k * d, None), ("rectangle", k * d, (k + 1) * d),
             ("square", rng.uniform(0.5, 2.5) * d, None), ("rectangle", 1.5 * d, 3.5 * d)]
    return cells[:n] + straddle_cells(d)[:(3 if n <= 5 else 5)]


def oracle_modes(label, d, modes, temp, shape, t1, t2, independent=False):
    """CustomCorrelations.correlation_2d_integral vs the analytic cell integral (and an
    independent scipy dblquad of the same callable); None if fine else a payload"""
    from oqupy.bath_correlations import CustomCorrelations
    f, eta, gint = mode_corr(modes, temp)
    cc = CustomCorrelations(f)
    v = complex(cc.correlation_2d_integral(d, t1, t2, shape, epsrel=1e-10))
    e = complex(exact_cell(eta, gint, shape, d, t1, t2))
    scale = sum(g ** 2 for _, g in modes) * d * d * max(1.0, 1.0 / np.tanh(min(w for w, _ in modes) / 2 / temp)
                                                       if temp > 0 else 1.0)
    tol = 1e-7 * scale + 1e-7 * abs(e)
    bad = abs(v - e) > tol
    extra = {}
    if independent:
        q = dblquad_cell(f, shape, d, t1, t2, epsrel=1e-10)
        extra["independent_dblquad"] = [q.real, q.imag]
        bad = bad or abs(v - q) > tol
    if not bad:
        return None
    out = {"class": "CustomCorrelations", "modes_(omega,g)": [list(m) for m in modes],
           "temperature": temp, "kind": label, "shape": shape, "delta": d, "time_1": t1, "time_2": t2,
           "correlation_2d_integral": [v.real, v.imag], "analytic_cell_integral": [e.real, e.imag],
           "difference": abs(v - e), "allowed": tol,
           "how": "CustomCorrelations(lambda tau: sum_k g_k^2 (coth(w_k/2T) cos(w_k tau) - 1j sin(w_k tau)))"
                  ".correlation_2d_integral(delta, time_1, time_2, shape) vs the closed-form integral "
                  "of C(t'-t'') over the documented region"}
    out.update(extra)
    return out


def modes_key(label, shape, delta=None, t1=0.0, t2=None):
    return "CustomCorrelations of finitely many modes (%s frequencies): %s vs analytic cell integral" % (
        label, cell_class(shape, delta, t1 if delta is not None else 1.0, t2))


# ---------------------------------------------------------------------------
# correspondence
# ---------------------------------------------------------------------------

def logged_shape_call(obj, bc, shape, delta, t1, t2, matsubara):
    """call the real correlation_2d_integral, logging the eta_function values it used and the
    top-level _complex_integral(correlation) it made (repaired upper-triangle)"""
    log, cis, seen_tau, depth = [], [], [], [0]
    cls_eta = type(obj).eta_function

    def eta_logged(tau, *a, **k):
        depth[0] += 1
        try:
            v = cls_eta(obj, tau, *a, **k)
        finally:
            depth[0] -= 1
        log.append((float(tau), complex(v)))
        return v
    orig_ci = bc._complex_integral

    def ci_logged(integrand, a=0.0, b=1.0, epsrel=None, limit=None):
        v = orig_ci(integrand, a=a, b=b, epsrel=epsrel, limit=limit)
        if getattr(integrand, "__name__", "") == "<lambda>":
            cis.append((float(a), float(b), complex(v)))
        elif depth[0] == 1:
            # closure built by eta_function itself: which tau does it integrate for?
            inner = _inner_integrand(integrand)
            fv = getattr(inner, "__code__", None)
            if fv is not None and "tau" in fv.co_freevars and inner.__closure__:
                seen_tau.append(inner.__closure__[fv.co_freevars.index("tau")].cell_contents)
        return v
    obj.eta_function = eta_logged
    bc._complex_integral = ci_logged
    try:
        kw = {"matsubara": True} if matsubara else {}
        v = obj.correlation_2d_integral(delta, t1, t2, shape, **kw)
    finally:
        del obj.eta_function
        bc._complex_integral = orig_ci
    # every tau an eta_function closure integrated for must be a requested tau, exactly
    want = set()
    for t, _ in log:
        want.add(complex(t) if not matsubara else -1j * t)
    stray = [repr(t) for t in seen_tau if complex(t) not in want]
    return v, log, cis, stray


def capture_closures(obj, bc, tau, matsubara):
    """the `integrand` closures built by correlation() and eta_function() (no quadrature is run)"""
    got = []
    orig = bc._complex_integral

    def fake(integrand, a=0.0, b=1.0, epsrel=None, limit=None):
        got.append(integrand)
        return 0.0
    bc._complex_integral = fake
    try:
        kw = {"matsubara": True} if matsubara else {}
        type(obj).correlation(obj, tau, **kw)
        f_corr = got[0]
        del got[:]
        eta = type(obj).eta_function
        getattr(eta, "__wrapped__", eta)(obj, tau, **kw)
        f_eta = got[0]
    finally:
        bc._complex_integral = orig
    return _unscale(obj, f_corr), _unscale(obj, f_eta)


def _inner_integrand(f):
    """the closure `integrand` behind what is handed to the quadrature (itself, or the
    `integrand` captured by `scaled_integrand`)"""
    code = getattr(f, "__code__", None)
    if code is not None and f.__closure__ and "integrand" in code.co_freevars:
        return f.__closure__[code.co_freevars.index("integrand")].cell_contents
    return f


def _unscale(obj, f):
    g = _inner_integrand(f)
    if g is not f:
        # Generated.BathShapes.*_scaledIntegrand: f(x) = cutoff * integrand(cutoff * x)
        for x in (0.37, 2.5):
            a, b = complex(f(x)), complex(obj.cutoff * g(obj.cutoff * x))
            if a != b:
                raise fw.Infra("scaled_integrand(x) != cutoff * integrand(cutoff * x) at x=%r" % x)
    return g


def correspondence(res, tier, rng):
    import oqupy
    import oqupy.bath_correlations as bc
    from oqupy.bath_correlations import PowerLawSD, CustomSD, CustomCorrelations
    from . import oq  # noqa: F401  (silences warnings)

    t_start = time.time()
    marks = []

    def mark(what):
        marks.append("%s %.1fs" % (what, time.time() - t_start))

    wlog = WarningLog()
    open_ctx = []

    def phase(name):
        """IntegrationWarnings raised from here on are counted under `name`"""
        if open_ctx:
            open_ctx.pop().__exit__(None, None, None)
        if name is not None:
            c = wlog(name)
            c.__enter__()
            open_ctx.append(c)

    cfg_eps, cfg_lim = oqupy.config.INTEGRATE_EPSREL, oqupy.config.SUBDIV_LIMIT
    res.notes.append("oqupy.config: INTEGRATE_EPSREL = %r, SUBDIV_LIMIT = %r" % (cfg_eps, cfg_lim))

    # ---- (f) late times with the library's default quadrature arguments ---------------------
    for key, bad in oracle_late(wlog):
        res.case(key + " #%d" % res.cases, True)
        res.count("late-time:" + key.split(":")[1].strip())
        if bad is not None:
            res.disagree(key, bad)
    mark("(f) late times, default arguments")
    # ---- (g) scale covariance, memo tie -----------------------------------------------------
    import itertools
    for key, bad in itertools.chain(oracle_scale(wlog), oracle_coupling(wlog)):
        res.case(key, True)
        res.count(key.split("(")[0].strip().replace(" ", "-") + ":" + key.split(":")[1].strip())
        if bad is not None:
            res.disagree(key, bad)
    from oqupy.bath_correlations import PowerLawSD as _P
    for (alpha, zeta, wc, ct, t_over, dtw, units) in SCALE_POINTS[:2]:
        for s_ in [1.0] + list(units):
            o = _P(alpha, zeta, wc / s_, ct, t_over * wc / s_)
            dt_ = dtw / wc * s_
            bad = oracle_memo(o, [dt_, 3 * dt_, dt_ / 3.0])
            res.case("memo %s unit %g" % (ct, s_), True)
            res.count("memo-tie")
            if bad is not None:
                res.disagree(KEY_MEMO, bad)
    for key, bad in oracle_gaps(wlog, tier):
        res.case(key + " #%d" % res.cases, True)
        res.count("gapped-j:" + key.split("(")[1].split(" ")[0])
        if bad is not None:
            res.disagree(key, bad)
    for key, bad in oracle_low_T(wlog, tier):
        res.case(key + " #%d" % res.cases, True)
        res.count("low-T-matsubara")
        if bad is not None:
            res.disagree(key, bad)
    for key, bad in oracle_tiny_and_cold(wlog, tier):
        res.case(key + " #%d" % res.cases, True)
        res.count("tiny-cells/very-low-T")
        if bad is not None:
            res.disagree(key, bad)
    mark("(g) scale covariance, memo tie, gapped j, low-T imaginary time, tiny cells, very low T")
    phase("(a) shape calls")

    points = list(QUICK_POINTS)
    if tier != "quick":
        points += [random_point(rng) for _ in range(30)]
    else:
        points += [random_point(rng) for _ in range(2)]
    lines, checks = [], []

    # ---- (a) shapes vs generated difference formulas --------------------------------------
    objs = []
    for pt in points:
        obj, dt = make(pt)
        objs.append((pt, obj, dt))
        T = pt[4] * pt[2]
        cells = cells_for(rng, dt, 6)
        for (shape, t1, t2) in cells:
            for mats in ([False, True] if T > 0 else [False]):
                if mats:
                    # imaginary time lives on [0, 1/T]
                    beta = 1.0 / T
                    top = max(t1 + dt, t2 or 0.0)
                    if top > beta:
                        continue
                v, log, cis, stray = logged_shape_call(obj, bc, shape, dt, t1, t2, mats)
                if stray:
                    res.disagree(KEY_MEMO + " (the integrand closure was built for another tau)",
                                 {"point": pstr(pt), "shape": shape, "requested": [t for t, _ in log],
                                  "closure_tau": stray})
                tab = ";".join("%s:%s,%s" % (rat(t), rat(x.real), rat(x.imag)) for t, x in log)
                ci = "none"
                if cis:
                    ci = "%s,%s" % (rat(cis[-1][2].real), rat(cis[-1][2].imag))
                lines.append("shape %s %d %s %s %s %s %s" % (
                    shape, int(mats), rat(dt), rat(t1), "none" if t2 is None else rat(t2), ci, tab))
                scale = sum(abs(x) for _, x in log) + sum(abs(dt * c[2]) for c in cis)
                checks.append(("shape", (pstr(pt), shape, dt, t1, t2, mats), complex(v), scale, len(log)))
                res.count("shape:%s%s" % (shape, ":matsubara" if mats else ""))
                if mats and not isinstance(v, float):
                    res.disagree("Matsubara 2D integral is not a real float",
                                 {"point": pstr(pt), "shape": shape, "value": repr(v)})
    mark("(a) real shape calls")
    phase(None)
    # ---- (e) integrand closures and spectral density in binary64 -------------------------------
    nclos = 6 if tier == "quick" else 30
    for (pt, obj, dt) in objs[:nclos]:
        alpha, zeta, wc, ct, t_over, _ = pt
        T = t_over * wc
        scratch = PowerLawSD(alpha, zeta, wc, ct, T)
        for mats in ([False, True, "beyond"] if T > 0 else [False]):
            # "beyond": imaginary time > 1/T, where the fall-back branch clamps its exponent
            tau = rng.choice([0.3, 1.0, 2.7]) * dt if not mats else (
                rng.uniform(0.05, 0.95) / T if mats is True else 1.2 / T)
            mats = bool(mats)
            f_corr, f_eta = capture_closures(scratch, bc, tau, mats)
            ws = [wc * x for x in (0.03, 0.4, 0.99, 1.7)]
            if T > 0:
                # both sides of the overflow guard  exp(-w/T) > eps  <=>  w/T < 36.04
                ws += [T * 35.9, T * 36.2, T * 50.0]
            if mats:
                ws = [w for w in ws if w * tau < 600.0]
            for w in ws:
                J = complex(scratch._spectral_density(w))
                for which, f in (("corr", f_corr), ("eta", f_eta)):
                    val = complex(f(w))
                    x = math.exp(-w / T) if T > 0 else 0.0
                    if x <= np.finfo(float).eps:
                        x = 0.0
                    tp = -1j * tau if mats else tau
                    num = abs(np.exp(-1j * tp * w)) + abs(x * np.exp(1j * tp * w)) + x + 1
                    if which == "corr":
                        scale = abs(J) * num / (1 - x)
                    else:
                        scale = abs(J) / w ** 2 * (num / (1 - x) + abs(tp * w))
                    lines.append("integrand %s %d %s %s %s %s %s" % (
                        which, int(mats), bits(T), bits(tau), bits(w), bits(J.real), bits(J.imag)))
                    checks.append(("integrand", (pstr(pt), which, mats, tau, w), val, scale, 0))
                    res.count("integrand:%s:%s" % (
                        which, "zeroT" if T == 0 else ("guard" if x == 0.0 else "thermal")))
                lines.append("sd %s %s %s %s %s" % (ct, bits(alpha), bits(zeta), bits(wc), bits(w)))
                checks.append(("sd", (pstr(pt), w), complex(scratch.spectral_density(w)), None, 0))
    lines.append("config")
    checks.append(("config", (), "%s %d true" % (rat(cfg_eps), cfg_lim), None, 0))
    lines.append("sd lorentzian %s %s %s %s" % (bits(1.0), bits(1.0), bits(1.0), bits(1.0)))
    try:
        PowerLawSD(1.0, 1.0, 1.0, "lorentzian")
        rejected = "accepted"
    except AssertionError:
        rejected = "rejected"
    checks.append(("reject", ("lorentzian",), rejected, None, 0))

    mark("(e) closures")
    out = fw.run_driver(PID, lines)
    mark("driver")
    if len(out) != len(lines):
        raise fw.Infra("driver returned %d lines for %d inputs" % (len(out), len(lines)))
    for line, got, (kind, meta, val, scale, nlog) in zip(lines, out, checks):
        sample = {"op": line[:140], "impl": repr(val)[:80], "model": got[:80]}
        if kind == "reject":
            res.case(line, True, sample)
            if got != val:
                res.disagree("cutoff type acceptance differs", {"impl": val, "model": got})
            continue
        if kind == "config":
            res.case(line, True, sample)
            res.notes.append("quadrature absolute tolerance (regenerated from _complex_integral): "
                             + got.split("epsabs=")[-1])
            got = got.split(" epsabs=")[0]
            if got != val:
                res.disagree("oqupy.config values differ from the regenerated constants",
                             {"imported": val, "regenerated": got})
            continue
        if kind == "shape":
            res.case(line, nlog >= 2, sample)
            if got in ("missing", "bad-op"):
                res.disagree("generated difference formula asks for an eta_function value the "
                             "implementation did not compute (or op rejected): " + repr(meta),
                             {"line": line[:400], "model": got})
                continue
            a, b = got.split()
            m = complex(float(fw.parse_rat(a)), float(fw.parse_rat(b)))
            if abs(m - val) > 1e-13 * scale + 1e-300:
                res.disagree("shape value differs from the generated difference formula: " + repr(meta),
                             {"meta": repr(meta), "impl": repr(val), "model": repr(m), "scale": scale})
            continue
        a, b = got.split() if " " in got else (None, None)
        if a is None:
            res.case(line, True, sample)
            res.disagree("driver rejected %s: %r" % (kind, meta), {"line": line, "model": got})
            continue
        m = complex(unbits(a), unbits(b))
        res.case(line, True, sample)
        if kind == "sd":
            if abs(m - val) > 1e-13 * abs(val) + 1e-300:
                res.disagree("generated PowerLawSD spectral density differs: " + repr(meta),
                             {"meta": repr(meta), "impl": repr(val), "model": repr(m)})
        else:
            if not (abs(m - val) <= 1e-12 * scale + 1e-300):
                res.disagree("generated integrand closure differs from the Python closure: " + repr(meta),
                             {"meta": repr(meta), "impl": repr(val), "model": repr(m), "scale": scale})

    # ---- (b) shapes vs direct integration of correlation() --------------------------------
    phase("(b) direct integration")
    nb = 8 if tier == "quick" else len(objs)
    per = 3 if tier == "quick" else 5
    unconv = 0
    for i, (pt, obj, dt) in enumerate(objs[:nb]):
        cells = cells_for(rng, dt, per)
        zero_bad = oracle_eta_zero(obj, pt, dt)
        res.case("eta(0) %s" % pstr(pt), True)
        if zero_bad is not None:
            res.disagree("2D integral differs from direct integration of correlation(): " + KEY_ETA0,
                         zero_bad)
        T_ = pt[4] * pt[2]
        if T_ > 0:
            dm = min(dt, 0.2 / T_)
            badm = oracle_matsubara_triangle(obj, pt, dm, 1.7 * dm)
            res.case("matsubara-triangle %s" % pstr(pt), True)
            res.count("direct:upper-triangle:matsubara")
            if badm is not None:
                res.disagree("2D integral differs from direct integration: " + KEY_MATS_TRI, badm)
        for cls_, pl in oracle_identities(lambda d_, a_, b_, sh_: obj.correlation_2d_integral(d_, a_, b_, sh_), dt):
            pl.update({"class": "PowerLawSD", "point": pstr(pt)})
            res.disagree("identity %s: PowerLawSD" % cls_, pl)
        res.case("identities %s" % pstr(pt), True)
        res.count("identities:PowerLawSD")
        if i < (3 if tier == "quick" else nb):
            cells = cells + straddle_cells(dt)[:(2 if tier == "quick" else 5)]
        for j, (shape, t1, t2) in enumerate(cells):
            if zero_bad is not None and touches_origin(shape, dt, t1, t2):
                continue
            use_dbl = (pt[3] == "hard" and j == 0 and (tier != "quick" or i < 4))
            bad = oracle_cell(obj, pt, shape, dt, t1, t2, use_dblquad=use_dbl,
                              check=(tier != "quick"))
            res.count("direct:%s:%s" % (shape, "dblquad" if use_dbl else "gauss-legendre"))
            res.case("direct %s %s %r %r %r" % (pstr(pt), shape, dt, t1, t2), True,
                     {"op": "direct integration %s %s t1=%.4g" % (pstr(pt), shape, t1),
                      "impl": "ok" if bad is None else str(bad)[:80], "model": "-"})
            if bad == "unconverged":
                unconv += 1
            elif bad is not None:
                res.disagree("2D integral differs from direct integration of correlation(): "
                             + cell_key(shape, t1, pt, dt, t2), bad)
    if unconv:
        res.notes.append("%d cells skipped: the Gauss-Legendre oracle did not converge" % unconv)

    mark("(b) direct integration")
    phase("(c) tiling")
    # ---- (c) tiling on the real code -------------------------------------------------------
    for (pt, obj, dt) in objs[:(6 if tier == "quick" else len(objs))]:
        n = rng.choice([2, 3, 4, 5])
        tot, whole, terms = oracle_tiling(obj, dt, n)
        res.case("tiling %s n=%d" % (pstr(pt), n), True)
        res.count("tiling:n=%d" % n)
        if abs(tot - whole) > 1e-9 * (terms + abs(whole)):
            res.disagree("cells of the first n steps do not sum to the whole triangle",
                         {"point": pstr(pt), "n": n, "sum": repr(tot), "whole": repr(whole)})

    mark("(c) tiling")
    phase("(d) symmetries")
    # ---- (d) symmetry, positivity, reality, PowerLaw == Custom, CustomCorrelations ----------
    for (pt, obj, dt) in objs[:(8 if tier == "quick" else len(objs))]:
        alpha, zeta, wc, ct, t_over, _ = pt
        T = t_over * wc
        tau = rng.uniform(0.2, 3.0) / wc
        c1, c2 = complex(obj.correlation(tau)), complex(obj.correlation(-tau))
        res.case("conj %s tau=%r" % (pstr(pt), tau), True)
        if abs(c2 - c1.conjugate()) > 1e-6 * abs(c1):
            res.disagree("C(-tau) != conj C(tau)", {"point": pstr(pt), "tau": tau,
                                                    "C(tau)": repr(c1), "C(-tau)": repr(c2)})
        tri = complex(obj.correlation_2d_integral(dt, 0.0, shape="upper-triangle"))
        res.case("retri %s" % pstr(pt), True)
        if not tri.real > 0:
            res.disagree("Re eta_tri is not positive", {"point": pstr(pt), "dt": dt, "tri": repr(tri)})
        cust = CustomSD(lambda w, a=alpha, z=zeta, c=wc: 2.0 * a * w ** z * c ** (1 - z),
                        cutoff=wc, cutoff_type=ct, temperature=T)
        k = rng.choice([1, 2, 3])
        pairs = [(obj.correlation(tau), cust.correlation(tau)),
                 (obj.correlation_2d_integral(dt, k * dt), cust.correlation_2d_integral(dt, k * dt)),
                 (obj.correlation_2d_integral(dt, 0.0, shape="upper-triangle"),
                  cust.correlation_2d_integral(dt, 0.0, shape="upper-triangle"))]
        res.case("custom %s" % pstr(pt), True)
        for x, y in pairs:
            if abs(complex(x) - complex(y)) > 1e-12 * abs(complex(x)):
                res.disagree("CustomSD with the power-law j differs from PowerLawSD",
                             {"point": pstr(pt), "powerlaw": repr(x), "custom": repr(y)})
        if 0 < t_over <= 0.1:
            # observation only (not a C12 claim): imaginary-time symmetry C(0) = C(beta); it holds
            # since the fall-back branch keeps e^{-w(beta - tau)}  (Props.C12.guard_branch_imaginary_time)
            c0, cb = obj.correlation(0.0, matsubara=True), obj.correlation(1.0 / T, matsubara=True)
            res.notes.append("observation: %s  Matsubara C(0)=%.6g  C(beta)=%.6g" % (pstr(pt), c0, cb))
        if T > 0:
            tm = rng.uniform(0.05, 0.9) / T
            dm = 0.1 / T
            vals = [obj.correlation(tm, matsubara=True), obj.eta_function(tm, matsubara=True),
                    obj.correlation_2d_integral(dm, 2 * dm, matsubara=True),
                    obj.correlation_2d_integral(dm, 0.0, shape="upper-triangle", matsubara=True)]
            res.case("matsubara %s" % pstr(pt), True)
            for x in vals:
                if isinstance(x, complex) or not np.isrealobj(x) or not np.isfinite(x):
                    res.disagree("Matsubara integral is not a finite real number",
                                 {"point": pstr(pt), "value": repr(x)})
    mark("(d) symmetries")
    phase(None)
    ncc = 3 if tier == "quick" else 12
    for _ in range(ncc):
        a = complex(rng.uniform(0.2, 2.0), rng.uniform(-1.0, 1.0))
        lam = complex(rng.uniform(0.5, 3.0), rng.uniform(-4.0, 4.0))
        f, eta, g = simple_corr(a, lam)
        cc = CustomCorrelations(f)
        dt = rng.choice([0.05, 0.1, 0.3])
        for cls_, pl in oracle_identities(
                lambda d_, a_, b_, sh_: cc.correlation_2d_integral(d_, a_, b_, sh_, epsrel=1e-10),
                dt, symmetric=False, tol_rel=1e-7):
            pl.update({"class": "CustomCorrelations", "a": repr(a), "lambda": repr(lam)})
            res.disagree("identity %s: CustomCorrelations" % cls_, pl)
        for (shape, t1, t2) in cells_for(rng, dt, 4) + straddle_cells(dt):
            v = complex(cc.correlation_2d_integral(dt, t1, t2, shape, epsrel=1e-10))
            e = complex(exact_cell(eta, g, shape, dt, t1, t2))
            res.case("customcorr %r %r %s %r %r %r" % (a, lam, shape, dt, t1, t2), True)
            res.count("customcorr:" + shape)
            if abs(v - e) > 1e-7 * abs(e) + 1e-12:
                res.disagree("CustomCorrelations (dblquad) differs from the exact cell integral",
                             {"a": repr(a), "lambda": repr(lam), "shape": shape, "delta": dt,
                              "time_1": t1, "time_2": t2, "dblquad": repr(v), "exact": repr(e)})
    for ci, (label, d, modes, temp) in enumerate(mode_cases(tier, rng)):
        for cj, (shape, t1, t2) in enumerate(mode_cells(d, rng, 5 if tier == "quick" else 7)):
            bad = oracle_modes(label, d, modes, temp, shape, t1, t2, independent=(cj == 0))
            res.case("modes %s %r %r %s %r %r" % (label, d, modes, shape, t1, t2), True)
            res.count("modes:%s:%s" % (label, shape))
            if bad is not None:
                res.disagree("2D integral differs from the analytic cell integral: "
                             + modes_key(label, shape, d, t1, t2), bad)
    mark("CustomCorrelations")
    res.notes.append("correspondence timing (cumulative): " + "; ".join(marks))
    for ph, n in sorted(wlog.counts.items()):
        res.count("IntegrationWarning:" + ph, n)
    res.notes.append("scipy IntegrationWarnings raised inside correlation()/eta_function(): "
                     + ", ".join("%s: %d" % kv for kv in sorted(wlog.counts.items()))
                     + (" | " + "; ".join("%dx %s" % (n, m) for m, n in sorted(wlog.messages.items()))
                        if wlog.messages else ""))
    if wlog.counts.get("late-default", 0):
        res.disagree("IntegrationWarning in a late-time call with the default quadrature arguments "
                     "(none on the unchanged tree)", {"count": wlog.counts["late-default"]})


# ---------------------------------------------------------------------------
# failing-input search (property text only)
# ---------------------------------------------------------------------------

NEAR_OHMIC_POINTS = [
    # exponents next to (not at) the ohmic one: closed forms in Gamma(zeta - 1) cancel catastrophically
    (0.3, 1.0 + 2.0 ** -40, 4.0, "exponential", 0.0, 0.4),
    (0.3, 1.0 - 2.0 ** -40, 4.0, "exponential", 0.0, 0.4),
    (1.0, 2.0 + 2.0 ** -40, 2.0, "exponential", 0.0, 0.5),
]


def oracle_near_ohmic():
    """PowerLawSD at zeta = 1 +- 2^-40 against zeta = 1 exactly (the cells are smooth in zeta: the
    difference is ~1e-12 relative) and at 2 + 2^-40 against 2"""
    from oqupy.bath_correlations import PowerLawSD
    for pt in NEAR_OHMIC_POINTS:
        alpha, zeta, wc, ct, t_over, dtw = pt
        near, at = PowerLawSD(alpha, zeta, wc, ct, t_over * wc), PowerLawSD(alpha, round(zeta), wc, ct, t_over * wc)
        dt = dtw / wc
        for shape, t1, t2 in (("upper-triangle", 0.0, None), ("square", dt, None), ("square", 3 * dt, None),
                              ("rectangle", dt, 4 * dt), ("upper-triangle", 2 * dt, None)):
            kw = {} if t2 is None else {"time_2": t2}
            x = complex(near.correlation_2d_integral(dt, t1, shape=shape, epsrel=1e-11, **kw))
            y = complex(at.correlation_2d_integral(dt, t1, shape=shape, epsrel=1e-11, **kw))
            if not (abs(x.real - y.real) <= 1e-8 * abs(y.real) and abs(x.imag - y.imag) <= 1e-8 * abs(y.imag)):
                yield ("near-integer exponent: PowerLawSD zeta=%r vs zeta=%d, %s at time_1=%.4g"
                       % (zeta, round(zeta), shape, t1),
                       {"oracle": "near-ohmic", "point": pstr(pt), "zeta": repr(zeta), "shape": shape, "delta": dt,
                        "time_1": t1, "time_2": t2, "value": repr(x), "value_at_the_integer_exponent": repr(y)})
                break


def _compact_corr(t):
    """a correlation function of compact support that returns a plain 0.0 outside it"""
    if abs(t) >= 0.8:
        return 0.0
    return 0.7 * (1.0 - abs(t) / 0.8) ** 2 * np.exp(-2.0j * t)


def oracle_compact_support():
    """CustomCorrelations whose callable is real-typed at some arguments (0.0 beyond its support,
    also at tau = 1.0) and complex elsewhere: every cell vs direct integration of its correlation()"""
    from oqupy.bath_correlations import CustomCorrelations
    cc = CustomCorrelations(_compact_corr)
    d = 0.15
    for shape, t1, t2 in (("upper-triangle", 0.0, None), ("square", d, None), ("square", 3 * d, None),
                          ("rectangle", d, 3 * d), ("upper-triangle", 2 * d, None)):
        kw = {} if t2 is None else {"time_2": t2}
        x = complex(cc.correlation_2d_integral(d, t1, shape=shape, epsrel=1e-10, **kw))
        y, ok = direct_cell_converged(cc.correlation, shape, d, t1, t2)
        if ok and abs(x - y) > 1e-7 * abs(y):
            yield ("compact support: CustomCorrelations %s at time_1=%.4g vs integration of correlation()"
                   % (shape, t1),
                   {"oracle": "compact-support", "correlation_function": "0.7 (1-|t|/0.8)^2 exp(-2i t) for |t| < 0.8, "
                    "else the float 0.0", "shape": shape, "delta": d, "time_1": t1, "time_2": t2,
                    "value": repr(x), "direct_integration": repr(complex(y))})
            break


def search(res, rng=None, budget_points=None):
    from oqupy.bath_correlations import PowerLawSD, CustomSD
    from . import oq  # noqa: F401
    rng = rng or random.Random(res.seed + 1)
    points = list(QUICK_POINTS) + [random_point(rng) for _ in range(4 if res.tier == "quick" else 30)]
    if budget_points:
        points = points[:budget_points]
    seen = set()
    # late times with the default quadrature arguments
    for key, bad in oracle_late(WarningLog()):
        if bad is not None and key not in seen:
            seen.add(key)
            res.fail(key, bad)
    for key, bad in oracle_gaps(WarningLog(), res.tier):
        if bad is not None and key not in seen:
            seen.add(key)
            res.fail(key, bad)
    for key, bad in itertools_chain(oracle_low_T(WarningLog(), res.tier),
                                    oracle_tiny_and_cold(WarningLog(), res.tier)):
        if bad is not None and key not in seen:
            seen.add(key)
            res.fail(key, bad)
    for key, bad in itertools_chain(oracle_near_ohmic(), oracle_compact_support()):
        if key not in seen:
            seen.add(key)
            res.fail(key, bad)
    # scale covariance, memo tie
    import itertools
    for key, bad in itertools.chain(oracle_scale(WarningLog()), oracle_coupling(WarningLog())):
        if bad is not None and key not in seen:
            seen.add(key)
            res.fail(key, bad)
    from oqupy.bath_correlations import PowerLawSD as _P
    for (alpha, zeta, wc, ct, t_over, dtw, units) in SCALE_POINTS[:2]:
        for s_ in [1.0] + list(units):
            o = _P(alpha, zeta, wc / s_, ct, t_over * wc / s_)
            dt_ = dtw / wc * s_
            bad = oracle_memo(o, [dt_, 3 * dt_, dt_ / 3.0])
            if bad is not None and KEY_MEMO not in seen:
                seen.add(KEY_MEMO)
                res.fail(KEY_MEMO, bad)
    # CustomCorrelations: finite-mode baths, commensurate and incommensurate frequencies
    for (label, d, modes, temp) in mode_cases(res.tier, rng):
        from oqupy.bath_correlations import CustomCorrelations as _CC
        _cc = _CC(mode_corr(modes, temp)[0])
        for cls_, pl in oracle_identities(
                lambda d_, a_, b_, sh_: _cc.correlation_2d_integral(d_, a_, b_, sh_, epsrel=1e-10),
                d, tol_rel=1e-7):
            key = "identity %s: CustomCorrelations" % cls_
            if key not in seen:
                seen.add(key)
                pl.update({"class": "CustomCorrelations", "modes_(omega,g)": [list(m) for m in modes],
                           "temperature": temp})
                res.fail(key, pl)
        for (shape, t1, t2) in mode_cells(d, rng, 7):
            key = modes_key(label, shape, d, t1, t2)
            if key in seen:
                continue
            bad = oracle_modes(label, d, modes, temp, shape, t1, t2)
            if bad is not None:
                seen.add(key)
                res.fail(key, bad)
    for pt in points:
        obj, dt = make(pt)
        alpha, zeta, wc, ct, t_over, _ = pt
        T = t_over * wc
        # (b) every shape, on- and off-grid positions, vs direct integration
        zero_bad = oracle_eta_zero(obj, pt, dt)
        if zero_bad is not None and KEY_ETA0 not in seen:
            seen.add(KEY_ETA0)
            res.fail(KEY_ETA0, zero_bad)
        for cls_, pl in oracle_identities(lambda d_, a_, b_, sh_: obj.correlation_2d_integral(d_, a_, b_, sh_), dt):
            key = "identity %s: %s" % (cls_, type(obj).__name__)
            if key not in seen:
                seen.add(key)
                pl.update({"class": "PowerLawSD", "point": pstr(pt)})
                res.fail(key, pl)
        for (shape, t1, t2) in cells_for(rng, dt, 4) + straddle_cells(dt)[:3]:
            if zero_bad is not None and touches_origin(shape, dt, t1, t2):
                continue
            key = cell_key(shape, t1, pt, dt, t2)
            if key in seen:
                continue
            bad = oracle_cell(obj, pt, shape, dt, t1, t2)
            if bad not in (None, "unconverged"):
                seen.add(key)
                res.fail(key, bad)
        if T > 0 and KEY_MATS_TRI not in seen:
            dm = min(dt, 0.2 / T)
            badm = oracle_matsubara_triangle(obj, pt, dm, 1.7 * dm)
            if badm is not None:
                seen.add(KEY_MATS_TRI)
                res.fail(KEY_MATS_TRI, badm)
        # (c) tiling
        n = rng.choice([2, 3, 4])
        tot, whole, terms = oracle_tiling(obj, dt, n)
        if abs(tot - whole) > 1e-9 * (terms + abs(whole)):
            res.fail("tiling:%s" % ct, {"point": pstr(pt), "n": n, "dt": dt,
                                        "sum_of_cells": repr(tot), "whole_triangle": repr(whole)})
        d, ok = direct_cell_converged(obj.correlation, "upper-triangle", n * dt, 0.0) \
            if (n * pt[5] <= 1.5 and zero_bad is None) else (None, False)
        if ok and abs(whole - d) > cell_tolerance(d, abs(whole), 2):
            res.fail("whole-triangle:%s" % ct, {"point": pstr(pt), "n": n, "dt": dt,
                                                "whole_triangle": repr(whole), "direct": repr(d)})
        # (d)
        tau = rng.uniform(0.2, 3.0) / wc
        c1, c2 = complex(obj.correlation(tau)), complex(obj.correlation(-tau))
        if abs(c2 - c1.conjugate()) > 1e-6 * abs(c1):
            res.fail("conj:%s" % ct, {"point": pstr(pt), "tau": tau, "C(tau)": repr(c1), "C(-tau)": repr(c2)})
        tri = complex(obj.correlation_2d_integral(dt, 0.0, shape="upper-triangle"))
        if not tri.real > 0:
            res.fail("re-tri:%s" % ct, {"point": pstr(pt), "dt": dt, "eta_tri": repr(tri)})
        if T == 0 and ct == "exponential":
            cf = closed_form_T0_exp(alpha, zeta, wc, tau)
            if abs(c1 - cf) > 1e-6 * abs(cf):
                res.fail("closed-form:T=0 exponential", {"point": pstr(pt), "tau": tau,
                                                         "correlation": repr(c1), "closed_form": repr(cf)})
        cust = CustomSD(lambda w, a=alpha, z=zeta, c=wc: 2.0 * a * w ** z * c ** (1 - z),
                        cutoff=wc, cutoff_type=ct, temperature=T)
        x, y = complex(obj.correlation_2d_integral(dt, dt)), complex(cust.correlation_2d_integral(dt, dt))
        if abs(x - y) > 1e-12 * abs(x):
            res.fail("powerlaw-vs-custom:%s" % ct, {"point": pstr(pt), "powerlaw": repr(x), "custom": repr(y)})
        if T > 0:
            dm = 0.1 / T
            for v in (obj.correlation(0.5 / T, matsubara=True),
                      obj.correlation_2d_integral(dm, 2 * dm, matsubara=True)):
                if isinstance(v, complex) or not np.isfinite(v):
                    res.fail("matsubara-real:%s" % ct, {"point": pstr(pt), "value": repr(v)})


def replay_case(res, payload):
    """re-judge one stored failing input (corpus/C12/*.json, --replay) on the real code"""
    fi = payload.get("failing_input", payload)
    key = payload.get("key", "")
    if fi.get("oracle") in ("near-ohmic", "compact-support"):
        for k, bad in itertools_chain(oracle_near_ohmic(), oracle_compact_support()):
            if k == key:
                res.fail(k, bad)
                return True
        return False
    if key.startswith(("scale covariance", "T=0 closed form", "coupling covariance")):
        import itertools
        for k, bad in itertools.chain(oracle_scale(WarningLog()), oracle_coupling(WarningLog())):
            if bad is not None and k == key:
                res.fail(k, bad)
                return True
        return False
    if key.startswith(("T = 0, cells with delta*cutoff", "0 < T <= 5e-5 cutoff")):
        for k, bad in oracle_tiny_and_cold(WarningLog(), "thorough"):
            if bad is not None and k == key:
                res.fail(k, bad)
                return True
        return False
    if key.startswith("imaginary time, T/cutoff"):
        for k, bad in oracle_low_T(WarningLog(), "thorough"):
            if bad is not None and k == key:
                res.fail(k, bad)
                return True
        return False
    if key.startswith("CustomSD with a j-function"):
        for k, bad in oracle_gaps(WarningLog(), "thorough"):
            if bad is not None and k == key:
                res.fail(k, bad)
                return True
        return False
    if key.startswith("late-time"):
        again = False
        for k, bad in oracle_late(WarningLog()):
            if bad is not None and k == key:
                res.fail(k, bad)
                again = True
                break
        return again
    if fi.get("class") == "CustomCorrelations" and "modes_(omega,g)" in fi:
        modes = [tuple(m) for m in fi["modes_(omega,g)"]]
        bad = oracle_modes(fi.get("kind", "?"), fi["delta"], modes, fi["temperature"], fi["shape"],
                           fi["time_1"], fi["time_2"])
        if bad is not None:
            res.fail(key or modes_key(fi.get("kind", "?"), fi["shape"], fi["delta"], fi["time_1"], fi["time_2"]), bad)
            return True
        return False
    if "shape" in fi and "alpha" in fi:
        wc = fi["cutoff"]
        pt = (fi["alpha"], fi["zeta"], wc, fi["cutoff_type"], fi["temperature"] / wc, fi["delta"] * wc)
        from oqupy.bath_correlations import PowerLawSD
        obj = PowerLawSD(fi["alpha"], fi["zeta"], wc, fi["cutoff_type"], fi["temperature"])
        bad = oracle_cell(obj, pt, fi["shape"], fi["delta"], fi["time_1"], fi["time_2"],
                          check=not key.startswith("eta_function(0)"))
        if bad not in (None, "unconverged"):
            res.fail(key or cell_key(fi["shape"], fi["time_1"], pt, fi["delta"], fi["time_2"]), bad)
            return True
    return False


def run(tier, seed, replay):
    res = fw.Result(PID, tier, seed, level="proof")
    rng = random.Random(seed)
    res.rule = (
        "PowerLawSD objects at 8 fixed + random points over alpha in [0.05,4], zeta in [0.2,4], "
        "cutoff in [0.3,12], all three cutoff types, T/cutoff in {0, 1e-3 (guard branch "
        "everywhere), 0.02, 0.1 (guard crossover inside the support), 1, 7, 100}, dt*cutoff in "
        "[0.08,1]; cells: upper-triangle at 0 and away from 0, squares on and off the grid, "
        "rectangles of extent 0.3..2.5 dt; real and imaginary time.  (a) exact-rational "
        "evaluation of the generated difference formulas on the logged eta_function values with "
        "binary64 time arithmetic; (b) direct integration of correlation(); (c) tiling; (d) "
        "symmetry/positivity/reality/PowerLaw=Custom, CustomCorrelations with C=a*exp(-lam*tau) "
        "and with finite sums of modes g^2(coth cos - i sin) whose frequencies are incommensurate "
        "or commensurate (2 pi n/delta, pi n/delta) with the cell vs exact cell integrals and "
        "an independent dblquad; (e) generated integrand closures in complex binary64 vs the "
        "captured Python closures on both sides of the overflow guard; (f) late times (cutoff*tau "
        "up to 1500 hard, 60 exponential, 400 gaussian; hard-cutoff cells at time_1 = 250, 300) "
        "with the library's DEFAULT epsrel/subdiv_limit vs the same call with epsrel=1e-10, "
        "subdiv_limit=4000 and the T=0 closed forms (1e-8), oqupy.config values vs the "
        "regenerated constants; IntegrationWarnings counted per phase; (g) scale covariance (time "
        "units 1e-6, 1e-9 hard cutoff; 1e-6, 1e-3, 1e3, 1e6 exponential/gaussian: same cells to "
        "1e-9 of the terms) and the T=0 exponential closed form in each time unit, memoised eta_function(tau) == un-memoised / keyword evaluation bit for bit, the "
        "tau seen by each integrand closure == the requested tau; offset upper-triangles in "
        "imaginary time vs integration of the Matsubara correlation; squares/rectangles straddling "
        "the diagonal (0 <= time_1 < delta) and rectangles narrower than delta for PowerLawSD "
        "(direct integration) and CustomCorrelations (analytic), square(0) = 2 Re triangle(0), "
        "rect[a,b] + rect[b,a+delta] = square(a); CustomSD with gapped / band-limited j-functions "
        "(zero below a, zero at cutoff/2, zero beyond b; all cutoff types, T = 0 and > 0): "
        "correlation() and cells vs an independent composite Gauss-Legendre frequency integral "
        "of spectral_density(); imaginary time at T/cutoff in {0.05, 0.1, 0.2}: C_M(tau) = "
        "C_M(beta - tau) up to beta (1e-8) and the cells just below beta vs integration of the "
        "Matsubara correlation (1e-7 of the cell + 1e-9 of the terms); T = 0 cells with "
        "delta*cutoff in {1e-3, 1e-4, 1e-5} vs an independent cancellation-free frequency "
        "integral (Re and Im each 1e-4); sub-ohmic zeta in {0.1, 0.5} at T/cutoff 5e-5 / 1e-5: "
        "C(0) vs its Hurwitz-zeta closed form (1e-8) and cells vs integration of correlation().  Distinct = distinct "
        "protocol line / oracle call; non-trivial = a shape call that used >= 2 eta values, any "
        "integrand/oracle evaluation.")
    res.assumptions = [
        "scipy.integrate.quad/dblquad return the integral up to the requested tolerance where "
        "they report success (the comparison tolerance of (b) is relative to the eta terms: "
        "1e-6 of the cell + 2e-5 of the terms)",
        "numpy/libm exp, cos, sin, pow agree with Lean's Float functions to 1e-12 relative",
        "binary64 model for the time arguments: round-to-nearest-even, no overflow/subnormal",
        "a spectral density j(omega) that is real",
        "nothing is assumed about the values of INTEGRATE_EPSREL / SUBDIV_LIMIT: they are "
        "regenerated and recorded, and their adequacy is judged numerically by (f) at points the "
        "unchanged code (2**-26, 256) meets to 1e-12 without any IntegrationWarning",
    ]
    res.not_shown = [
        "accuracy of QUADPACK (quad, dblquad): the eta_function / correlation values are taken "
        "as the integrals of the generated integrands; observed: a silent QAGI misestimate of "
        "0.9% in Im eta at T/cutoff=70 (gaussian, zeta=3); CustomCorrelations hands the user's "
        "callable to dblquad with scipy's default epsabs=1.49e-8 (absolute), so cells of very "
        "small magnitude are only that accurate",
        "late times beyond the range of (f): on the unchanged tree correlation() and the cells "
        "already lose all relative accuracy (QUADPACK reports failure) for the exponential cutoff "
        "at cutoff*tau >= 100-200 (20 % at 200, factor 500 at 400; up to 5 % of C(0) in absolute "
        "terms) and for the gaussian cutoff at cutoff*tau >= 800",
        "the Gamma-function closed form of C(tau) at T=0 (exponential cutoff) is used only as a "
        "search oracle, not proved",
        "differentiation under the omega-integral: that the omega-integral of the eta kernel is "
        "a second antiderivative of the omega-integral of the correlation kernel (the kernels "
        "are shown to be the documented ones; region theorems assume eta'' = C)",
        "strict positivity Re eta_tri > 0 (proved: the integrand is >= 0 pointwise; > 0 needs J "
        "not to vanish almost everywhere)",
        "imaginary-time cells whose region contains t' < t'' (matsubara=True with time_1 < delta) "
        "are outside the domain: the object's own correlation(tau, matsubara=True) is defined "
        "for 0 <= tau <= 1/T only (for tau < 0 it returns NaN for the exponential/gaussian "
        "cutoffs and the diverging analytic continuation -- not the time-ordered C(|tau|) -- for "
        "the hard one), so there is no integrand to compare with; GibbsTempo requests the "
        "upper-triangle at 0 and squares at k*dt, k >= 1 only",
        "at T/cutoff = 1e-5 (zeta = 0.1, exponential cutoff) the unchanged code misses the "
        "thermal part of C(0) (6.7e-5 relative; the thermal peak at omega ~ T is narrower than "
        "what the first Gauss-Kronrod panels resolve and the error estimate does not see it); "
        "correlation() and the cells lose it alike, so the C(0) closed form is compared at "
        "T/cutoff = 5e-5 only",
        "zeta < 0.2 at T > 0 (integrand singular like omega^(zeta-1)) is not sampled by the "
        "tolerance-based comparisons",
    ]
    res.trusted.append("Lean Float (libm) in the integrand comparison; Mathlib's interval "
                       "integral / FTC for the region theorems")

    files = [replay] if replay else sorted(glob.glob(os.path.join(fw.CORPUS, PID, "*.json")))
    for f in files:
        try:
            payload = json.load(open(f))
        except (OSError, ValueError):
            continue
        again = replay_case(res, payload)
        res.count("corpus:%s" % ("fails" if again else "passes"))
        if again:
            fw.log("stored failing input still fails: %s" % f)
    if replay:
        rc = 0
        for key, payload in res.failing:
            path = fw.write_replay(PID, {"property": PID, "key": key, "failing_input": payload,
                                         "seed": seed})
            fw.log("VIOLATION property=%s replay=%s" % (PID, path))
            rc = 1
        if rc == 0:
            fw.log("OK property=%s replay=%s no longer fails" % (PID, replay))
        return rc

    fw.standard_pipeline(res, ["BathShapes"], THEOREMS)
    res.notes.append("translator + lake build + audit: %.1fs" % (time.time() - res.t0))
    built = all(o[1] for o in res.obligations if o[0].startswith("translator"))
    try:
        if built:
            correspondence(res, tier, rng)
        else:
            res.notes.append("correspondence skipped: generated model unavailable")
    except fw.Infra as e:
        res.oblige("correspondence run", False, str(e))
    if res.broken:
        # a proof obligation / tie broke: look for concrete failing inputs on the real code (also
        # when a stored failing input has already been recorded above)
        fw.log("a proof obligation or tie broke (%s); searching the real code for failing inputs ..."
               % ", ".join(res.broken))
        try:
            search(res)
        except Exception:                           # noqa: BLE001
            import traceback
            res.notes.append("search raised: " + traceback.format_exc()[-1500:])
        # one entry per key
        uniq, seen_keys = [], set()
        for k, pl in res.failing:
            if k not in seen_keys:
                seen_keys.add(k)
                uniq.append((k, pl))
        res.failing = uniq
    return fw.finish(res, None)
