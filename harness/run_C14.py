"""C14 — splitting or repeating compute calls never changes the result.  See DESIGN.md §4 C14.

Correspondence: real `Tempo`, `MeanFieldTempo`, `PtTempo`, `GibbsTempo`, `PtTebd` objects are
driven through generated call histories (targets in any order, interleaved get_* calls, a
transient fault injected into the user callables at every call index) and compared with the
Lean history models (lean/OQuPyVerif/Model/Histories.lean, which interpret the micro-op lists
and loop conditions regenerated from the source): step counters, traces of user-callable
invocations, time lists and call outcomes exactly; "equal to the single-call result" as a flag
(states to 1e-10).

search(): history vs. single-call replay on fresh objects, judged by the property text only.
"""
import glob
import itertools
import json
import os
import random

for _v in ("OMP_NUM_THREADS", "OPENBLAS_NUM_THREADS", "MKL_NUM_THREADS"):
    os.environ.setdefault(_v, "1")      # tiny matrices: BLAS threads only add overhead

import numpy as np  # noqa: E402

from . import framework as fw
from .framework import rat

PID = "C14"
P = "OQuPyVerif.Props.C14."
THEOREMS = [P + t for t in (
    "step_spec_tempo", "step_spec_mft", "fixed_end_step_shapes",
    "split_eq_single", "reached_target_noop", "history_canonical", "retry_after_fault",
    "tempo_split_eq_single", "mft_split_eq_single",
    "tempo_retry_after_fault", "mft_retry_after_fault",
    "tempo_history_canonical", "mft_history_canonical",
    "pt_idempotent", "pt_compute_twice", "gibbs_idempotent",
    "tebd_split_eq_single", "tebd_getters_pure",
    "restart_eq_uninterrupted_partial", "restart_double_precontrol")]
THEOREMS.append("OQuPyVerif.Histories.tracesAlwaysFresh_true")

KEY_RESTART = "restart:PtTebd:pre-control-at-restart-step"
TOL = 1e-10


class Fault(Exception):
    """the transient failure injected into a user callable"""


class Abort(BaseException):
    """the same, but not derived from Exception (like KeyboardInterrupt or a user's abort
    class): the property does not restrict what a user-supplied function raises"""


FAULTS = (Fault, Abort)


# ---------------------------------------------------------------------------
# real objects with instrumented user callables
# ---------------------------------------------------------------------------

def dec_sum(s_l, d_l, m):
    from decimal import Decimal
    return float(Decimal(s_l) + Decimal(str(m)) * Decimal(d_l))


class Probe:
    """shared state of the wrappers around the user callables of one object"""

    def __init__(self, at=None, base=False, bath=None):
        self.at = at            # raw call index that raises (once)
        self.base = base        # raise a BaseException that is not an Exception
        # which user functions are counted / made to fail: the system's (Hamiltonian, rates,
        # Lindblad operators, field equation) or the bath's (correlation function "corr" /
        # spectral density "sd")
        self.bath = bath
        self.channel = "bath" if bath else "system"
        self.in_init = False    # inside backend.initialize_mps_mpo()
        self.fired_in_init = False
        self.raw = 0            # raw user-function calls so far (armed only)
        self.armed = False
        self.trace = []         # micro-level invocations: (callable id, step argument)
        self.fired_inv = None   # micro-level invocation during which the fault fired

    def wrap_raw(self, f, channel="system"):
        def g(*a):
            if self.armed and channel == self.channel:
                k = self.raw
                self.raw += 1
                if k == self.at:
                    self.fired_inv = len(self.trace) - 1
                    self.fired_in_init = self.in_init
                    raise (Abort if self.base else Fault)(
                        "transient failure of user callable (raw call %d)" % k)
            return f(*a)
        return g

    def wrap_micro(self, cid, f):
        def g(step, *a):
            self.trace.append((cid, int(step)))
            return f(step, *a)
        return g

    def wrap_backend(self, backend):
        """user callable 9: the influence functions (they evaluate the bath correlations); the
        evaluations made while the networks are first built are not part of a step"""
        infl, init = backend._influence, backend.initialize_mps_mpo

        def influence(dk):
            if not self.in_init:
                self.trace.append((9, 0))
            return infl(dk)

        def initialize_mps_mpo():
            self.in_init = True
            try:
                return init()
            finally:
                self.in_init = False
        backend._influence = influence
        backend.initialize_mps_mpo = initialize_mps_mpo


def corr_function(t):
    return (np.cos(6.0 * t) + 1j * np.sin(6.0 * t)) * np.exp(-12.0 * t)


def make_bath(probe, coupling=None):
    """the shared cheap bath, or a fresh one whose user function is wrapped by the probe (its
    integrals are memoised per correlations object, so a fresh object evaluates them anew)"""
    import oqupy
    from oqupy import operators as op
    from . import oq
    if coupling is None:
        coupling = 0.5 * op.sigma("z")
    if probe.bath == "corr":
        return oqupy.Bath(coupling, oqupy.CustomCorrelations(probe.wrap_raw(corr_function, "bath")))
    if probe.bath == "sd":
        jf = probe.wrap_raw(lambda w: 0.3 * w * np.exp(-w / 4.0), "bath")
        return oqupy.Bath(coupling, oqupy.CustomSD(jf, cutoff=20.0, cutoff_type="hard",
                                                   temperature=0.5))
    return oq.cheap_bath(coupling)


def make_tempo(s, d, probe, variant=0, dkmax=2):
    import oqupy
    from oqupy import operators as op
    from . import oq
    ham = probe.wrap_raw(lambda t: 0.5 * op.sigma("x") + 0.6 * t * op.sigma("z"))
    kw = {}
    if variant == 1:      # with a time-dependent rate and Lindblad operator
        kw = dict(gammas=[probe.wrap_raw(lambda t: 0.1 + 0.2 * t)],
                  lindblad_operators=[probe.wrap_raw(lambda t: op.sigma("-") + 0.0 * t)])
    system = oqupy.TimeDependentSystem(ham, **kw)
    subdiv = 256 if variant == 2 else None
    par = oqupy.TempoParameters(dt=d, epsrel=1e-4, subdiv_limit=subdiv,
                                **memory_regime(variant, dkmax))
    obj = oqupy.Tempo(system=system, bath=make_bath(probe), parameters=par,
                      initial_state=op.spin_dm("z+"), start_time=s)
    b = obj._backend_instance
    b._propagators = probe.wrap_micro(0, b._propagators)
    probe.wrap_backend(b)
    probe.armed = True
    return obj


def make_mft(s, d, probe, variant=0, dkmax=2):
    import oqupy
    from oqupy import operators as op
    from . import oq
    ham = probe.wrap_raw(lambda t, a: 0.5 * op.sigma("x") + 0.8 * np.real(a) * op.sigma("z")
                         + 0.2 * t * op.sigma("y"))
    eom = probe.wrap_raw(lambda t, states, a: -0.4j * a + 0.7 * np.trace(op.sigma("x") @ states[0])
                         + 0.3 * t)
    system = oqupy.TimeDependentSystemWithField(ham)
    mfs = oqupy.MeanFieldSystem([system], eom)
    subdiv = 256 if variant == 2 else None
    par = oqupy.TempoParameters(dt=d, epsrel=1e-4, subdiv_limit=subdiv,
                                **memory_regime(variant, dkmax))
    obj = oqupy.MeanFieldTempo(mean_field_system=mfs, bath_list=[make_bath(probe)],
                               initial_state_list=[op.spin_dm("z+")], initial_field=1.0 + 0.5j,
                               start_time=s, parameters=par)
    b = obj._backend_instance
    b._compute_field_derivative = probe.wrap_micro(0, b._compute_field_derivative)
    b._propagators_list = [probe.wrap_micro(1, p) for p in b._propagators_list]
    b._compute_field = probe.wrap_micro(2, b._compute_field)
    for sub in b._backend_list:
        probe.wrap_backend(sub)
    probe.armed = True
    return obj


MAKERS = {"tempo": make_tempo, "mft": make_mft}


def memory_regime(variant, dkmax):
    """variants 3 / 4 select the memory regime: no cut-off at all (the influence MPO keeps
    growing) / cut-off with add_correlation_time (steps beyond dkmax use a modified tensor);
    every other variant: plain cut-off dkmax=2 (steps 3.. are beyond it)"""
    if variant == 3:
        return dict(dkmax=None)
    if variant == 4:
        return dict(dkmax=dkmax, add_correlation_time=0.15)
    return dict(dkmax=dkmax)


REGIME = {3: ":no-memory-cutoff", 4: ":add_correlation_time"}


def dyn_snapshot(api, dyn):
    if dyn is None:
        return {"times": [], "states": [], "fields": []}
    times = [float(t) for t in dyn.times]
    if api == "mft":
        states = [np.array(x) for x in dyn.system_dynamics[0].states]
        fields = [complex(f) for f in dyn.fields]
    else:
        states = [np.array(x) for x in dyn.states]
        fields = []
    return {"times": times, "states": states, "fields": fields}


def same_dynamics(a, b, tol=TOL):
    if a["times"] != b["times"] or len(a["states"]) != len(b["states"]):
        return False
    for x, y in zip(a["states"], b["states"]):
        if np.abs(x - y).max() > tol:
            return False
    if len(a["fields"]) != len(b["fields"]):
        return False
    for x, y in zip(a["fields"], b["fields"]):
        if abs(x - y) > tol:
            return False
    return True


PROGRESS_TYPES = ("silent", "simple", "bar")


def read_like_a_user(api, dyn):
    """what a user looks at between two compute calls: every public read of the results"""
    if dyn is None:
        return
    _ = dyn.times
    if api == "mft":
        _ = dyn.fields
        for sd in dyn.system_dynamics:
            _ = sd.states, sd.times
            sd.expectations()
        dyn.field_expectations()
    else:
        _ = dyn.states
        _ = dyn.shape
        dyn.expectations()
        len(dyn)


def run_history(api, s, d, ops, at=None, variant=0, base=False, progress="silent", bath=None):
    """ops: list of ('c', end_time) | ('g',).  'g' = get_dynamics() and reading its results the
    way a user does.  Returns the observable record."""
    import contextlib
    import io
    probe = Probe(at, base, bath)
    obj = MAKERS[api](s, d, probe, variant)
    oks, internal = "", None
    dyn_ids = set()
    for o in ops:
        if o[0] == "g":
            dyn = obj.get_dynamics()
            if dyn is not None:
                dyn_ids.add(id(dyn))
            read_like_a_user(api, dyn)
            continue
        try:
            with contextlib.redirect_stdout(io.StringIO()):
                dyn = obj.compute(o[1], progress_type=progress)
            dyn_ids.add(id(dyn))
            oks += "1"
        except FAULTS:
            oks += "0"
        except Exception as e:                      # noqa: BLE001 (internal error after a fault)
            oks += "x"
            internal = "%s: %s" % (type(e).__name__, str(e)[:80])
    step = obj._backend_instance.step
    return {"oks": oks, "step": step, "calls": len(probe.trace), "trace": list(probe.trace),
            "raw": probe.raw, "fired_inv": probe.fired_inv, "internal": internal,
            "dyn": dyn_snapshot(api, obj.get_dynamics()), "one_dynamics_object": len(dyn_ids) <= 1,
            "progress": progress, "fired_in_init": probe.fired_in_init,
            "dkmax": memory_regime(variant, 2)["dkmax"]}


_REF = {}


def single_call(api, s, d, target, variant=0, bath=None):
    key = (api, s, d, target, variant, bath)
    if key not in _REF:
        _REF[key] = run_history(api, s, d, [("c", target)], None, variant, bath=bath)
    return _REF[key]


def hist_line(api, dkmax, s, d, faults, ref, targets):
    return "hist %s %s %s %s %s %s %s" % (api, "none" if dkmax is None else str(dkmax),
                                          rat(s), rat(d),
                                       ",".join(faults) if faults else "-",
                                       rat(ref), " ".join(rat(t) for t in targets))


def hist_expect(rec, same):
    return "%s;%d;%d;%s;%s;%d" % (rec["oks"], rec["step"], rec["calls"],
                                  " ".join("%d:%d" % p for p in rec["trace"]),
                                  " ".join(rat(t) for t in rec["dyn"]["times"]), 1 if same else 0)


# ---------------------------------------------------------------------------
# PT-TEMPO / Gibbs / PT-TEBD on the real code
# ---------------------------------------------------------------------------

def pt_tensors(pt):
    return [np.array(pt.get_mpo_tensor(i)) for i in range(len(pt))]


def run_pt(n, ops, d=0.1):
    import oqupy
    from . import oq
    ptt = oqupy.PtTempo(bath=oq.cheap_bath(), start_time=0.0, end_time=dec_sum("0.0", str(d), n),
                        parameters=oq.cheap_params(d))
    assert ptt._num_steps == n
    b = ptt._backend_instance
    steps_done = []
    orig = b.compute_step

    def logged():
        r = orig()
        steps_done.append(b.step)
        return r
    b.compute_step = logged
    outs, first, ids = [], None, set()
    for o in ops:
        try:
            if o == "c":
                ptt.compute(progress_type="silent")
                outs.append("done")
            else:
                pt = ptt.get_process_tensor(progress_type="silent")
                ids.add(id(pt))
                tens = pt_tensors(pt)
                if first is None:
                    first = tens
                ok = len(pt) == n and len(tens) == len(first) and all(
                    x.shape == y.shape and np.abs(x - y).max() <= 1e-12 for x, y in zip(tens, first))
                outs.append("pt:" + (",".join(str(k) for k in range(2, n + 1)) if ok else "?"))
        except Exception as e:                      # noqa: BLE001
            outs.append("raised")
            last_err = "%s: %s" % (type(e).__name__, str(e)[:60])
    step = b.step
    return {"outs": outs, "step": step, "net": steps_done, "ptlen": len(ptt._process_tensor),
            "one_object": len(ids) <= 1, "first": first}


def make_gibbs(n):
    import oqupy
    from oqupy import operators as op
    corr = oqupy.PowerLawSD(alpha=0.1, zeta=1, cutoff=2.0, cutoff_type="exponential",
                            temperature=1.0)
    bath = oqupy.Bath(0.5 * op.sigma("z"), corr)
    return oqupy.GibbsTempo(oqupy.System(0.5 * op.sigma("x")), bath,
                            oqupy.GibbsParameters(n_steps=n, epsrel=1e-4))


def run_gibbs(n, k, with_gets=False):
    g = make_gibbs(n)
    states = []
    for _ in range(k):
        g.compute(progress_type="silent")
        states.append(np.array(g.get_state()))
        if with_gets:
            states.append(np.array(g.get_state()))
            g.get_dynamics()
    dyn = g.get_dynamics()
    return {"step": g._backend_instance.step, "times": [float(t) for t in dyn.times],
            "dt": g._dt, "states": states, "nrec": len(dyn.states)}


_PT_FOR_TEBD = {}


def tebd_pt():
    import oqupy
    from oqupy import operators as op
    from . import oq
    if "pt" not in _PT_FOR_TEBD:
        _PT_FOR_TEBD["pt"] = oqupy.pt_tempo_compute(
            bath=oq.cheap_bath(0.5 * op.sigma("y")), start_time=0.0, end_time=1.2,
            parameters=oq.cheap_params(0.2), progress_type="silent")
    return _PT_FOR_TEBD["pt"]


class TebdLog:
    """class-level wrappers logging what is applied to the chain state"""

    def __enter__(self):
        import oqupy.pt_tebd as pm
        from oqupy.backends import pt_tebd_backend as pb
        self.pm, self.pb = pm, pb
        self.saved = (pm.PtTebd._apply_controls, pb.PtTebdBackend.apply_site_gate_layer,
                      pb.PtTebdBackend.apply_process_tensors)
        log = self

        def apply_controls(obj, step, post):
            obj._c14_tag = (bool(post), int(step))
            obj._t_mps._c14_owner = obj        # the backend exists whenever controls are applied
            try:
                return log.saved[0](obj, step=step, post=post)
            finally:
                obj._c14_tag = None

        def site_layer(backend, *a, **k):
            owner = getattr(backend, "_c14_owner", None)
            if owner is not None and getattr(owner, "_c14_tag", None) is not None:
                owner._c14_log.append("c%d:%d" % (1 if owner._c14_tag[0] else 0, owner._c14_tag[1]))
            return log.saved[1](backend, *a, **k)

        def apply_pts(backend, step, *a, **k):
            owner = getattr(backend, "_c14_owner", None)
            if owner is not None:
                owner._c14_log.append("e:%d" % int(step))
            return log.saved[2](backend, step, *a, **k)
        pm.PtTebd._apply_controls = apply_controls
        pb.PtTebdBackend.apply_site_gate_layer = site_layer
        pb.PtTebdBackend.apply_process_tensors = apply_pts
        return self

    def __exit__(self, *a):
        self.pm.PtTebd._apply_controls = self.saved[0]
        self.pb.PtTebdBackend.apply_site_gate_layer = self.saved[1]
        self.pb.PtTebdBackend.apply_process_tensors = self.saved[2]


def make_tebd(pre, post, mps=None, start_step=0, start_time=0.0, control="lossy"):
    import oqupy
    from oqupy import operators as op
    sx, sz = 0.5 * op.sigma("x"), 0.5 * op.sigma("z")
    chain = oqupy.SystemChain([2, 2])
    for n in range(2):
        chain.add_site_hamiltonian(site=n, hamiltonian=sz)
    chain.add_nn_hamiltonian(site=0, hamiltonian_l=1.3 * sx, hamiltonian_r=sx)
    cc = oqupy.ChainControl([2, 2])
    u = np.array([[0.9, 0.1], [0.0, 0.8]])
    sup = op.left_right_super(u, u.conj().T)
    if control == "dephasing":
        # complete dephasing: keeps the populations, removes the coherences — idempotent
        sup = np.diag([1.0, 0.0, 0.0, 1.0]).astype(complex)
    for k in pre:
        cc.add_single_site_control(sup, 0, int(k), post=False)
    for k in post:
        cc.add_single_site_control(sup, 1, int(k), post=True)
    if mps is None:
        mps = oqupy.AugmentedMPS([op.spin_dm("z+"), op.spin_dm("x+")])
    obj = oqupy.PtTebd(initial_augmented_mps=mps, system_chain=chain,
                       process_tensors=[tebd_pt(), None],
                       parameters=oqupy.PtTebdParameters(dt=0.2, order=2, epsrel=1e-7),
                       dynamics_sites=[0, 1], chain_control=cc, start_step=start_step,
                       start_time=start_time)
    obj._c14_log, obj._c14_tag = [], None
    return obj


def tebd_results(obj, res):
    return {"steps": [int(round((float(t) - obj._start_time) / 0.2)) + obj._start_step
                      for t in res["time"]],
            "norm": [complex(x) for x in res["norm"]],
            "dm0": [np.array(x) for x in res["dynamics"][0].states],
            "dm1": [np.array(x) for x in res["dynamics"][1].states]}


def run_tebd(pre, post, ops):
    """ops: end_step integers (compute) and the read-only getters 'd' (get_current_density_matrix),
    'r' (get_results), 'm' (get_augmented_mps)"""
    with TebdLog():
        obj = make_tebd(pre, post)
        k = 0
        for o in ops:
            if o == "d":
                obj.get_current_density_matrix(k % 2)
                k += 1
            elif o == "r":
                got = obj.get_results()
                _ = got["time"], got["norm"], got["bond_dimensions"]
                for dyn in got["dynamics"].values():     # read them like a user
                    _ = dyn.states, dyn.times
                    dyn.expectations()
            elif o == "m":
                obj.get_augmented_mps()
            else:
                obj.compute(int(o), progress_type="silent")
        res = obj.get_results()
        return {"step": obj.step, "chain": list(obj._c14_log), "res": tebd_results(obj, res)}


def tebd_targets(ops):
    return [int(o) for o in ops if o not in ("d", "r", "m")]


def with_getters(rng, ts, p=0.6):
    """insert read-only getters after compute calls"""
    ops = []
    for t in ts:
        ops.append(t)
        q = p
        while rng.random() < q:
            ops.append(rng.choice("ddrm"))
            q = 0.35
    return ops


def same_tebd(a, b, tol=1e-9, skip=0):
    ra = {k: v[skip:] for k, v in a.items()}
    if ra["steps"] != b["steps"]:
        return False
    for k in ("norm", "dm0", "dm1"):
        if len(ra[k]) != len(b[k]):
            return False
        for x, y in zip(ra[k], b[k]):
            if np.abs(np.array(x) - np.array(y)).max() > tol:
                return False
    return True


def run_tebd_restart_exact(pre, post, m, n, protocol):
    """Restart protocols that must be EXACT also at a step carrying a pre-measurement control:
      remaining-controls : the restarted object is given only the controls not applied yet
      idempotent-control : a dephasing control (applying it twice = once), the identical layout
    An exception in the restart counts as a failure; the exported gammas must have the axes
    (left bond, physical d^2, process-tensor bond, right bond)."""
    control = "dephasing" if protocol == "idempotent-control" else "lossy"
    with TebdLog():
        full = make_tebd(pre, post, control=control)
        rf = tebd_results(full, full.compute(n, progress_type="silent"))
        u = make_tebd(pre, post, control=control)
        u.compute(m, progress_type="silent")
        mps = u.get_augmented_mps()
        shapes = [tuple(int(x) for x in g.shape) for g in mps.gammas]
        pt_dim = int(tebd_pt().get_bond_dimensions()[m])
        want = [("*", 4, pt_dim, "*"), ("*", 4, 1, "*")]
        shapes_ok = all(len(sh) == 4 and sh[1] == w[1] and sh[2] == w[2]
                        for sh, w in zip(shapes, want))
        pre_r = tuple(k for k in pre if k > m) if protocol == "remaining-controls" else pre
        error, rr, equal = None, None, False
        try:
            r = make_tebd(pre_r, post, mps=mps, start_step=m, start_time=float(u.time(m)),
                          control=control)
            rr = tebd_results(r, r.compute(n, progress_type="silent"))
            equal = same_tebd(rf, rr, skip=m)
        except Exception as e:                      # noqa: BLE001
            error = "%s: %s" % (type(e).__name__, str(e)[:120])
        return {"equal": equal, "error": error, "gamma_shapes": shapes, "shapes_ok": shapes_ok,
                "expected_gamma_axes": "(left bond, %d, %d | 1, right bond)" % (4, pt_dim),
                "norm_full": [repr(x) for x in rf["norm"][m:]],
                "norm_restart": [repr(x) for x in rr["norm"]] if rr else None}


def oracle_restart_exact(res, pre, post, m, n, protocol):
    rec = run_tebd_restart_exact(pre, post, m, n, protocol)
    if rec["equal"] and rec["shapes_ok"] and rec["error"] is None:
        return 0
    what = "restart-raises" if rec["error"] else \
        ("exported-gamma-axes" if not rec["shapes_ok"] else "differs")
    res.fail("restart-exact:PtTebd:%s:%s%s" % (protocol, what,
                                                ":pre-control-at-restart-step" if m in pre else ""),
             {"api": "PtTebd", "protocol": protocol, "pre_controls_at_steps": list(pre),
              "post_controls_at_steps": list(post), "restart_step": m, "end_step": n,
              "exception_in_restart": rec["error"],
              "exported_gamma_shapes": [list(x) for x in rec["gamma_shapes"]],
              "expected_gamma_axes": rec["expected_gamma_axes"],
              "norm_uninterrupted_from_restart_step": rec["norm_full"],
              "norm_restarted": rec["norm_restart"],
              "how": "compute(%d); get_augmented_mps(); new PtTebd(start_step=%d, start_time="
                     "time(%d)) %s; compute(%d); compare with the uninterrupted compute(%d)"
                     % (m, m, m, "with only the controls not applied yet" if protocol ==
                        "remaining-controls" else "with the same (idempotent, dephasing) controls",
                        n, n)})
    return 1


EXACT_RESTARTS = [((2,), (), 2, 4), ((1, 2), (2,), 2, 4), ((1,), (1,), 1, 3), ((), (), 2, 4),
                  ((3,), (0,), 3, 4)]


def run_tebd_restart(pre, post, m, n):
    with TebdLog():
        full = make_tebd(pre, post)
        rf = tebd_results(full, full.compute(n, progress_type="silent"))
        u = make_tebd(pre, post)
        u.compute(m, progress_type="silent")
        mps = u.get_augmented_mps()
        try:
            r = make_tebd(pre, post, mps=mps, start_step=m, start_time=float(u.time(m)))
            rr = tebd_results(r, r.compute(n, progress_type="silent"))
        except Exception as e:                      # noqa: BLE001
            return {"error": "%s: %s" % (type(e).__name__, str(e)[:120])}
        return {"error": None,"chain": list(r._c14_log), "steps": rr["steps"],
                "final_equal": bool(np.abs(rr["dm0"][-1] - rf["dm0"][-1]).max() <= 1e-9
                                    and np.abs(rr["dm1"][-1] - rf["dm1"][-1]).max() <= 1e-9
                                    and abs(rr["norm"][-1] - rf["norm"][-1]) <= 1e-9),
                "results_equal": same_tebd(rf, rr, skip=m),
                "norm_full": [complex(x) for x in rf["norm"][m:]],
                "norm_restart": [complex(x) for x in rr["norm"]]}


# ---------------------------------------------------------------------------
# generators
# ---------------------------------------------------------------------------

GRIDS = [("0.0", "0.1"), ("0.5", "0.2"), ("-0.3", "0.05")]


def target_time(rng, s_l, d_l, m, exact_only=False):
    s, d = float(s_l), float(d_l)
    kind = "lit" if exact_only else rng.choice(["lit", "lit", "lit", "computed", "half"])
    if kind == "lit":
        return dec_sum(s_l, d_l, m)
    if kind == "computed":
        return s + m * d
    return s + (m + 0.5) * d


def gen_histories(rng, tier):
    """target sequences (in steps) over a 4-step grid"""
    seqs = []
    max_exh = 2 if tier == "quick" else 3
    for L in range(1, max_exh + 1):
        seqs += [list(t) for t in itertools.product(range(5), repeat=L)]
    nl3 = 14 if tier == "quick" else 0
    seqs += [[rng.randrange(5) for _ in range(3)] for _ in range(nl3)]
    nlong = 6 if tier == "quick" else 60
    seqs += [[rng.randrange(0, 6) for _ in range(rng.randrange(4, 7))] for _ in range(nlong)]
    seqs += [[-1, 2], [2, -1, 2]]            # a target before the start time
    return seqs


# ---------------------------------------------------------------------------
# correspondence
# ---------------------------------------------------------------------------

def correspondence(res, tier, rng):
    lines, expect, meta = [], [], []

    def add(line, exp, m):
        lines.append(line)
        expect.append(exp)
        meta.append(m)

    # (0) the step-count rule itself: split-vs-single on stub objects (spec-level, cheap)
    oracle_grid_split(res, real_objects=False)
    res.count("grid-split histories at function level", 2 * len(grid_histories()))

    # (a) fault-free histories, Tempo and MeanFieldTempo
    for api in ("tempo", "mft"):
        seqs = gen_histories(rng, tier)
        if api == "mft" and tier == "quick":
            seqs = [q for i, q in enumerate(seqs) if len(q) != 2 or i % 2 == 0]
        # forced: the results are read between the calls (tagged sequences come last)
        forced = [[2, 4], [1, 3, 4], [3, 3], [0, 2]]
        for i, ms in enumerate(seqs + forced):
            s_l, d_l = GRIDS[i % len(GRIDS)] if len(ms) > 1 else GRIDS[0]
            s, d = float(s_l), float(d_l)
            variant = 1 if (api == "tempo" and i % 5 == 0) else 0
            if i % 7 == 3:
                variant = 3                    # no memory cut-off
            elif i % 7 == 5:
                variant = 4                    # cut-off with add_correlation_time
            targets = [target_time(rng, s_l, d_l, m) for m in ms]
            ops = []
            for t in targets:
                ops.append(("c", t))
                if i >= len(seqs) or rng.random() < 0.4:
                    ops.append(("g",))
            progress = PROGRESS_TYPES[i % 3]
            rec = run_history(api, s, d, ops, None, variant, False, progress)
            ref_t = max(targets)
            ref = single_call(api, s, d, ref_t, variant)
            same = same_dynamics(rec["dyn"], ref["dyn"]) and rec["step"] == ref["step"]
            add(hist_line(api, rec["dkmax"], s, d, [], ref_t, targets), hist_expect(rec, same),
                {"kind": "history", "api": api, "start": s, "dt": d, "target_steps": ms,
                 "targets": targets, "variant": variant, "progress_type": progress,
                 "calls": [o[0] for o in ops]})
            if not rec["one_dynamics_object"]:
                res.disagree("get_dynamics()/compute() returned different Dynamics objects",
                             {"api": api, "targets": targets})
            res.count("hist:%s:len%d" % (api, min(len(ms), 4)))
            res.count("progress_type:" + progress)
            if ("g",) in ops[:-1]:
                res.count("hist:%s:results-read-between-calls" % api)

    # (b) a transient fault at every raw call index of the user callables
    for api in ("tempo", "mft"):
        configs = [(GRIDS[0], 3, 0)] if tier == "quick" else \
            [(GRIDS[0], 4, 0), (GRIDS[1], 3, 1 if api == "tempo" else 0), (GRIDS[2], 4, 2)]
        # both other memory regimes (the rollback of a mean-field step must be exact in each)
        if api == "mft" or tier != "quick":
            configs += [(GRIDS[0], 4, 3), (GRIDS[0], 4, 4)]
        for (s_l, d_l), m, variant in configs:
            s, d = float(s_l), float(d_l)
            target = dec_sum(s_l, d_l, m)
            ref = single_call(api, s, d, target, variant)
            nraw = ref["raw"]
            idx = list(range(nraw))
            if variant == 2:                           # quadrature: many calls, sample them
                idx = sorted(rng.sample(idx, min(len(idx), 24)))
            both = api == "mft" and (variant < 3 or tier != "quick")
            kinds = [(r, b) for r in idx for b in ((False, True) if both else (r % 2 == 1,))]
            for r, base in kinds:
                shape = r % 3
                if shape == 0:
                    ops = [("c", target), ("c", target)]
                elif shape == 1:
                    ops = [("c", target), ("g",), ("c", target), ("c", target)]
                else:                                  # failing call with a nearer target first
                    ops = [("c", dec_sum(s_l, d_l, max(1, m - 1))), ("c", target), ("c", target)]
                progress = PROGRESS_TYPES[(r // 3 + (1 if base else 0)) % 3]
                rec = run_history(api, s, d, ops, r, variant, base, progress)
                if rec["fired_inv"] is None:
                    continue
                if rec["internal"] is not None:
                    # internal error after the fault: not a behaviour the model describes
                    res.disagree("internal error in a call after a transient user-callable "
                                 "failure: " + rec["internal"],
                                 {"api": api, "start": s, "dt": d, "ops": ops, "raw_index": r})
                    continue
                targets = [o[1] for o in ops if o[0] == "c"]
                same = same_dynamics(rec["dyn"], ref["dyn"]) and rec["step"] == ref["step"]
                add(hist_line(api, rec["dkmax"], s, d,
                              ["%d%s" % (rec["fired_inv"], "b" if base else "")],
                              target, targets),
                    hist_expect(rec, same),
                    {"kind": "fault", "api": api, "start": s, "dt": d, "ops": ops,
                     "raw_index": r, "variant": variant, "base_exception": base,
                     "progress_type": progress})
                res.count("fault:progress_type:" + progress)
                res.count("fault:%s:callable%d:%s%s" % (api, rec["trace"][rec["fired_inv"]][0],
                                                        "BaseException" if base else "Exception",
                                                        REGIME.get(variant, "")))

    # (b') a transient fault of the BATH function (correlation function / spectral density),
    # in every memory regime; dkmax=None: evaluated in every step
    for api in ("tempo", "mft"):
        bconf = [(4, 3, "corr"), (4, 4, "corr")]
        if tier != "quick" or api == "tempo":
            bconf += [(3, 0, "corr"), (3, 3, "sd")]
        for m, variant, bath in bconf:
            s_l, d_l = GRIDS[0]
            s, d = float(s_l), float(d_l)
            target = dec_sum(s_l, d_l, m)
            ref = single_call(api, s, d, target, variant, bath)
            for r in spread(ref["raw"], 6 if tier == "quick" else 30):
                base = r % 2 == 1
                progress = PROGRESS_TYPES[r % 3]
                ops = [("c", target), ("g",), ("c", target)]
                rec = run_history(api, s, d, ops, r, variant, base, progress, bath)
                name = {"tempo": "Tempo", "mft": "MeanFieldTempo"}[api]
                same = same_dynamics(rec["dyn"], ref["dyn"]) and rec["step"] == ref["step"]
                if rec["fired_in_init"]:
                    # the failure happened while the networks were first built (not a step of the
                    # model): judged by the property text alone — fails again, or same result
                    res.count("bathfault:%s:during-initialize" % api)
                    if rec["oks"] == "01" and not same:
                        res.fail("retry:%s:bath-%s-during-initialize" % (name, bath),
                                 {"api": name, "start_time": s, "dt": d, "end_time": target,
                                  "variant": variant, "failing_bath_function": bath,
                                  "raw_user_call_index_that_raises_once": r,
                                  "progress_type": progress,
                                  "max_state_difference": max_diff(rec["dyn"], ref["dyn"])})
                    continue
                if rec["fired_inv"] is None:
                    continue
                if rec["internal"] is not None:
                    res.disagree("internal error in a call after a transient bath-function "
                                 "failure: " + rec["internal"],
                                 {"api": api, "variant": variant, "bath": bath, "raw_index": r})
                    continue
                add(hist_line(api, rec["dkmax"], s, d,
                              ["%d%s" % (rec["fired_inv"], "b" if base else "")], target,
                              [target, target]),
                    hist_expect(rec, same),
                    {"kind": "bathfault", "api": api, "start": s, "dt": d, "ops": ops,
                     "raw_index": r, "variant": variant, "bath": bath, "base_exception": base,
                     "progress_type": progress})
                res.count("bathfault:%s:%s%s" % (api, bath, REGIME.get(variant, ":cutoff")))
    # PT-TEMPO with a failing bath function: judged by the property text (no fault model)
    for mem in (dict(dkmax=None), dict(dkmax=2), dict(dkmax=2, add_correlation_time=0.15)):
        oracle_pt_bath(res, 4, mem, "corr", 3 if tier == "quick" else 20)
        res.count("bathfault:pt:%s" % ("no-cutoff" if mem["dkmax"] is None else
                                       "act" if "add_correlation_time" in mem else "cutoff"))

    # (c) PT-TEMPO histories
    pt_hist = ["".join(p) for L in (1, 2, 3) for p in itertools.product("cg", repeat=L)]
    pt_hist += ["".join(rng.choice("cg") for _ in range(rng.randrange(4, 7)))
                for _ in range(4 if tier == "quick" else 30)]
    for n in ((2, 4) if tier == "quick" else (2, 3, 4, 6)):
        for h in pt_hist:
            rec = run_pt(n, h)
            add("pt %d %s" % (n, h),
                "%s;%d;%s;%d" % (" ".join(rec["outs"]), rec["step"],
                                 " ".join(str(k) for k in rec["net"]), rec["ptlen"]),
                {"kind": "pt", "n": n, "ops": h})
            if not rec["one_object"]:
                res.disagree("get_process_tensor() returned different objects", {"n": n, "ops": h})
            res.count("pt:n=%d" % n)

    # (d) Gibbs
    for n in ((2, 5) if tier == "quick" else (2, 3, 5, 8)):
        for k in (1, 2, 3):
            rec = run_gibbs(n, k, with_gets=(k == 2))
            idx = []
            for t in rec["times"]:
                i = int(round(t / rec["dt"]))
                idx.append(i if float(i) * rec["dt"] == t else -1)      # label = float(i)*dt exactly
            same_state = all(np.abs(x - rec["states"][0]).max() <= TOL for x in rec["states"])
            add("gibbs %d %d" % (n, k),
                "%d;%s;%s;%s" % (rec["step"], " ".join("%d/1" % i for i in idx),
                                 " ".join(str(i) for i in idx),
                                 str(n) if same_state and rec["nrec"] == n + 1 else "changed"),
                {"kind": "gibbs", "n": n, "computes": k})
            res.count("gibbs:n=%d" % n)

    # (e) PT-TEBD histories and restarts
    ctrl_cfgs = [((), ()), ((1,), (2,)), ((0, 2), (0,)), ((3,), (1, 3))]
    tseqs = [list(t) for L in (1, 2) for t in itertools.product(range(5), repeat=L)]
    if tier == "quick":
        tseqs = [q for i, q in enumerate(tseqs) if i % 3 == 0]
    tseqs += [[rng.randrange(5) for _ in range(3)] for _ in range(4 if tier == "quick" else 40)]
    # ... every second one with read-only getters between the compute calls, plus fixed shapes
    jobs = [(ts, with_getters(rng, ts) if i % 2 else list(ts)) for i, ts in enumerate(tseqs)]
    jobs += [(ts, ops) for ts, ops in (([2, 4], [2, "d", 4]), ([0, 3], [0, "d", "d", 3]),
                                       ([2, 4, 4], [2, "r", "m", 4, "d", 4]),
                                       ([1, 3, 4], [1, "d", 3, "d", "r", 4]))]
    for i, (ts, ops) in enumerate(jobs):
        pre, post = ctrl_cfgs[i % len(ctrl_cfgs)]
        rec = run_tebd(pre, post, ops)
        single = run_tebd(pre, post, [max(max(ts), 0)])
        same = same_tebd(rec["res"], single["res"], tol=1e-8) and rec["chain"] == single["chain"] \
            and rec["step"] == single["step"]
        add("tebd 0 %s %s %s" % (",".join(map(str, pre)) or "-", ",".join(map(str, post)) or "-",
                                 ",".join(map(str, ops))),
            "%d;%s;%s;%d" % (rec["step"], " ".join(rec["chain"]),
                             " ".join(str(k) for k in rec["res"]["steps"]), 1 if same else 0),
            {"kind": "tebd", "pre": pre, "post": post, "ops": ops})
        res.count("tebd:%s:len%d" % ("getters" if len(ops) != len(ts) else "plain", len(ts)))
    restarts = [((), (), 2, 4), ((1,), (2,), 2, 4), ((2,), (), 2, 4), ((0,), (1,), 1, 3),
                ((1,), (1,), 1, 3), ((), (2,), 2, 2), ((3,), (0,), 3, 4)]
    if tier != "quick":
        restarts += [(tuple(sorted(rng.sample(range(5), rng.randrange(0, 3)))),
                      tuple(sorted(rng.sample(range(5), rng.randrange(0, 3)))),
                      m, rng.randrange(m, 6)) for m in (1, 2, 3, 4) for _ in range(5)]
    # the two restart protocols that are exact also with a pre-control at the restart step
    for pre, post, m, n in EXACT_RESTARTS:
        for protocol in ("remaining-controls", "idempotent-control"):
            oracle_restart_exact(res, pre, post, m, n, protocol)
            res.count("tebdrestart-exact:%s:%s" % (protocol, "pre-control-at-restart-step"
                                                   if m in pre else "free"))
    for pre, post, m, n in restarts:
        rec = run_tebd_restart(pre, post, m, n)
        if rec["error"] is not None:
            res.fail("restart-raises:PtTebd%s" % (":pre-control-at-restart-step" if m in pre
                                                  else ""),
                     {"api": "PtTebd", "pre_controls_at_steps": list(pre),
                      "post_controls_at_steps": list(post), "restart_step": m, "end_step": n,
                      "exception_in_restart": rec["error"]})
            continue
        add("tebdrestart %s %s %d %d" % (",".join(map(str, pre)) or "-",
                                         ",".join(map(str, post)) or "-", m, n),
            "%s;%s;%d;%d" % (" ".join(rec["chain"]), " ".join(str(k) for k in rec["steps"]),
                             1 if rec["final_equal"] else 0, 1 if rec["results_equal"] else 0),
            {"kind": "tebdrestart", "pre": pre, "post": post, "m": m, "n": n})
        res.count("tebdrestart:%s" % ("pre-control-at-restart-step" if m in pre else "free"))
        if not rec["results_equal"]:
            if m in pre:
                # the point excluded by restart_eq_uninterrupted_partial: a genuine failure of
                # the real code (DESIGN §5 #23), reported under its stable key
                res.fail(KEY_RESTART, restart_payload(pre, post, m, n, rec))
            else:
                res.fail("restart:PtTebd pre=%s post=%s m=%d n=%d" % (pre, post, m, n),
                         restart_payload(pre, post, m, n, rec))

    out = fw.run_driver(PID, lines)
    if len(out) != len(lines):
        raise fw.Infra("driver returned %d lines for %d inputs" % (len(out), len(lines)))
    for line, exp, got, m in zip(lines, expect, out, meta):
        if m["kind"] == "gibbs" and got.count(";") == 3:
            head, last = got.rsplit(";", 1)      # the state get_state() shows: label n or not
            got = head + ";" + (last if last == str(m["n"]) else "changed")
        nontrivial = not (m["kind"] == "history" and max(m["target_steps"]) <= 0)
        res.case(line, nontrivial, {"op": line[:140], "impl": exp[:140], "model": got[:140]})
        if exp != got:
            res.disagree("model and implementation differ on: " + line[:200],
                         {"line": line, "impl": exp, "model": got, "meta": json.dumps(m, default=str)})


def restart_payload(pre, post, m, n, rec):
    return {"api": "PtTebd", "pre_controls_at_steps": list(pre), "post_controls_at_steps": list(post),
            "restart_step": m, "end_step": n,
            "how": "run to step %d, get_augmented_mps(), new PtTebd(start_step=%d, "
                   "start_time=time(%d)) with the same chain_control, compute(%d); compare with "
                   "the uninterrupted compute(%d)" % (m, m, m, n, n),
            "operations_applied_by_restarted_object": rec["chain"],
            "norm_uninterrupted_from_restart_step": [repr(x) for x in rec["norm_full"]],
            "norm_restarted": [repr(x) for x in rec["norm_restart"]]}


# ---------------------------------------------------------------------------
# spec-level oracles on the real code
# ---------------------------------------------------------------------------

def spread(n, k):
    """about k indices spread over range(n), always including the last ones"""
    if n <= k:
        return list(range(n))
    return sorted(set([int(i * (n - 1) / (k - 1)) for i in range(k)] + [n - 1, n - 2]))


def oracle_retry(res, api, s_l, d_l, m, variant, indices=None, base=False, bath=None):
    """a transient failure of a user callable (with `bath`: of the bath correlation function /
    spectral density); the repeated call must fail again or give the no-failure dynamics"""
    s, d = float(s_l), float(d_l)
    target = dec_sum(s_l, d_l, m)
    ref = single_call(api, s, d, target, variant, bath)
    found = 0
    if indices is None and bath:
        indices = list(reversed(spread(ref["raw"], 14)))
    # late steps first: beyond the memory cut-off the damage is silent
    for r in (indices if indices is not None else reversed(range(ref["raw"]))):
        progress = PROGRESS_TYPES[r % 3]
        rec = run_history(api, s, d, [("c", target), ("c", target)], r, variant, base, progress,
                          bath)
        if rec["fired_inv"] is None and not rec["fired_in_init"]:
            continue
        name = {"tempo": "Tempo", "mft": "MeanFieldTempo"}[api]
        if rec["oks"][:1] == "1":
            # the user callable raised inside compute(), but compute() returned normally
            res.fail("fault-swallowed:%s:%s" % (name, progress),
                     {"api": name, "start_time": s, "dt": d, "end_time": target, "variant": variant,
                      "progress_type": progress, "raw_user_call_index_that_raises_once": r,
                      "base_exception": base,
                      "times_returned_by_the_failed_call": rec["dyn"]["times"],
                      "times_without_failure": ref["dyn"]["times"],
                      "how": "%s.compute(%r, progress_type=%r) with a user callable raising at "
                             "its %d-th call: the exception must propagate out of compute(), "
                             "instead compute() returns" % (name, target, progress, r)})
            found += 1
            continue
        if rec["oks"][:1] != "0":
            continue
        cid = 9 if rec["fired_in_init"] else rec["trace"][rec["fired_inv"]][0]
        if rec["oks"][1:] == "0":
            continue                                   # failed again: allowed
        if rec["fired_in_init"] and rec["oks"][1:] == "x":
            continue      # the networks were never built: the repeated call fails again
        ok = rec["oks"][1:] == "1" and same_dynamics(rec["dyn"], ref["dyn"])
        if not ok:
            what = {("tempo", 0): "system-propagators",
                    ("mft", 0): "field_eom-derivative", ("mft", 1): "system-propagators",
                    ("mft", 2): "field_eom-after-network-update"}.get((api, cid))
            if cid == 9:
                what = "bath-%s%s" % ({"corr": "correlation-function", "sd": "spectral-density"}
                                      .get(bath, "correlations"),
                                      "-during-initialize" if rec["fired_in_init"] else "")
            res.fail("retry:%s:%s%s%s" % (name, what, ":BaseException" if base else "",
                                          REGIME.get(variant, "")),
                     {"api": name, "start_time": s, "dt": d, "end_time": target, "variant": variant,
                      "progress_type": progress, "failing_bath_function": bath,
                      "raised_class": "a BaseException subclass that is not an Exception "
                                      "(like KeyboardInterrupt)" if base else "an Exception subclass",
                      "raw_user_call_index_that_raises_once": r,
                      "failed_in": what,
                      "retry_outcome": rec["internal"] or "returned",
                      "times_after_retry": rec["dyn"]["times"],
                      "times_without_failure": ref["dyn"]["times"],
                      "max_state_difference": max_diff(rec["dyn"], ref["dyn"]),
                      "how": "%s.compute(%r) with a user callable raising once at its %d-th "
                             "call, then compute(%r) again; compare with a fresh object "
                             "computed without failure" % (name, target, r, target)})
            found += 1
    return found


def pt_bath_run(n, mem, at, bath="corr"):
    """PtTempo whose bath function raises once at raw call `at`; compute(), on failure
    get_process_tensor() again; returns (raw calls, failed?, outcome, dynamics from the PT)"""
    import oqupy
    from oqupy import operators as op
    probe = Probe(at, False, bath)
    par = oqupy.TempoParameters(dt=0.1, epsrel=1e-4, **mem)
    ptt = oqupy.PtTempo(bath=make_bath(probe), start_time=0.0, end_time=dec_sum("0.0", "0.1", n),
                        parameters=par)
    probe.armed = True
    failed, outcome, states = False, "returned", None
    try:
        ptt.compute(progress_type="silent")
    except FAULTS:
        failed = True
    try:
        pt = ptt.get_process_tensor(progress_type="silent")
        probe.armed = False
        states = oqupy.compute_dynamics(system=oqupy.System(0.5 * op.sigma("x")),
                                        process_tensor=pt, initial_state=op.spin_dm("z+"),
                                        progress_type="silent").states
    except FAULTS:
        outcome = "failed again"
    except Exception as e:                          # noqa: BLE001
        outcome = "failed again (%s)" % type(e).__name__
    return probe.raw, failed, outcome, states


_PT_REF = {}


def oracle_pt_bath(res, n, mem, bath="corr", k=6):
    """PT-TEMPO: after a transient failure of the bath function the repeated call must fail
    again or give the undisturbed process tensor (judged by the dynamics it produces, 1e-8;
    the MPO tensors themselves are only fixed up to a gauge)"""
    key = (n, tuple(sorted(mem.items())), bath)
    if key not in _PT_REF:
        _PT_REF[key] = pt_bath_run(n, mem, None, bath)
    nraw, _, _, ref = _PT_REF[key]
    found = 0
    for at in spread(nraw, k):
        _, failed, outcome, states = pt_bath_run(n, mem, at, bath)
        if not failed or states is None:
            continue
        if states.shape != ref.shape or np.abs(states - ref).max() > 1e-8:
            res.fail("retry:PtTempo:bath-%s%s" % ("correlation-function" if bath == "corr"
                                                  else "spectral-density",
                                                  "" if mem.get("dkmax") else ":no-memory-cutoff"),
                     {"api": "PtTempo", "num_steps": n, "memory": mem, "failing_bath_function": bath,
                      "raw_user_call_index_that_raises_once": at,
                      "max_state_difference_of_dynamics_from_the_process_tensor":
                          float(np.abs(states - ref).max()) if states.shape == ref.shape
                          else "shapes differ"})
            found += 1
    return found


def max_diff(a, b):
    if len(a["states"]) != len(b["states"]):
        return "different number of states (%d vs %d)" % (len(a["states"]), len(b["states"]))
    dm = max([float(np.abs(x - y).max()) for x, y in zip(a["states"], b["states"])] + [0.0])
    df = max([abs(x - y) for x, y in zip(a["fields"], b["fields"])] + [0.0])
    return max(dm, df)


def oracle_split(res, api, s_l, d_l, ms, variant=0, read_between=False, progress="silent"):
    """a split computation (optionally with the results read between the calls, as a user
    does) must hand out the same times/states/fields as one call"""
    s, d = float(s_l), float(d_l)
    targets = [dec_sum(s_l, d_l, m) for m in ms]
    ops = []
    for t in targets:
        ops.append(("c", t))
        if read_between:
            ops.append(("g",))
    rec = run_history(api, s, d, ops, None, variant, False, progress)
    ref = single_call(api, s, d, max(targets), variant)
    if rec["oks"] != "1" * len(ms) or not same_dynamics(rec["dyn"], ref["dyn"]):
        name = {"tempo": "Tempo", "mft": "MeanFieldTempo"}[api]
        res.fail("split%s:%s targets=%s" % ("-read-between" if read_between else "", name, ms),
                 {"api": name, "start_time": s, "dt": d, "targets": targets,
                  "target_steps": ms, "variant": variant, "progress_type": progress,
                  "results_read_between_calls": read_between,
                  "number_of_states_handed_out": len(rec["dyn"]["states"]),
                  "number_of_times_handed_out": len(rec["dyn"]["times"]),
                  "times_history": rec["dyn"]["times"], "times_single": ref["dyn"]["times"],
                  "max_state_difference": max_diff(rec["dyn"], ref["dyn"])})


def oracle_pt(res, n, ops):
    rec = run_pt(n, ops)
    if "raised" in rec["outs"] or "pt:?" in rec["outs"] or rec["step"] != n:
        res.fail("idempotent:PtTempo:compute-when-complete",
                 {"api": "PtTempo", "num_steps": n, "history": ops, "outcomes": rec["outs"],
                  "backend_step_after": rec["step"],
                  "how": "PtTempo over %d steps; calls: %s (c = compute(), g = "
                         "get_process_tensor())" % (n, ops)})
        return 1
    return 0


def oracle_gibbs(res, n, k):
    rec = run_gibbs(n, k)
    changed = any(np.abs(x - rec["states"][0]).max() > TOL for x in rec["states"])
    if changed or rec["nrec"] != n + 1 or rec["step"] != n - 1:
        res.fail("idempotent:GibbsTempo:compute-twice",
                 {"api": "GibbsTempo", "n_steps": n, "compute_calls": k,
                  "backend_step_after": rec["step"], "recorded_states": rec["nrec"],
                  "expected_recorded_states": n + 1,
                  "max_change_of_get_state": float(max(np.abs(x - rec["states"][0]).max()
                                                       for x in rec["states"])),
                  "how": "GibbsTempo(n_steps=%d): compute() %d times, get_state() after each"
                         % (n, k)})
        return 1
    return 0


def oracle_restart(res, pre, post, m, n):
    rec = run_tebd_restart(pre, post, m, n)
    if rec["error"] is not None:
        res.fail("restart-raises:PtTebd%s" % (":pre-control-at-restart-step" if m in pre else ""),
                 {"api": "PtTebd", "pre_controls_at_steps": list(pre),
                  "post_controls_at_steps": list(post), "restart_step": m, "end_step": n,
                  "exception_in_restart": rec["error"]})
        return 1
    if not rec["results_equal"]:
        key = KEY_RESTART if m in pre else \
            "restart:PtTebd pre=%s post=%s m=%d n=%d" % (pre, post, m, n)
        res.fail(key, restart_payload(pre, post, m, n, rec))
        return 1
    return 0


def oracle_getters(res, pre, post, ops):
    """read-only getters between compute calls must not change what is recorded"""
    rec = run_tebd(pre, post, ops)
    single = run_tebd(pre, post, [max(tebd_targets(ops))])
    if not (same_tebd(rec["res"], single["res"], tol=1e-8) and rec["step"] == single["step"]):
        used = sorted(set(o for o in ops if o in ("d", "r", "m")))
        name = {"d": "get_current_density_matrix", "r": "get_results", "m": "get_augmented_mps"}
        a, b = rec["res"], single["res"]
        bad = [k for k, (x, y) in enumerate(zip(a["norm"], b["norm"])) if abs(x - y) > 1e-8] \
            if a["steps"] == b["steps"] else "different steps recorded"
        res.fail("getter:PtTebd:%s-between-computes" % "+".join(name[u] for u in used),
                 {"api": "PtTebd", "pre_controls_at_steps": list(pre),
                  "post_controls_at_steps": list(post), "calls": [str(o) for o in ops],
                  "how": "PtTebd: calls in order (integer = compute(end_step), d = "
                         "get_current_density_matrix(site), r = get_results(), m = "
                         "get_augmented_mps()); compare get_results() with one compute(%d) on a "
                         "fresh object" % max(tebd_targets(ops)),
                  "steps_recorded": a["steps"], "rows_with_wrong_norm": bad,
                  "norm_history": [repr(x) for x in a["norm"]],
                  "norm_single_call": [repr(x) for x in b["norm"]]})
        return 1
    return 0


def grid_histories():
    """(regime, start, dt, targets): split histories whose reached grid must not depend on the
    split — far origins advanced one step per call with on-grid float targets, long runs with
    the last target a hair below / on / above a grid point, reached in two or three calls"""
    out = []
    for s, d, n in ((-1.0e6, 0.01, 20), (1.0e5, 0.001, 40), (1.0e7, 0.1, 12), (-3.0e4, 0.001, 25),
                    (0.0, 0.1, 30)):
        out.append(("far-origin-step-by-step", s, d, [s + k * d for k in range(1, n + 1)]))
        out.append(("far-origin-two-steps-per-call", s, d, [s + k * d for k in range(2, n + 1, 2)]))
    for s, d in ((0.0, 0.1), (0.5, 0.01), (-2.0, 0.05), (1.0e3, 0.1)):
        for n in (40, 400, 1000):
            for rel in (-2.0e-7, -1.0e-9, -1.0e-12, 0.0, 1.0e-12, 1.0e-9, 2.0e-7):
                last = s + (n + rel) * d
                for p in (1, n // 2, n - 5, n - 1):
                    out.append(("many-steps-last-target-near-grid-point", s, d,
                                [s + p * d, last]))
                out.append(("many-steps-last-target-near-grid-point", s, d,
                            [s + (n // 3) * d, s + (n - 1 + rel) * d, last]))
    return out


def oracle_grid_split(res, real_objects=False):
    """split-vs-single at the level of the step-count rule: the real `_get_num_step` of Tempo
    and MeanFieldTempo on stub objects (cheap, thousands of histories), and — in the search —
    a few real computations in the same regimes"""
    import oqupy
    from . import oq
    found = 0
    for cls in (oqupy.Tempo, oqupy.MeanFieldTempo):
        stub_cls = type("Stub", (), {"_time": cls._time, "_get_num_step": cls._get_num_step})
        seen = set()
        for regime, s, d, targets in grid_histories():
            stub = stub_cls()
            stub._start_time = s
            stub._parameters = type("P", (), {"dt": d})()
            k = 0
            for e in targets:
                k += stub._get_num_step(k, e)
            single = stub._get_num_step(0, max(targets))
            if k != single and regime not in seen:
                seen.add(regime)
                found += 1
                res.fail("split-grid:%s:%s" % (cls.__name__, regime),
                         {"api": cls.__name__, "level": "_get_num_step on a stub object",
                          "start_time": s, "dt": d,
                          "targets": targets if len(targets) <= 6 else
                          [targets[0], targets[1], "...", targets[-1]],
                          "number_of_calls": len(targets),
                          "steps_reached_by_the_split_history": k,
                          "steps_of_one_call_with_the_furthest_target": single,
                          "how": "k = 0; for e in targets: k += obj._get_num_step(k, e); compare "
                                 "with obj._get_num_step(0, max(targets))"})
    if not real_objects:
        return found
    real = [("tempo", -1.0e6, 0.01, [-1.0e6 + k * 0.01 for k in range(1, 21)],
             "far-origin-step-by-step"),
            ("tempo", 0.0, 0.1, [395 * 0.1, (400 - 2.0e-7) * 0.1],
             "many-steps-last-target-near-grid-point"),
            ("mft", 1.0e5, 0.001, [1.0e5 + k * 0.001 for k in range(1, 41)],
             "far-origin-step-by-step"),
            ("mft", 0.0, 0.1, [35 * 0.1, (40 - 2.0e-7) * 0.1],
             "many-steps-last-target-near-grid-point")]
    for api, s, d, targets, regime in real:
        mk = oq.cheap_tempo if api == "tempo" else oq.cheap_mft
        a = mk(s, d)
        for e in targets:
            a.compute(e, progress_type="silent")
        b = mk(s, d)
        b.compute(max(targets), progress_type="silent")
        da, db = dyn_snapshot(api, a.get_dynamics()), dyn_snapshot(api, b.get_dynamics())
        if not same_dynamics(da, db):
            name = {"tempo": "Tempo", "mft": "MeanFieldTempo"}[api]
            found += 1
            res.fail("split-grid:%s:%s:real-object" % (name, regime),
                     {"api": name, "start_time": s, "dt": d, "number_of_calls": len(targets),
                      "first_targets": targets[:2], "last_target": targets[-1],
                      "states_after_the_split_history": len(da["times"]),
                      "states_after_one_call_with_the_furthest_target": len(db["times"]),
                      "max_state_difference": max_diff(da, db)})
    return found


def search(res, rng=None):
    """Spec-level oracles on the real code (used when a proof/tie broke)."""
    # the grid reached must not depend on how the run is split (function level + real objects)
    oracle_grid_split(res, real_objects=True)
    # retry after a transient failure, for both kinds of exception class
    for api in ("tempo", "mft"):
        for base in (False, True):
            oracle_retry(res, api, "0.0", "0.1", 5, 0, base=base)
        oracle_retry(res, api, "0.5", "0.2", 3, 1 if api == "tempo" else 0)
        # the other memory regimes: no cut-off, cut-off with add_correlation_time
        oracle_retry(res, api, "0.0", "0.1", 5, 3, base=(api == "tempo"))
        oracle_retry(res, api, "0.0", "0.1", 5, 4, base=(api == "mft"))
        # failing bath functions, every memory regime
        oracle_retry(res, api, "0.0", "0.1", 5, 3, bath="corr")
        oracle_retry(res, api, "0.0", "0.1", 5, 4, bath="corr", base=True)
        oracle_retry(res, api, "0.0", "0.1", 4, 0, bath="corr")
        oracle_retry(res, api, "0.0", "0.1", 4, 3, bath="sd")
    for mem in (dict(dkmax=None), dict(dkmax=2), dict(dkmax=2, add_correlation_time=0.15)):
        oracle_pt_bath(res, 5, mem, "corr", 10)
    oracle_pt_bath(res, 4, dict(dkmax=None), "sd", 6)
    # read-only getters between compute calls
    for (pre, post, ops) in [((), (), [2, "d", 4]), ((1,), (2,), [0, "d", 3]),
                             ((), (), [2, "r", 4]), ((), (), [2, "m", 4]),
                             ((0,), (1,), [1, "d", "r", 2, "m", "d", 4])]:
        oracle_getters(res, pre, post, ops)
    # idempotence
    for n in (2, 4):
        for h in ("cc", "cgc", "gcg", "gg", "ccg"):
            oracle_pt(res, n, h)
    for n in (2, 5):
        for k in (2, 3):
            oracle_gibbs(res, n, k)
    # splitting
    for api in ("tempo", "mft"):
        for k, ms in enumerate(([2, 4], [4, 2], [1, 1, 3], [3, 0, 4, 2], [5, 1])):
            oracle_split(res, api, "0.0", "0.1", ms, progress=PROGRESS_TYPES[k % 3])
            oracle_split(res, api, "0.0", "0.1", ms, read_between=True,
                         progress=PROGRESS_TYPES[(k + 1) % 3])
    for (pre, post, ts) in [((1,), (2,), [2, 1, 4]), ((0,), (0,), [3, 3]), ((), (), [1, 2, 3])]:
        a, b = run_tebd(pre, post, ts), run_tebd(pre, post, [max(ts)])
        if not same_tebd(a["res"], b["res"], tol=1e-8):
            res.fail("split:PtTebd targets=%s" % ts, {"pre": pre, "post": post, "targets": ts})
    # restart
    for (pre, post, m, n) in [((), (), 2, 4), ((1,), (2,), 2, 4), ((2,), (), 2, 4), ((1,), (), 1, 3)]:
        oracle_restart(res, pre, post, m, n)
    for pre, post, m, n in EXACT_RESTARTS:
        for protocol in ("remaining-controls", "idempotent-control"):
            oracle_restart_exact(res, pre, post, m, n, protocol)


def replay_case(res, payload):
    """re-run one stored failing input (corpus / --replay) against the real code"""
    fi = payload.get("failing_input", payload)
    key = payload.get("key", "")
    if key.startswith("fault-swallowed:"):
        api = "tempo" if fi["api"] == "Tempo" else "mft"
        rec = run_history(api, fi["start_time"], fi["dt"], [("c", fi["end_time"])],
                          fi["raw_user_call_index_that_raises_once"], fi.get("variant", 0),
                          fi.get("base_exception", False), fi["progress_type"])
        if rec["fired_inv"] is not None and rec["oks"] == "1":
            res.fail(key, fi)
            return True
        return False
    if key.startswith("split"):
        api = "tempo" if fi["api"] == "Tempo" else "mft"
        n0 = len(res.failing)
        # grid of the stored case: literal targets of start 0.0 / dt 0.1
        oracle_split(res, api, repr(fi["start_time"]), repr(fi["dt"]), fi["target_steps"],
                     fi.get("variant", 0), fi.get("results_read_between_calls", False),
                     fi.get("progress_type", "silent"))
        return len(res.failing) > n0
    if key.startswith("retry:"):
        api = "tempo" if fi["api"] == "Tempo" else "mft"
        s, d, target = fi["start_time"], fi["dt"], fi["end_time"]
        r = fi["raw_user_call_index_that_raises_once"]
        ref = single_call(api, s, d, target, fi.get("variant", 0))
        if fi["api"] == "PtTempo":
            n0 = len(res.failing)
            oracle_pt_bath(res, fi["num_steps"], fi["memory"], fi["failing_bath_function"], 10)
            return len(res.failing) > n0
        bath = fi.get("failing_bath_function")
        ref = single_call(api, s, d, target, fi.get("variant", 0), bath)
        rec = run_history(api, s, d, [("c", target), ("c", target)], r, fi.get("variant", 0),
                          ":BaseException" in key, fi.get("progress_type", "silent"), bath)
        if rec["oks"][:1] == "0" and rec["oks"][1:] != "0" and not (
                rec["oks"][1:] == "1" and same_dynamics(rec["dyn"], ref["dyn"])):
            res.fail(key, fi)
            return True
        return False
    if key.startswith("idempotent:PtTempo"):
        return bool(oracle_pt(res, fi["num_steps"], fi["history"]))
    if key.startswith("idempotent:GibbsTempo"):
        return bool(oracle_gibbs(res, fi["n_steps"], fi["compute_calls"]))
    if key.startswith("getter:"):
        return bool(oracle_getters(res, tuple(fi["pre_controls_at_steps"]),
                                   tuple(fi["post_controls_at_steps"]),
                                   [o if o in ("d", "r", "m") else int(o) for o in fi["calls"]]))
    if key.startswith("restart-exact:"):
        return bool(oracle_restart_exact(res, tuple(fi["pre_controls_at_steps"]),
                                         tuple(fi["post_controls_at_steps"]),
                                         fi["restart_step"], fi["end_step"], fi["protocol"]))
    if key.startswith("restart:"):
        return bool(oracle_restart(res, tuple(fi["pre_controls_at_steps"]),
                                   tuple(fi["post_controls_at_steps"]),
                                   fi["restart_step"], fi["end_step"]))
    return False


def run(tier, seed, replay):
    res = fw.Result(PID, tier, seed, level="proof")
    rng = random.Random(seed)
    res.rule = (
        "real Tempo/MeanFieldTempo objects (2-level, <= 6 steps, memory regimes dkmax=2 / dkmax=2 "
        "with add_correlation_time / no cut-off, time-dependent "
        "Hamiltonian/rates/field equation wrapped by counters): every target sequence over a "
        "4-step grid up to length 2 (quick) / 3 (thorough), sampled longer ones, targets as "
        "literals / computed / off-grid / before start, interleaved get_dynamics with every public "
        "read of the results (.states/.times/.fields/expectations) between the calls, all three "
        "progress types in rotation; a transient "
        "fault at EVERY raw call index of the user callables with three retry shapes, raised as "
        "an Exception subclass and as a BaseException subclass that is not an Exception; PtTempo "
        "every compute/get history up to length 3 + sampled; GibbsTempo 1-3 computes; PtTebd "
        "target sequences x control layouts with the read-only getters get_current_density_matrix / "
        "get_results / get_augmented_mps between the compute calls, restarts from the exported "
        "chain state.  Compared "
        "exactly with the Lean history models: call outcomes, backend step, number and trace "
        "(callable id, step argument) of user-callable invocations, time lists (bit-exact), "
        "applied-operation logs; 'equals the single-call result' as a flag (states to 1e-10). "
        "Non-trivial = takes at least one step; distinct = distinct protocol line.")
    res.assumptions = [
        "a user callable's failure is an exception of ANY class (Exception or other BaseException) "
        "raised by the callable (not a crash of the process); it may happen at any of its "
        "invocations, any number of times; the bath correlation function / spectral density "
        "evaluated by the influence functions is one of the user callables (id 9)",
        "PtTebdBackend.compute_traces: a control-flow path that returns without recomputing is "
        "taken whenever traces are still present (worst case; pinned by the correspondence)",
        "the real functions are deterministic: equal abstract states (step counter, log of "
        "network updates with their step arguments and user-callable inputs, recorded results) "
        "mean equal numbers",
        "binary64 model for time labels/step counts as in C13; dt > 0",
        "PtTempoBackend.compute_step beyond the last step raises (no influence tensor left); "
        "TIBaseBackend.initialise records three states — both pinned by the correspondence",
    ]
    res.not_shown = [
        "bath-function failures while the networks are first built (initialize) and in PT-TEMPO "
        "are not part of the fault model: they are judged on the real code by the property text "
        "only (the repeated call fails again or gives the undisturbed result); observed: after "
        "such a failure during initialize a Tempo/MeanFieldTempo object raises on every later "
        "call, and a PtTempo with add_correlation_time raises an AssertionError — never a "
        "silently different result",
        "KeyboardInterrupt/asynchronous interruption between two statements of compute() "
        "itself (after compute_step returned, before dynamics.add) is not modelled",
        "PtTebd restart: time stamps of the restarted object are start_time' + dt*(k-m), equal "
        "to the uninterrupted ones only up to rounding (compared to 1e-9, not proved)",
        "restart_eq_uninterrupted is proved only without a pre-measurement control at the "
        "restart step (known finding " + KEY_RESTART + ")",
        "mean-field systems with several sub-systems are modelled with one propagator "
        "invocation per step (the order is the same for each sub-system)",
    ]
    res.trusted.append("Lemmas/FloatGrid.lean (steps_mono, gridTime_mono) for the monotonicity "
                       "hypotheses of the TEMPO instances")

    # stored failing inputs first
    files = [replay] if replay else sorted(glob.glob(os.path.join(fw.CORPUS, PID, "*.json")))
    for f in files:
        try:
            payload = json.load(open(f))
        except (OSError, ValueError):
            continue
        again = replay_case(res, payload)
        res.count("corpus:%s" % ("fails" if again else "passes"))
        if again:
            fw.log("stored failing input still fails: %s" % f)
    if replay:
        # replay mode judges the stored input only and leaves the evidence file alone
        kf, _ = fw.known_findings(PID)
        known = {e["key"]: e for e in kf}
        rc = 0
        for key, payload in res.failing:
            if key in known:
                fw.log("KNOWN-FINDING: property=%s %s" % (PID, known[key]["what"]))
            else:
                path = fw.write_replay(PID, {"property": PID, "key": key, "failing_input": payload,
                                             "seed": seed})
                fw.log("VIOLATION property=%s replay=%s" % (PID, path))
                rc = 1
        if rc == 0:
            fw.log("OK property=%s replay=%s no longer fails%s" % (
                PID, replay, " (apart from known findings)" if res.failing else ""))
        return rc

    fw.standard_pipeline(res, ["StepCount", "LoopOrder"], THEOREMS)
    built = all(o[1] for o in res.obligations if o[0].startswith("translator"))
    try:
        if built:
            correspondence(res, tier, rng)
        else:
            res.notes.append("correspondence skipped: generated model unavailable")
    except fw.Infra as e:
        res.oblige("correspondence run", False, str(e))
    if res.broken:
        # a proof obligation / tie broke: look for concrete failing inputs on the real code
        # (also when the known restart finding has already been recorded above)
        fw.log("a proof obligation or tie broke (%s); searching the real code for failing "
               "inputs ..." % ", ".join(res.broken))
        try:
            search(res)
        except Exception:                           # noqa: BLE001
            import traceback
            res.notes.append("search raised: " + traceback.format_exc()[-1500:])
    return fw.finish(res, None)
