"""C13 — time grid and labels.  See DESIGN.md §4 C13."""
import random
from types import SimpleNamespace as NS

import numpy as np

from . import framework as fw
from .framework import rat, parse_rat

PID = "C13"
THEOREMS = [
    "OQuPyVerif.Props.C13.labels_tempo", "OQuPyVerif.Props.C13.labels_mft",
    "OQuPyVerif.Props.C13.labels_tebd", "OQuPyVerif.Props.C13.labels_cd_all",
    "OQuPyVerif.Props.C13.labels_cdwf_all", "OQuPyVerif.Props.C13.labels_grad_all",
    "OQuPyVerif.Props.C13.label_count",
    "OQuPyVerif.Props.C13.label_final_cd", "OQuPyVerif.Props.C13.label_final_cdwf",
    "OQuPyVerif.Props.C13.label_final_grad",
    "OQuPyVerif.Props.C13.num_step_tempo", "OQuPyVerif.Props.C13.num_step_mft",
    "OQuPyVerif.Props.C13.pt_length",
    "OQuPyVerif.Props.C13.grid_general", "OQuPyVerif.Props.C13.grid_general_floor",
    "OQuPyVerif.Props.C13.steps_abstract_eq", "OQuPyVerif.Props.C13.grid_general_binary64",
    "OQuPyVerif.Props.C13.labels_monotone", "OQuPyVerif.Props.C13.tempo_history_grid",
    "OQuPyVerif.FloatGrid.rnd_err", "OQuPyVerif.FloatGrid.rnd_mono",
    "OQuPyVerif.FloatGrid.steps_mono",
    "OQuPyVerif.Props.C13.mfd_add_is_spec", "OQuPyVerif.Props.C13.dynamics_add_is_dynAdd",
    "OQuPyVerif.Props.C13.mfd_sorted_aligned",
    "OQuPyVerif.Props.C13.grid_lattice_quick",
    "OQuPyVerif.Props.C13.dynamics_sorted_aligned",
    "OQuPyVerif.Props.C13.dynamics_sorted_aligned_all",
    "OQuPyVerif.Props.C13.compute_history_grid",
    "OQuPyVerif.Props.C13.tebd_compute_reaches", "OQuPyVerif.Props.C13.tebd_compute_steps_nonneg",
    "OQuPyVerif.Props.C13.tebd_history_grid",
    "OQuPyVerif.Props.C13.cd_num_steps_given", "OQuPyVerif.Props.C13.cd_num_steps_default",
    "OQuPyVerif.Props.C13.cd_num_steps_too_long",
    "OQuPyVerif.Props.C13.live_reads_current", "OQuPyVerif.Props.C13.dynamics_views_current",
]

DT_LITS = ["0.1", "0.01", "0.2", "0.05", "0.025", "0.3", "0.001", "0.07", "0.4", "0.125", "1.5", "0.06"]
START_LITS = ["0.0", "0.5", "-0.3", "1.7"]


def dec_sum(s_lit, dt_lit, m):
    """the decimal literal of s + m*dt, as Python parses it"""
    from decimal import Decimal
    return float(Decimal(s_lit) + m * Decimal(dt_lit))


def gen_triples(rng, n):
    """(start, dt, end, kind)"""
    out = []
    for _ in range(n):
        kind = rng.choice(["lattice", "lattice", "computed", "offgrid", "random", "before"])
        if kind == "lattice":
            s_l, d_l = rng.choice(START_LITS), rng.choice(DT_LITS)
            m = rng.randrange(0, 1001)
            out.append((float(s_l), float(d_l), dec_sum(s_l, d_l, m), kind))
        elif kind == "computed":
            s, d = rng.uniform(-5, 5), rng.choice([0.1, 0.01, 0.37, rng.uniform(0.001, 2)])
            m = rng.randrange(0, 500)
            out.append((s, d, s + m * d, kind))
        elif kind == "offgrid":
            s, d = rng.uniform(-5, 5), rng.uniform(0.001, 2)
            m = rng.randrange(0, 500)
            out.append((s, d, s + (m + rng.uniform(0.01, 0.99)) * d, kind))
        elif kind == "before":
            s, d = rng.uniform(-5, 5), rng.uniform(0.001, 2)
            out.append((s, d, s - rng.uniform(0, 3), kind))
        else:
            s, d = rng.uniform(-100, 100), 10 ** rng.uniform(-3, 1)
            out.append((s, d, s + rng.uniform(0, 400) * d, kind))
    return out


def num_steps_cases(rng, n):
    """(api, num_steps or None, shortest finite PT length or None, start, dt, record_all)"""
    out = [("cd", 0, 4, 1.3, 0.1, True), ("cd", 0, 4, 1.3, 0.1, False),
           ("cdwf", 0, 3, 0.0, 0.2, True), ("cdwf", 0, 3, 0.0, 0.2, False),
           ("grad", None, 3, -0.5, 0.1, True), ("cd", None, 4, 0.7, 0.1, True),
           ("cd", 0, None, 0.2, 0.1, True), ("cd", None, None, 0.0, 0.1, True),
           ("cd", 5, 4, 0.0, 0.1, True), ("cdwf", None, 3, 0.4, 0.1, False)]
    for _ in range(n):
        plen = rng.choice([None, 2, 3, 5])
        ns = rng.choice([None, 0, 0, 1, 2, 3, 6])
        api = rng.choice(["cd", "cdwf", "grad"])
        if api == "grad" and ns == 0:
            # a gradient over zero steps has no parameters; the backpropagation indexes step -1
            # and raises IndexError: nothing is returned, so nothing can be mislabelled
            ns = 1
        if api == "grad" and plen is None:
            plen = 3            # the gradient is defined through process tensors only
        out.append((api, ns, plen, rng.choice([0.0, 0.5, -0.3, 1.7]), rng.choice([0.1, 0.2, 0.05]),
                    bool(rng.randrange(2))))
    return out


def real_resolve(api, ns, plen, s, d, rec, trivial=False):
    """call the real entry point; ("ok <steps taken>" | "error <kind>", times)"""
    import oqupy
    from oqupy import operators as op
    from oqupy.gradient import compute_gradient_and_dynamics
    from . import oq
    pts = [oq.identity_pt(plen + 2), oq.identity_pt(plen)] if plen is not None else []
    if trivial:
        # a process tensor without environment: unlimited length, must not limit the run
        pts = [oqupy.TrivialProcessTensor(hilbert_space_dimension=2)] + pts
    try:
        if api == "cd":
            dyn = oqupy.compute_dynamics(system=oq.cheap_system(), initial_state=op.spin_dm("z+"),
                                         dt=d, num_steps=ns, start_time=s, process_tensor=pts,
                                         record_all=rec, progress_type="silent")
        elif api == "cdwf":
            tsys = oqupy.TimeDependentSystemWithField(lambda t, a: 0.5 * op.sigma("x"))
            mfs = oqupy.MeanFieldSystem([tsys], lambda t, st, a: -0.1j * a)
            dyn = oqupy.compute_dynamics_with_field(
                mfs, initial_field=1.0, initial_state_list=[op.spin_dm("z+")], dt=d, num_steps=ns,
                start_time=s, process_tensor_list=[pts], record_all=rec, progress_type="silent")
        else:
            psys = oqupy.ParameterizedSystem(lambda x: x * op.sigma("x"))
            n_par = ns if ns is not None else (plen if plen is not None else 1)
            _, dyn = compute_gradient_and_dynamics(
                system=psys, parameters=np.full((2 * max(n_par, 1), 1), 0.3),
                initial_state=op.spin_dm("z+"), target_derivative=op.spin_dm("x+"),
                process_tensors=pts, dt=d, num_steps=ns, start_time=s, record_all=rec,
                progress_type="silent")
    except (ValueError, AssertionError, TypeError) as e:
        msg = str(e)
        kind = "too-long" if "larger than the shortest" in msg else \
            "unspecified" if "must be specified" in msg else "other:" + msg[:60]
        return "error " + kind, []
    times = [float(t) for t in dyn.times]
    # steps taken: with record_all the number of recorded states minus one; without, read it
    # off the label through the exact grid (start + n*dt is injective for these small cases)
    if rec:
        n = len(times) - 1
    else:
        n = next((k for k in range(0, 64) if s + k * d == times[0]), -1)
    return "ok %d" % n, times


def real_tebd_history(s, d, ks, ends):
    import oqupy
    from oqupy import operators as op
    chain = oqupy.SystemChain(hilbert_space_dimensions=[2, 2])
    chain.add_site_hamiltonian(site=0, hamiltonian=op.sigma("z"))
    chain.add_nn_hamiltonian(site=0, hamiltonian_l=op.sigma("x"), hamiltonian_r=op.sigma("x"))
    up = op.spin_dm("z+")
    tebd = oqupy.PtTebd(initial_augmented_mps=oqupy.AugmentedMPS([up, up]), system_chain=chain,
                        process_tensors=[None, None],
                        parameters=oqupy.PtTebdParameters(dt=d, order=1, epsrel=1.0e-4),
                        dynamics_sites=[0], start_time=s, start_step=ks)
    r = None
    for e in ends:
        r = tebd.compute(end_step=e, progress_type="silent")
    return tebd.step, [float(t) for t in r["time"]]


class _Stop(Exception):
    pass


def truncated_runs():
    """a user callable that starts failing mid-run: the computation must raise, never return a
    dynamics that silently stops short of the requested grid.  Yields (what, outcome)."""
    import io
    import contextlib
    import oqupy
    from oqupy import operators as op
    from . import oq

    def ham(t):
        if t > 1.1:              # (the constructors probe the callable once at t = 1.0)
            raise _Stop("no Hamiltonian beyond t = 1.1")
        return 0.5 * op.sigma("x")
    for ptype in ("silent", "simple", "bar"):
        for api in ("Tempo.compute", "compute_dynamics"):
            out = io.StringIO()
            try:
                with contextlib.redirect_stdout(out):
                    if api == "Tempo.compute":
                        t = oqupy.Tempo(oqupy.TimeDependentSystem(ham), oq.cheap_bath(),
                                        oq.cheap_params(0.25), op.spin_dm("z+"), start_time=0.0)
                        dyn = t.compute(1.5, progress_type=ptype)
                    else:
                        dyn = oqupy.compute_dynamics(oqupy.TimeDependentSystem(ham),
                                                     initial_state=op.spin_dm("z+"), dt=0.25,
                                                     num_steps=6, start_time=0.0, progress_type=ptype)
                outcome = "returned %d of 7 grid points without an error" % len(dyn.times)
            except _Stop:
                outcome = "raised"
            yield "%s progress_type=%s" % (api, ptype), outcome


def resumed_runs():
    """a user callable fails ONCE in the middle of a run; the computation is called again: the
    dynamics must then hold the whole grid (no hole where the failed call had already stepped)"""
    import oqupy
    from oqupy import operators as op
    from . import oq
    for api in ("Tempo", "MeanFieldTempo"):
        state = {"failed": False}

        def trip(t):
            if t > 1.1 and not state["failed"]:
                state["failed"] = True
                raise _Stop("transient failure")

        if api == "Tempo":
            def ham(t):
                trip(t)
                return 0.5 * op.sigma("x")
            obj = oqupy.Tempo(oqupy.TimeDependentSystem(ham), oq.cheap_bath(), oq.cheap_params(0.25),
                              op.spin_dm("z+"), start_time=0.0)
        else:
            def hamf(t, a):
                trip(t)
                return 0.5 * op.sigma("x") + 0.1 * np.real(a) * op.sigma("z")
            mfs = oqupy.MeanFieldSystem([oqupy.TimeDependentSystemWithField(hamf)],
                                        lambda t, st, a: -0.1j * a)
            obj = oqupy.MeanFieldTempo(mean_field_system=mfs, bath_list=[oq.cheap_bath()],
                                       initial_state_list=[op.spin_dm("z+")], initial_field=1.0,
                                       start_time=0.0, parameters=oq.cheap_params(0.25))
        try:
            obj.compute(1.5, progress_type="silent")
            first = "returned"
        except _Stop:
            first = "raised"
        dyn = obj.compute(1.5, progress_type="silent")
        yield api, first, [float(x) for x in dyn.times]


def correspondence(res, tier, rng):
    import oqupy
    from oqupy import operators as op
    from . import oq
    lines, expect, meta = [], [], []

    def add(line, exp, m):
        lines.append(line)
        expect.append(exp)
        meta.append(m)

    nfun = 300 if tier == "quick" else 3000
    for (s, d, e, kind) in gen_triples(rng, nfun):
        k0 = rng.choice([0, 0, 1, 3, 50])
        stub = NS(_start_time=s, _parameters=NS(dt=d))
        add("numstep tempo %s %s %d %s" % (rat(s), rat(d), k0, rat(e)),
            str(oqupy.Tempo._get_num_step(stub, k0, e)), ("numstep-tempo", kind, s, d, k0, e))
        add("numstep mft %s %s %d %s" % (rat(s), rat(d), k0, rat(e)),
            str(oqupy.MeanFieldTempo._get_num_step(stub, k0, e)), ("numstep-mft", kind, s, d, k0, e))
        k = rng.randrange(0, 2000)
        add("time tempo %s %s %d" % (rat(s), rat(d), k), rat(oqupy.Tempo._time(stub, k)),
            ("time-tempo", kind, s, d, k))
        add("time mft %s %s %d" % (rat(s), rat(d), k), rat(oqupy.MeanFieldTempo._time(stub, k)),
            ("time-mft", kind, s, d, k))
        ks = rng.randrange(0, 20)
        stub2 = NS(_start_time=s, _parameters=NS(dt=d), _start_step=ks)
        add("tebdtime %s %s %d %d" % (rat(s), rat(d), ks, ks + k),
            rat(oqupy.PtTebd.time(stub2, ks + k)), ("time-tebd", kind, s, d, ks, k))
        res.count("fn:" + kind)

    # PtTempo: the real constructor (its step count is inline)
    npt = 25 if tier == "quick" else 150
    for (s, d, e, kind) in gen_triples(rng, npt * 3):
        if npt == 0:
            break
        try:
            pt = oqupy.PtTempo(bath=oq.cheap_bath(), start_time=s, end_time=e,
                               parameters=oq.cheap_params(d))
            got = str(pt._num_steps)
        except AssertionError:
            got = "assert<2"
        lines.append("ptsteps %s %s %s" % (rat(s), rat(d), rat(e)))
        expect.append(got)
        meta.append(("ptsteps", kind, s, d, e))
        res.count("pt:" + kind)
        npt -= 1

    # histories on real Tempo / MeanFieldTempo objects
    nh = 12 if tier == "quick" else 80
    for i in range(nh):
        s_l, d_l = rng.choice(START_LITS), rng.choice(["0.1", "0.2", "0.05", "0.3", "0.07"])
        s, d = float(s_l), float(d_l)
        targets = []
        for _ in range(rng.randrange(1, 4)):
            m = rng.randrange(0, 9)
            targets.append(rng.choice([dec_sum(s_l, d_l, m), s + m * d, s + (m + 0.5) * d, s - d]))
        api = "tempo" if i % 3 else "mft"
        obj = oq.cheap_tempo(s, d) if api == "tempo" else oq.cheap_mft(s, d)
        for t in targets:
            dyn = obj.compute(t, progress_type="silent")
            # read the views between the calls, as a user following a long run does
            views = [dyn.system_dynamics[0]] if api == "mft" else [dyn]
            for vw in views:
                if len(vw.states) != len(vw.times) or len(vw.times) != len(vw):
                    res.disagree("after compute(%r): %d times but %d states handed out"
                                 % (t, len(vw.times), len(vw.states)),
                                 {"api": api, "start_time": s, "dt": d, "targets": targets})
            if api == "mft" and len(dyn.fields) != len(dyn.times):
                res.disagree("after compute(%r): %d times but %d fields handed out"
                             % (t, len(dyn.times), len(dyn.fields)),
                             {"api": api, "start_time": s, "dt": d, "targets": targets})
        times = [float(x) for x in dyn.times]
        add("hist %s %s %s %s" % (api, rat(s), rat(d), " ".join(rat(t) for t in targets)),
            "%d;%s;%s" % (obj._backend_instance.step, " ".join(rat(t) for t in times),
                          " ".join(str(k) for k in range(len(times)))),
            ("hist-" + api, s, d, targets))
        res.count("hist:" + api)

    # compute_dynamics / with_field / gradient: labels, both record_all settings
    ncd = 10 if tier == "quick" else 60
    sysm = oq.cheap_system()
    for i in range(ncd):
        s, d = rng.choice([0.0, 0.5, -0.3, 1.7, rng.uniform(-3, 3)]), rng.choice([0.1, 0.2, 0.05, 0.3])
        n = rng.randrange(1, 8)
        rec = bool(i % 2)
        dyn = oqupy.compute_dynamics(system=sysm, initial_state=op.spin_dm("z+"), dt=d,
                                     num_steps=n, start_time=s, record_all=rec,
                                     progress_type="silent")
        add("cd cd %s %s %s %d" % ("all" if rec else "final", rat(s), rat(d), n),
            " ".join(rat(float(t)) for t in dyn.times), ("cd", s, d, n, rec))
        tsys = oqupy.TimeDependentSystemWithField(lambda t, a: 0.5 * op.sigma("x"))
        mfs = oqupy.MeanFieldSystem([tsys], lambda t, st, a: -0.1j * a)
        mdyn = oqupy.compute_dynamics_with_field(mfs, initial_field=1.0,
                                                 initial_state_list=[op.spin_dm("z+")], dt=d,
                                                 num_steps=n, start_time=s, record_all=rec,
                                                 progress_type="silent")
        add("cd cdwf %s %s %s %d" % ("all" if rec else "final", rat(s), rat(d), n),
            " ".join(rat(float(t)) for t in mdyn.times), ("cdwf", s, d, n, rec))
        psys = oqupy.ParameterizedSystem(lambda x: x * op.sigma("x"))
        pt = oq.identity_pt(n)
        from oqupy.gradient import compute_gradient_and_dynamics
        params = np.full((2 * n, 1), 0.3)
        _, gdyn = compute_gradient_and_dynamics(
            system=psys, parameters=params, initial_state=op.spin_dm("z+"),
            target_derivative=op.spin_dm("x+"), process_tensors=[pt], dt=d, num_steps=n,
            start_time=s, record_all=rec, progress_type="silent")
        add("cd grad %s %s %s %d" % ("all" if rec else "final", rat(s), rat(d), n),
            " ".join(rat(float(t)) for t in gdyn.times), ("grad", s, d, n, rec))
        res.count("cd:record_all=%s" % rec)

    # how num_steps is resolved (zero steps given explicitly, not given, too long) next to
    # finite process tensors, through the three real entry points
    for idx, (api, ns, plen, s, d, rec) in enumerate(num_steps_cases(rng, 8 if tier == "quick" else 40)):
        trivial = api == "cd" and idx % 3 == 0
        got_res, got_times = real_resolve(api, ns, plen, s, d, rec, trivial)
        add("resolve %s %s" % ("none" if ns is None else ns, "none" if plen is None else plen),
            got_res, ("resolve", api, ns, plen, s, d, rec))
        if got_res.startswith("ok"):
            n = int(got_res.split()[1])
            add("cd %s %s %s %s %d" % (api, "all" if rec else "final", rat(s), rat(d), n),
                " ".join(rat(t) for t in got_times), ("resolve-times", api, ns, plen, s, d, rec))
        res.count("resolve:%s:%s" % ("none" if ns is None else ("zero" if ns == 0 else "pos"),
                                     "nopt" if plen is None else "pt"))

    # PtTebd: histories of compute(end_step) calls on real objects (continuations, no-op repeats,
    # non-zero start steps)
    nt = 8 if tier == "quick" else 40
    for i in range(nt):
        s, d = rng.choice([0.0, 1.0, -0.3, 0.5]), rng.choice([0.1, 0.2, 0.05])
        ks = rng.choice([0, 0, 2, 5])
        ends = [ks + rng.randrange(0, 7) for _ in range(rng.randrange(1, 4))]
        if i == 0:
            ks, ends = 0, [3, 5]
        elif i == 1:
            ks, ends = 2, [5, 5, 4]
        step, times = real_tebd_history(s, d, ks, ends)
        add("histtebd %s %s %d %s" % (rat(s), rat(d), ks, " ".join(str(e) for e in ends)),
            "%d;%s" % (step, " ".join(rat(t) for t in times)), ("hist-tebd", s, d, ks, ends))
        res.count("hist:tebd:calls=%d" % len(ends))

    # Dynamics.add / MeanFieldDynamics.add with out-of-order times and tagged states / fields
    from oqupy.dynamics import Dynamics, MeanFieldDynamics
    nadd = 25 if tier == "quick" else 200
    for i in range(nadd):
        m = rng.randrange(1, 4)
        k = rng.randrange(1, 7)
        ts = [rng.choice([0.0, 0.1, 0.2, 0.30000000000000004, 0.3, -0.5, 1.5, rng.uniform(-2, 2)])
              for _ in range(k)]
        mfd = MeanFieldDynamics()
        toks = []
        for j, t in enumerate(ts):
            tags = [100 * (j + 1) + q for q in range(m)]
            mfd.add(t, [np.array([[tag, 0], [0, 0]], dtype=complex) for tag in tags], complex(7 * (j + 1)))
            toks.append("%s:%d:%s" % (rat(t), 7 * (j + 1), ",".join(str(x) for x in tags)))
        sys_s = " / ".join(
            " ".join(rat(float(x)) for x in d.times) + " # " +
            " ".join(str(int(round(st[0, 0].real))) for st in d.states)
            for d in mfd.system_dynamics)
        add("mfd " + " ".join(toks),
            "%s | %s | %s" % (" ".join(rat(float(x)) for x in mfd.times),
                              " ".join(str(int(round(f.real))) for f in mfd.fields), sys_s),
            ("mfd-add", m, ts))
        dyn = Dynamics()
        toks = []
        for j, t in enumerate(ts):
            dyn.add(t, np.array([[j + 1, 0], [0, 0]], dtype=complex))
            toks.append("%s:%d" % (rat(t), j + 1))
        add("dynadd " + " ".join(toks),
            "%s | %s" % (" ".join(rat(float(x)) for x in dyn.times),
                         " ".join(str(int(round(st[0, 0].real))) for st in dyn.states)),
            ("dyn-add", ts))
        res.count("add-history:len=%d" % k)

    # a failure inside the stepping loop is never turned into a shorter grid
    for what, outcome in truncated_runs():
        res.case("fault:" + what, True, None)
        res.count("fault-propagates")
        if outcome != "raised":
            res.fail("truncated:" + what,
                     {"api": what, "requested": "7 grid points 0.0 ... 1.5 (dt 0.25), Hamiltonian "
                      "raises for t > 1.1", "outcome": outcome})

    grid7 = [0.25 * k for k in range(7)]
    for api, first, times in resumed_runs():
        res.case("resume:" + api, True, None)
        res.count("resume-after-fault")
        if first != "raised" or times != grid7:
            res.fail("resume:%s after a transient failure" % api,
                     {"api": api, "sequence": "compute(1.5) with a Hamiltonian failing once for t > 1.1; "
                      "compute(1.5) again", "first_call": first, "got_times": times,
                      "expected_times": grid7})

    out = fw.run_driver(PID, lines)
    if len(out) != len(lines):
        raise fw.Infra("driver returned %d lines for %d inputs" % (len(out), len(lines)))
    for line, exp, got, m in zip(lines, expect, out, meta):
        nontrivial = not (m[0].startswith("numstep") and exp == "0")
        if m[0] == "ptsteps" and got.lstrip("-").isdigit() and int(got) < 2:
            got = "assert<2"       # PtTempo.__init__ asserts num_steps >= 2
        res.case(line, nontrivial, {"op": line[:160], "impl": exp[:120], "model": got[:120]})
        if exp != got:
            res.disagree("model and implementation differ on: " + line[:200],
                         {"line": line, "impl": exp, "model": got, "meta": repr(m)})


def search(res, rng=None):
    """Spec-level oracles on the real code (used only when a proof/tie broke).  Every group of
    oracles is guarded on its own: a group that cannot run on the tree under test (a renamed
    helper, an exception inside the library) is noted and the others still run."""
    import traceback
    rng = rng or random.Random(res.seed)
    for group in (_search_0, _search_1, _search_2, _search_3, _search_4, _search_5, _search_6, _search_7, _search_8):
        try:
            group(res, rng)
        except Exception:                                   # noqa: BLE001
            res.notes.append('search group %s raised: %s' % (group.__name__, traceback.format_exc()[-600:]))


def _search_0(res, rng):
    import oqupy
    from oqupy import operators as op
    from . import oq
    sysm = oq.cheap_system()
    from oqupy.dynamics import Dynamics, MeanFieldDynamics
    # (1) grid points written as literals must be reached: every API
    for s_l in START_LITS:
        for d_l in DT_LITS:
            s, d = float(s_l), float(d_l)
            stub = NS(_start_time=s, _parameters=NS(dt=d))
            for m in range(0, 1001):
                e = dec_sum(s_l, d_l, m)
                for api, f in (("Tempo", oqupy.Tempo._get_num_step),
                               ("MeanFieldTempo", oqupy.MeanFieldTempo._get_num_step)):
                    got = f(stub, 0, e)
                    if got != m:
                        res.fail("step-count:%s start=%s dt=%s end=%r" % (api, s_l, d_l, e),
                                 {"api": api, "start_time": s, "dt": d, "end_time": e,
                                  "expected_steps": m, "got_steps": got,
                                  "how": "%s(start_time=%s, dt=%s).compute(%r) covers %d steps, "
                                         "the grid point needs %d" % (api, s_l, d_l, e, got, m)})
                        break
                else:
                    continue
                break
            else:
                continue
            # one witness per (start, dt) row is enough
    # PtTempo on a few literals
    for (s_l, d_l, m) in [("0.0", "0.1", 3), ("0.0", "0.1", 6), ("0.5", "0.01", 29), ("0.0", "0.2", 3)]:
        s, d, e = float(s_l), float(d_l), dec_sum(s_l, d_l, m)
        try:
            pt = oqupy.PtTempo(bath=oq.cheap_bath(), start_time=s, end_time=e,
                               parameters=oq.cheap_params(d))
            got = pt._num_steps
        except AssertionError:
            got = None
        if got != m:
            res.fail("step-count:PtTempo start=%s dt=%s end=%r" % (s_l, d_l, e),
                     {"api": "PtTempo", "start_time": s, "dt": d, "end_time": e,
                      "expected_steps": m, "got_steps": got})

def _search_1(res, rng):
    import oqupy
    from oqupy import operators as op
    from . import oq
    sysm = oq.cheap_system()
    from oqupy.dynamics import Dynamics, MeanFieldDynamics
    # (1b) an end time clearly below a grid point (not a rounding artefact) must NOT reach it
    for (s_l, d_l, m, frac) in [("0.0", "0.01", 400, 2e-3), ("1.5", "0.05", 600, 1e-3),
                                ("0.0", "0.1", 1000, 1e-3), ("-0.3", "0.2", 37, 1e-4),
                                ("0.5", "0.001", 900, 5e-3)]:
        s, d = float(s_l), float(d_l)
        e = s + (m - frac) * d
        stub = NS(_start_time=s, _parameters=NS(dt=d))
        for api, f in (("Tempo", oqupy.Tempo._get_num_step),
                       ("MeanFieldTempo", oqupy.MeanFieldTempo._get_num_step)):
            got = f(stub, 0, e)
            if got != m - 1:
                res.fail("step-count-offgrid:%s start=%s dt=%s end=%r" % (api, s_l, d_l, e),
                         {"api": api, "start_time": s, "dt": d, "end_time": e,
                          "expected_steps": m - 1, "got_steps": got,
                          "how": "end_time is %g steps below grid point %d: only %d whole steps fit"
                                 % (frac, m, m - 1)})

def _search_2(res, rng):
    import oqupy
    from oqupy import operators as op
    from . import oq
    sysm = oq.cheap_system()
    from oqupy.dynamics import Dynamics, MeanFieldDynamics
    # (1c) Dynamics / MeanFieldDynamics: times, fields and states stay sorted and aligned for
    #      adds in any order
    from oqupy.dynamics import Dynamics, MeanFieldDynamics
    for ts in ([0.3, 0.0, 0.1, 0.2], [1.0, 0.5], [0.2, 0.2, 0.1], [0.0, 0.1, 0.2]):
        mfd, dyn = MeanFieldDynamics(), Dynamics()
        for j, t in enumerate(ts):
            mfd.add(t, [np.array([[t, 0], [0, 0]], dtype=complex)] * 2, complex(t))
            dyn.add(t, np.array([[t, 0], [0, 0]], dtype=complex))
        ok = list(mfd.times) == sorted(ts) and [f.real for f in mfd.fields] == sorted(ts) \
            and all([st[0, 0].real for st in d.states] == sorted(ts) and list(d.times) == sorted(ts)
                    for d in mfd.system_dynamics) \
            and list(dyn.times) == sorted(ts) and [st[0, 0].real for st in dyn.states] == sorted(ts)
        if not ok:
            res.fail("alignment:add-out-of-order times=%s" % ts,
                     {"api": "MeanFieldDynamics.add / Dynamics.add", "times_added": ts,
                      "times": [float(x) for x in mfd.times],
                      "fields": [float(f.real) for f in mfd.fields],
                      "system0_states": [float(st[0, 0].real) for st in mfd.system_dynamics[0].states],
                      "dynamics_states": [float(st[0, 0].real) for st in dyn.states]})

def _search_3(res, rng):
    import oqupy
    from oqupy import operators as op
    from . import oq
    sysm = oq.cheap_system()
    from oqupy.dynamics import Dynamics, MeanFieldDynamics
    # (2) labels: every state is labelled start + k dt; final-only label is start + n dt
    sysm = oq.cheap_system()
    for (s, d, n) in [(0.0, 0.1, 3), (0.5, 0.2, 5), (-0.3, 0.05, 2), (1.7, 0.3, 1), (0.0, 0.1, 1)]:
        for rec in (True, False):
            want = [s + k * d for k in range(n + 1)] if rec else [s + n * d]
            dyn = oqupy.compute_dynamics(system=sysm, initial_state=op.spin_dm("z+"), dt=d,
                                         num_steps=n, start_time=s, record_all=rec,
                                         progress_type="silent")
            got = [float(t) for t in dyn.times]
            if got != want:
                res.fail("labels:compute_dynamics record_all=%s" % rec,
                         {"api": "compute_dynamics", "start_time": s, "dt": d, "num_steps": n,
                          "record_all": rec, "expected_times": want, "got_times": got})
            tsys = oqupy.TimeDependentSystemWithField(lambda t, a: 0.5 * op.sigma("x"))
            mfs = oqupy.MeanFieldSystem([tsys], lambda t, st, a: -0.1j * a)
            mdyn = oqupy.compute_dynamics_with_field(
                mfs, initial_field=1.0, initial_state_list=[op.spin_dm("z+")], dt=d,
                num_steps=n, start_time=s, record_all=rec, progress_type="silent")
            got = [float(t) for t in mdyn.times]
            if got != want:
                res.fail("labels:compute_dynamics_with_field record_all=%s" % rec,
                         {"api": "compute_dynamics_with_field", "start_time": s, "dt": d,
                          "num_steps": n, "record_all": rec, "expected_times": want,
                          "got_times": got})
            from oqupy.gradient import compute_gradient_and_dynamics
            psys = oqupy.ParameterizedSystem(lambda x: x * op.sigma("x"))
            pt = oq.identity_pt(n)
            _, gdyn = compute_gradient_and_dynamics(
                system=psys, parameters=np.full((2 * n, 1), 0.3), initial_state=op.spin_dm("z+"),
                target_derivative=op.spin_dm("x+"), process_tensors=[pt], dt=d, num_steps=n,
                start_time=s, record_all=rec, progress_type="silent")
            got = [float(t) for t in gdyn.times]
            if got != want:
                res.fail("labels:compute_gradient_and_dynamics record_all=%s" % rec,
                         {"api": "compute_gradient_and_dynamics", "start_time": s, "dt": d,
                          "num_steps": n, "record_all": rec, "expected_times": want,
                          "got_times": got})

def _search_4(res, rng):
    import oqupy
    from oqupy import operators as op
    from . import oq
    sysm = oq.cheap_system()
    from oqupy.dynamics import Dynamics, MeanFieldDynamics
    # (2b) num_steps given explicitly (zero included) is the number of steps taken; not given
    #      means the shortest finite process tensor; too long is refused
    for idx, (api, ns, plen, s, d, rec) in enumerate(num_steps_cases(rng, 12)):
        trivial = api == "cd" and idx % 2 == 1
        got_res, got = real_resolve(api, ns, plen, s, d, rec, trivial)
        if ns is not None:
            want_n = ns if (plen is None or ns <= plen) else None
        else:
            want_n = plen
        if want_n is None:
            if got_res.startswith("ok"):
                res.fail("num-steps:%s num_steps=%s pt_len=%s accepted" % (api, ns, plen),
                         {"api": api, "num_steps": ns, "shortest_pt": plen, "start_time": s, "dt": d,
                          "record_all": rec, "got": got_res, "got_times": got,
                          "expected": "refused (nothing to define the grid / longer than the PT)"})
            continue
        want = [s + k * d for k in range(want_n + 1)] if rec else [s + want_n * d]
        if got != want:
            res.fail("num-steps:%s num_steps=%s pt_len=%s record_all=%s%s"
                     % (api, ns, plen, rec, " next to a TrivialProcessTensor" if trivial else ""),
                     {"api": api, "num_steps": ns, "shortest_pt": plen, "start_time": s, "dt": d,
                      "record_all": rec, "expected_times": want, "got": got_res, "got_times": got,
                      "how": "%s(num_steps=%r, start_time=%r, dt=%r, record_all=%r) next to "
                             "process tensors of length %r" % (api, ns, s, d, rec, plen)})

def _search_5(res, rng):
    import oqupy
    from oqupy import operators as op
    from . import oq
    sysm = oq.cheap_system()
    from oqupy.dynamics import Dynamics, MeanFieldDynamics
    # (2c) PtTebd: any history of compute(end_step) calls ends at max(end steps) and records
    #      exactly the grid up to there
    for (s, d, ks, ends) in [(1.0, 0.1, 0, [3, 5]), (1.0, 0.1, 0, [5, 5]), (0.0, 0.2, 2, [4, 3, 6]),
                             (-0.3, 0.05, 5, [5, 7]), (0.5, 0.1, 0, [0, 2]), (0.0, 0.1, 3, [6])]:
        step, got = real_tebd_history(s, d, ks, ends)
        top = max([ks] + ends)
        want = [s + d * (k - ks) for k in range(ks, top + 1)]
        if step != top or got != want:
            res.fail("history:PtTebd start_step=%d end_steps=%s" % (ks, ends),
                     {"api": "PtTebd.compute", "start_time": s, "dt": d, "start_step": ks,
                      "end_steps": ends, "expected_final_step": top, "got_final_step": step,
                      "expected_times": want, "got_times": got})

def _search_6(res, rng):
    import oqupy
    from oqupy import operators as op
    from . import oq
    sysm = oq.cheap_system()
    from oqupy.dynamics import Dynamics, MeanFieldDynamics
    # (2c') PtTebd: labels and propagation use the same dt, also when the parameters object is
    #       changed between construction and the first compute
    import oqupy as _oq
    chain_ = _oq.SystemChain(hilbert_space_dimensions=[2, 2])
    chain_.add_site_hamiltonian(site=0, hamiltonian=1.3 * op.sigma("x"))
    chain_.add_site_hamiltonian(site=1, hamiltonian=0.7 * op.sigma("x"))
    par_ = _oq.PtTebdParameters(dt=0.1, order=1, epsrel=1.0e-7)
    up_ = op.spin_dm("z+")
    tebd_ = _oq.PtTebd(initial_augmented_mps=_oq.AugmentedMPS([up_, up_]), system_chain=chain_,
                       process_tensors=[None, None], parameters=par_, dynamics_sites=[0],
                       start_time=0.5)
    par_.dt = 0.05
    r_ = tebd_.compute(end_step=4, progress_type="silent")
    got_t = [float(x) for x in r_["time"]]
    sz = [float(np.real(np.trace(op.sigma("z") @ st))) for st in r_["dynamics"][0].states]
    # uncoupled spin: <sz>(t) = cos(2*1.3*(t - start)); which dt did the propagation use?
    used = [dt_ for dt_ in (0.1, 0.05)
            if max(abs(z - np.cos(2.6 * k * dt_)) for k, z in enumerate(sz)) < 1e-6]
    want_t = [0.5 + k * used[0] for k in range(5)] if used else None
    if want_t is None or got_t != want_t:
        res.fail("labels:PtTebd parameters.dt changed between construction and compute",
                 {"api": "PtTebd", "sequence": "PtTebdParameters(dt=0.1); PtTebd(...); parameters.dt "
                  "= 0.05; compute(4)", "dt_used_by_the_propagation": used, "got_times": got_t,
                  "expected_times": want_t, "sz_site0": sz})

def _search_7(res, rng):
    import oqupy
    from oqupy import operators as op
    from . import oq
    sysm = oq.cheap_system()
    from oqupy.dynamics import Dynamics, MeanFieldDynamics
    # (2d) views read between two compute calls: the states handed out afterwards are those of
    #      the whole history, aligned with the times
    for api in ("tempo", "mft", "tebd"):
        if api == "tebd":
            import oqupy as _o
            chain = _o.SystemChain(hilbert_space_dimensions=[2, 2])
            chain.add_site_hamiltonian(site=0, hamiltonian=op.sigma("z"))
            chain.add_nn_hamiltonian(site=0, hamiltonian_l=op.sigma("x"), hamiltonian_r=op.sigma("x"))
            up = op.spin_dm("z+")

            def mk():
                return _o.PtTebd(initial_augmented_mps=_o.AugmentedMPS([up, up]), system_chain=chain,
                                 process_tensors=[None, None],
                                 parameters=_o.PtTebdParameters(dt=0.1, order=1, epsrel=1.0e-6),
                                 dynamics_sites=[0], start_time=0.0)
            a = mk()
            r1 = a.compute(end_step=3, progress_type="silent")
            _ = r1["dynamics"][0].states
            r2 = a.compute(end_step=6, progress_type="silent")
            got_t, got_s = r2["dynamics"][0].times, r2["dynamics"][0].states
            ref = mk().compute(end_step=6, progress_type="silent")["dynamics"][0]
        else:
            mkobj = (lambda: oq.cheap_tempo(0.0, 0.1)) if api == "tempo" else (lambda: oq.cheap_mft(0.0, 0.1))
            a = mkobj()
            d1 = a.compute(0.3, progress_type="silent")
            _ = (d1.system_dynamics[0] if api == "mft" else d1).states
            d2 = a.compute(0.6, progress_type="silent")
            v2 = d2.system_dynamics[0] if api == "mft" else d2
            got_t, got_s = v2.times, v2.states
            dr = mkobj().compute(0.6, progress_type="silent")
            ref = dr.system_dynamics[0] if api == "mft" else dr
        bad = len(got_t) != len(got_s) or len(got_s) != len(ref.states) or \
            float(np.abs(np.array(got_s) - np.array(ref.states)).max()) > 1e-9
        if bad:
            res.fail("views:%s states read between two compute calls" % api,
                     {"api": api, "sequence": "compute(3 steps); read .states; compute(6 steps); read "
                      ".times and .states", "times_handed_out": len(got_t),
                      "states_handed_out": len(got_s), "expected": len(ref.states)})

def _search_8(res, rng):
    import oqupy
    from oqupy import operators as op
    from . import oq
    sysm = oq.cheap_system()
    from oqupy.dynamics import Dynamics, MeanFieldDynamics
    # (3) real objects: times of Tempo / MFT histories are the grid, sorted, aligned
    for api in ("tempo", "mft"):
        for (s_l, d_l, ms) in [("0.0", "0.1", [3, 2, 5]), ("0.5", "0.2", [2, 4]), ("-0.3", "0.05", [6])]:
            s, d = float(s_l), float(d_l)
            obj = oq.cheap_tempo(s, d) if api == "tempo" else oq.cheap_mft(s, d)
            for m in ms:
                dyn = obj.compute(dec_sum(s_l, d_l, m), progress_type="silent")
            want = [s + float(k) * d for k in range(max(ms) + 1)]
            got = [float(t) for t in dyn.times]
            if got != want:
                res.fail("history:%s start=%s dt=%s targets=%s" % (api, s_l, d_l, ms),
                         {"api": api, "start_time": s, "dt": d, "target_steps": ms,
                          "expected_times": want, "got_times": got})



def run(tier, seed, replay):
    res = fw.Result(PID, tier, seed, level="proof")
    rng = random.Random(seed)
    res.rule = ("function level: (start, dt, end) triples from {decimal-literal lattice, computed "
                "s+m*dt, off-grid, before-start, random magnitudes} through the real "
                "_get_num_step/_time/PtTempo/PtTebd.time vs the generated Lean functions, exact; "
                "object level: real Tempo/MeanFieldTempo compute-histories, compute_dynamics, "
                "compute_dynamics_with_field, compute_gradient_and_dynamics (both record_all; "
                "num_steps given / zero / not given / too long next to finite process tensors) and "
                "PtTebd compute(end_step) histories (continuations, repeats, start steps) vs "
                "the TimeGrid model, time lists bit-exact; always-run relations on real objects: views "
                "(.times/.states/.fields) read between compute calls have equal lengths, a failing user "
                "callable propagates under every progress type, a run resumed after a transient failure "
                "holds the whole grid.  Non-trivial = not a zero-step count; "
                "distinct = distinct protocol line.")
    res.assumptions = [
        "binary64 model: round-to-nearest-even on rationals, no overflow/subnormal/NaN",
        "CPython bisect.bisect on a sorted list returns the count of entries <= x",
        "decimal literals are parsed correctly rounded",
    ]
    res.not_shown = ["monotonicity of labels needs dt >= 0 (TempoParameters enforces dt > 0)",
                     "compute_gradient_and_dynamics over zero steps raises IndexError in the "
                     "backpropagation (nothing is returned, so nothing is mislabelled): not covered"]
    fw.standard_pipeline(res, ["StepCount", "DynamicsAdd"], list(THEOREMS))
    if tier == "thorough":
        ok, out = fw.lake_build(["OQuPyVerif.Props.C13Lattice"], timeout=7000)
        res.oblige("lake build OQuPyVerif.Props.C13Lattice: grid_lattice_full "
                   "(48 rows x 1001 end literals, decide +kernel)", ok, "" if ok else out[-2000:])
    built = all(o[1] for o in res.obligations if o[0].startswith("translator"))
    try:
        if built:
            correspondence(res, tier, rng)
        else:
            res.notes.append("correspondence skipped: generated model unavailable")
    except fw.Infra as e:
        res.oblige("correspondence run", False, str(e))
    return fw.finish(res, search)
