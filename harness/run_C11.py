"""C11 — the Gibbs-state computation returns the exact reduced thermal state.  DESIGN.md §4 C11."""
import json
import os
import random

import numpy as np

from . import framework as fw
from .framework import rat, crat, parse_rat, parse_crat

PID = "C11"
P = "OQuPyVerif.Props.C11."
THEOREMS = [P + t for t in (
    "gibbs_commuting", "gibbs_commuting_exp", "gibbs_commuting_steps_independent",
    "gibbs_backend_zero_coupling", "gibbs_zero_coupling_orient", "gibbs_zero_coupling",
    "gibbs_trace_one", "gibbs_hermitian", "gibbs_normalised_hermitian",
    "compute_fresh", "compute_idempotent", "compute_repeat", "mps_never_truncated",
    "coeff_is_cell", "coeff_sum_tiling", "guarded_term_inactive", "infl_formulas_are_model", "gibbs_ops_symmetric",
    "total_imaginary_time", "source_orientation", "unique_sums_class",
    "eta_fallback_accurate", "corr_fallback_accurate", "matsubara_eta_integrand")]
TOL = 1e-8
HYP_TOL = 1e-24          # residuals are squared moduli


# ---------------------------------------------------------------------------
# cases
# ---------------------------------------------------------------------------

def rand_herm(rng, d, kind):
    a = np.array([[rng.gauss(0, 1) + 1j * rng.gauss(0, 1) for _ in range(d)] for _ in range(d)])
    h = (a + a.conj().T) / 2
    if kind == "diagonal":
        h = np.diag(np.diag(h).real).astype(complex)
    elif kind == "real":
        h = h.real.astype(complex)
    return h


def build_corr(sd, alpha, T):
    """sd = {"kind", "wc"[, "g"]} -> (correlations, J(w) as a plain function, upper limit)"""
    import oqupy
    kind, wc = sd["kind"], sd["wc"]
    if kind == "ohmic-exp":
        corr = oqupy.PowerLawSD(alpha=alpha, zeta=1.0, cutoff=wc, cutoff_type="exponential", temperature=T)
        jw = lambda w: 2.0 * alpha * w * np.exp(-w / wc)
        wmax = np.inf
    elif kind == "super-gauss":
        corr = oqupy.PowerLawSD(alpha=alpha, zeta=3.0, cutoff=wc, cutoff_type="gaussian", temperature=T)
        jw = lambda w: 2.0 * alpha * w ** 3 / wc ** 2 * np.exp(-(w / wc) ** 2)
        wmax = np.inf
    elif kind == "ohmic-hard":
        corr = oqupy.PowerLawSD(alpha=alpha, zeta=1.0, cutoff=wc, cutoff_type="hard", temperature=T)
        jw = lambda w: 2.0 * alpha * w
        wmax = wc
    else:
        g = sd["g"]
        jf = lambda w, a=alpha, g=g: a * w ** 2 / (1.0 + g * w)
        corr = oqupy.CustomSD(jf, cutoff=wc, cutoff_type="exponential", temperature=T)
        jw = lambda w, a=alpha, g=g: a * w ** 2 / (1.0 + g * w) * np.exp(-w / wc)
        wmax = np.inf
    return corr, jw, wmax


def make_corr(rng, alpha, T):
    sd = {"kind": rng.choice(["ohmic-exp", "super-gauss", "custom-exp", "ohmic-hard"]),
          "wc": rng.uniform(1.0, 5.0)}
    if sd["kind"] == "custom-exp":
        sd["g"] = rng.uniform(0.5, 2.0)
    corr, jw, wmax = build_corr(sd, alpha, T)
    return corr, sd, jw, wmax, sd["wc"]


def gen_case(rng, tier, force=None):
    force = force or {}
    dmax, nmax = (3, 5) if tier == "quick" else (3, 6)
    d = force.get("d", rng.choice([2, 2, 3] if tier == "quick" else [2, 3, 3, 4]))
    n = force.get("n", rng.randrange(2, nmax + 1))
    if d >= 3:                       # 3^6 / 4^4 paths per entry are slow in exact arithmetic
        n = min(n, 5 if d == 3 else 3)
    T = force.get("T", rng.choice([0.3, 0.7, 1.0, rng.uniform(0.2, 3.0)]))
    hk = force.get("hkind", rng.choice(["complex", "complex", "real", "diagonal"]))
    ck = force.get("coupling", rng.choice(["generic", "generic", "degenerate", "zero"]))
    alpha = 0.0 if ck == "zero" else force.get("alpha", rng.choice([0.05, 0.3, 1.0, rng.uniform(0.01, 1.5)]))
    H = rand_herm(rng, d, hk)
    o = np.array([rng.gauss(0, 1) for _ in range(d)])
    if ck == "degenerate":
        o[1] = o[0]
        if d == 3 and rng.random() < 0.3:
            o[2] = o[0]
    elif ck == "null":                 # the zero operator with a bath attached
        o = np.zeros(d)
    elif ck == "identity":             # a multiple of the identity
        o = np.full(d, o[0])
    if "o" in force:                   # prescribed eigenvalues (repeated ones not adjacent, ...)
        o = np.array(force["o"], dtype=float)
    corr, sd, jw, wmax, wc = make_corr(rng, alpha, T)
    return {"d": d, "n": n, "T": T, "H": H, "o": o, "alpha": alpha, "corr": corr, "jw": jw,
            "wmax": wmax, "wc": wc,
            "desc": {"d": d, "n": n, "T": T, "system": hk, "coupling": ck, "alpha": alpha,
                     "sd": sd["kind"], "sd_params": sd,
                     "H": [[[z.real, z.imag] for z in row] for row in H.tolist()], "o": o.tolist()}}


def make_gibbs(case, n=None, epsrel=1e-13, shared=None):
    """`shared`: dict n_steps -> GibbsParameters; the same parameter object is then used for
    every model with that number of steps (baths of different temperatures)"""
    import oqupy
    bath = oqupy.Bath(np.diag(case["o"]).astype(complex), case["corr"])
    n = n or case["n"]
    if shared is None:
        par = oqupy.GibbsParameters(n, epsrel)
    else:
        par = shared.setdefault(n, oqupy.GibbsParameters(n, epsrel))
    return oqupy.GibbsTempo(oqupy.System(case["H"]), bath, par)


def flat(a):
    return " ".join(crat(z) for z in np.asarray(a, dtype=complex).reshape(-1))


def factor_tables(backend, n):
    """G_j[x, y] for j < n, computed from the REAL coefficient function and operator tuple of
    the backend, by the formula the translator reads off `_influence_tensor`
    (`exp(outer(o_2, o_1))`, `o_2 = c.real*ops[1] - 1j*c.imag*ops[2]`, `o_1 = ops[0]`)."""
    o0, o1, o2 = backend._ops
    out = []
    for j in range(n):
        c = backend._coefficients(j)
        oo2 = c.real * o1 - 1j * c.imag * o2
        out.append(np.exp(np.outer(oo2, o0)))
    return out


def case_line(op, d, n, q, init, tables):
    return " | ".join(["%s %d %d" % (op, d, n), flat(q), flat(init)] + [flat(t) for t in tables])


def parse_states(line, d):
    return [np.array([parse_crat(t) for t in st.split()]).reshape(d, d) for st in line.split(" ; ")]


def rel_err(a, b):
    a, b = np.asarray(a), np.asarray(b)
    return float(np.abs(a - b).max() / max(1.0, np.abs(b).max()))


# ---------------------------------------------------------------------------
# correspondence
# ---------------------------------------------------------------------------

def correspondence(res, tier, rng, extra_cases=()):
    from oqupy.backends.tempo_backend import TIBaseBackend
    ncase = 24 if tier == "quick" else 90
    cases = list(extra_cases)
    # forced (not drawn): zero coupling, commuting, and coupling operators with REPEATED eigenvalues
    # (TIBaseBackend._unique merges equal eigenvalues into one bond index: every member of a class
    # must be summed) -- adjacent and non-adjacent repeats, dimension 4, the zero operator with a
    # bath attached, a multiple of the identity
    forced = [{"hkind": "complex", "coupling": "zero"}, {"hkind": "diagonal", "coupling": "generic"},
              {"hkind": "complex", "coupling": "degenerate", "d": 3},
              {"hkind": "diagonal", "coupling": "degenerate", "d": 3, "o": [1.0, -1.0, 1.0], "n": 3},
              {"hkind": "complex", "coupling": "degenerate", "d": 4, "o": [1.0, 0.0, 0.0, -1.0]},
              {"hkind": "complex", "coupling": "null", "d": 2, "alpha": 0.4},
              {"hkind": "complex", "coupling": "identity", "d": 3, "n": 3, "alpha": 0.4}]
    for i in range(ncase):
        cases.append(gen_case(rng, tier, forced[i] if i < len(forced) else None))
    lines, meta = [], []
    shared_params = {}      # one GibbsParameters object per n_steps, re-used across temperatures
    for ci, case in enumerate(cases):
        d, n = case["d"], case["n"]
        g = make_gibbs(case, shared=shared_params)
        be = g._backend_instance
        tables = factor_tables(be, n)
        q = np.array(be._prop)
        etas = [case["corr"].eta_function(j * g._dt, matsubara=True) for j in range(n + 1)]
        coeffs = [be._coefficients(j) for j in range(n)]
        ncalls = 1 + ci % 3
        dyn = None
        states_after = []
        for _ in range(ncalls):
            dyn = g.compute(progress_type="silent")
            states_after.append(np.array(g.get_state()))
        real_states = [np.array(s) for s in dyn.states]
        real_data = [np.array(x, dtype=complex) for x in be.data]
        # direct use of the backend with a non-trivial initial array (pins the input leg)
        init = np.array([[rng.gauss(0, 1) + 1j * rng.gauss(0, 1) for _ in range(d)] for _ in range(d)])
        b2 = TIBaseBackend(d, 1e-13, q, be._coefficients, be._ops, max_step=n, initial_data=init)
        b2.initialise()
        for _ in range(n - 2):
            b2.compute_step()
        data2 = [np.array(x, dtype=complex) for x in b2.data]
        eye = np.eye(d)
        idx = len(lines)
        lines += [case_line("stored", d, n, q, eye, tables), case_line("data", d, n, q, eye, tables),
                  case_line("data", d, n, q, init, tables), case_line("hyp", d, n, q, eye, tables),
                  "cells " + " ".join(rat(float(e)) for e in etas),
                  "dt %s %d" % (rat(case["T"]), n),
                  "hist %d %d %s" % (n, ncalls, rat(g._dt)),
                  "unique " + " ".join(crat(v) for v in be._ops[0]),
                  "unique " + " ".join(crat(a) + "&" + crat(b) for a, b in zip(*be._ops[1:]))]
        uniq = [TIBaseBackend._unique(be._ops[0]), TIBaseBackend._unique(zip(*be._ops[1:]))]
        meta.append((idx, case, real_states, real_data, data2, coeffs, g._dt, ncalls,
                     [float(t) for t in dyn.times], be.step, len(be.data), states_after, q, uniq, len(be._mps)))
        for k in ("system", "coupling", "sd"):
            res.count("%s=%s" % (k, case["desc"][k]))
        res.count("d=%d" % d)
        res.count("n=%d" % n)
        res.count("compute-calls=%d" % ncalls)
    out = fw.run_driver(PID, lines)
    if len(out) != len(lines):
        raise fw.Infra("driver returned %d lines for %d inputs" % (len(out), len(lines)))
    for (idx, case, real_states, real_data, data2, coeffs, dt, ncalls, times, bstep, blen,
         states_after, q, uniq, mps_len) in meta:
        desc = dict(case["desc"], compute_calls=ncalls)
        d, n = case["d"], case["n"]
        o_st, o_d1, o_d2, o_hyp, o_cells, o_dt, o_hist, o_u0, o_u1 = out[idx:idx + 9]
        if "bad-op" in (o_st, o_d1, o_d2, o_hyp, o_cells, o_dt, o_hist, o_u0, o_u1):
            raise fw.Infra("driver rejected a C11 line: %r" % [lines[idx + i][:80] for i in range(9)])
        # (0) TIBaseBackend._unique vs its model (exact): first occurrences, projection onto the
        #     classes of equal operator values, every state in exactly one class
        for which, (ind, proj), got in (("ops[0]", uniq[0], o_u0), ("zip(ops[1:])", uniq[1], o_u1)):
            proj = np.asarray(proj)
            want_u = "%s ; %s ; %s" % (
                " ".join(str(int(i)) for i in ind),
                " | ".join(" ".join(str(int(x)) for x in row) for row in proj),
                " ".join(str(int(x)) for x in proj.sum(axis=0)))
            if want_u != got:
                res.disagree("TIBaseBackend._unique(%s): code `%s` model `%s`" % (which, want_u, got), desc)
        m_st, m_d1, m_d2 = parse_states(o_st, d), parse_states(o_d1, d), parse_states(o_d2, d)
        sample = {"case": {k: desc[k] for k in ("d", "n", "T", "system", "coupling", "alpha", "sd",
                                                 "compute_calls")}}
        # (a) what GibbsTempo stores vs the model
        if len(real_states) != len(m_st):
            res.disagree("GibbsTempo stores %d states, the model %d" % (len(real_states), len(m_st)), desc)
        else:
            e = max(rel_err(a, b) for a, b in zip(real_states, m_st))
            sample["dynamics_vs_model"] = e
            if e > TOL:
                res.disagree("GibbsTempo's stored states differ from the path-sum model by %g" % e, desc)
            # get_state: last state / trace
            last = m_st[-1] / np.trace(m_st[-1])
            e = max(rel_err(s, last) for s in states_after)
            sample["get_state_vs_model"] = e
            if e > TOL:
                res.disagree("get_state() differs from the normalised model state by %g "
                             "(over %d compute() calls)" % (e, ncalls), desc)
        # (b) backend.data vs the model, identity and random initial array
        for name, real, model in (("identity", real_data, m_d1), ("random", data2, m_d2)):
            if len(real) != len(model):
                res.disagree("backend.data has %d entries, the model %d (%s initial array)"
                             % (len(real), len(model), name), desc)
                continue
            e = max(rel_err(a, b) for a, b in zip(real, model))
            sample["backend_data_%s_init_vs_model" % name] = e
            if e > TOL:
                res.disagree("TIBaseBackend.data (%s initial array) differs from the model by %g"
                             % (name, e), desc)
        # (c) hypotheses of the theorems on the code's own tensors
        toks = o_hyp.split()
        hyp = {toks[j]: float(parse_rat(toks[j + 1])) for j in range(0, len(toks), 2)}
        sample["hypothesis_residuals_sq"] = hyp
        for k in ("herm", "real", "sym"):
            if hyp[k] > HYP_TOL:
                res.disagree("hypothesis `%s` of gibbs_hermitian is not met by the code's own "
                             "tensors (residual² %g)" % (k, hyp[k]), desc)
        scale = max(1.0, max(np.abs(s).max() for s in m_st)) ** 2
        if hyp["outherm"] > 1e-18 * scale:
            res.disagree("model state not Hermitian although the hypotheses hold (residual² %g)"
                         % hyp["outherm"], desc)
        if desc["system"] == "diagonal":
            if hyp["diag"] > HYP_TOL:
                res.disagree("propagator of a diagonal Hamiltonian is not diagonal (residual² %g)"
                             % hyp["diag"], desc)
            # conclusion of gibbs_commuting on the model's output, with the code's own tensors
            G = factor_tables_from_line(lines[idx], d, n)
            for k in range(1, n + 1):
                want = np.zeros((d, d), dtype=complex)
                for a in range(d):
                    w = q[a, a] ** (2 * k)
                    for m in range(k):
                        for j in range(m + 1):
                            w = w * G[j][a, a]
                    want[a, a] = w
                if rel_err(m_st[k], want) > 1e-9:
                    res.disagree("model state %d is not the closed form of gibbs_commuting" % k, desc)
        # (d) coefficient function vs the eta cells
        cells = [float(parse_rat(t)) for t in o_cells.split()]
        e = max(abs(a - complex(b).real) + abs(complex(b).imag) for a, b in zip(cells, coeffs))
        sample["coeffs_vs_eta_cells"] = e
        if len(cells) != len(coeffs) or e > 1e-9 * max(1.0, max(abs(c) for c in cells)):
            res.disagree("coeffs(k) differs from the eta-cell combination by %g" % e, desc)
        # (d') what the summed cells are: eta(n dt) - eta(0) = -(1/T) * int J(w)/w dw
        #      (matsubara_eta_integrand + "quad returns the integral"), by direct quadrature of J
        if case["alpha"] > 0:
            total = float(parse_rat(lines[idx + 4].split()[-1])) - float(parse_rat(lines[idx + 4].split()[1]))
            want = -reorganisation(case) / case["T"]
            sample["summed_cells_vs_reorganisation"] = abs(total - want)
            if abs(total - want) > 1e-6 * max(1.0, abs(want)):
                res.disagree("the summed Matsubara cells eta(1/T) - eta(0) = %.10g differ from "
                             "-(1/T) x reorganisation energy = %.10g" % (total, want), desc)
        # (e) time step, labels, step counter, history (exact)
        if rat(dt) != o_dt:
            res.disagree("time step length: code %s model %s" % (rat(dt), o_dt), desc)
        want_hist = "%s;%d;%s;%s;%d" % (bstep, blen, " ".join(rat(t) for t in times),
                                        " ".join(str(k) for k in range(len(times))), len(times) - 1)
        if want_hist != o_hist:
            res.disagree("compute() history: code %s model %s" % (want_hist[:200], o_hist[:200]), desc)
        # the chain has one site per completed slice plus the cap: nothing was summed out
        if mps_len != bstep + 1:
            res.disagree("len(backend._mps) = %d at step %d: the imaginary-time chain was cut"
                         % (mps_len, bstep), desc)
        res.case(json.dumps(sample["case"], sort_keys=True),
                 not (desc["coupling"] == "zero" and desc["system"] == "diagonal"), sample)


def factor_tables_from_line(line, d, n):
    secs = line.split(" | ")
    return [np.array([parse_crat(t) for t in s.split()]).reshape(d, d) for s in secs[3:3 + n]]


# ---------------------------------------------------------------------------
# spec-level oracles on the real code
# ---------------------------------------------------------------------------

def canonical(H, T):
    from scipy.linalg import expm
    e = expm(-np.asarray(H) / T)
    return e / np.trace(e)


def reorganisation(case):
    """lambda = int_0^inf J(w)/w dw by direct quadrature of the spectral density"""
    from scipy.integrate import quad
    jw = case["jw"]
    f = lambda w: jw(w) / w if w > 0 else 0.0
    if case["wmax"] == np.inf:
        return quad(f, 0, case["wc"], epsabs=1e-13, epsrel=1e-12, limit=400)[0] + \
            quad(f, case["wc"], np.inf, epsabs=1e-13, epsrel=1e-12, limit=400)[0]
    return quad(f, 0, case["wmax"], epsabs=1e-13, epsrel=1e-12, limit=400)[0]


def check_physical(res, key, state, payload, tol=1e-8):
    tr = np.trace(state)
    if abs(tr - 1) > tol:
        res.fail(key + ":trace", dict(payload, complaint="trace %r" % complex(tr)))
    if np.abs(state - state.conj().T).max() > tol:
        res.fail(key + ":hermitian", dict(payload, complaint="not Hermitian by %g"
                                          % np.abs(state - state.conj().T).max()))
    ev = np.linalg.eigvalsh((state + state.conj().T) / 2).min()
    if ev < -tol:
        res.fail(key + ":positive", dict(payload, complaint="eigenvalue %g" % ev))


def oracle_zero_coupling(res, H, T, n, o, alpha, name):
    """alpha = 0: exactly exp(-H/T)/Z; tiny alpha: within O(alpha)"""
    import oqupy
    corr = oqupy.PowerLawSD(alpha=alpha, zeta=1.0, cutoff=3.0, cutoff_type="exponential", temperature=T)
    g = oqupy.GibbsTempo(oqupy.System(H), oqupy.Bath(np.diag(o).astype(complex), corr),
                         oqupy.GibbsParameters(n, 1e-12))
    g.compute(progress_type="silent")
    st = np.array(g.get_state())
    want = canonical(H, T)
    tol = 1e-9 if alpha == 0.0 else 200 * alpha
    err, err_t = np.abs(st - want).max(), np.abs(st - want.T).max()
    payload = {"api": "GibbsTempo", "hamiltonian": [[[z.real, z.imag] for z in r] for r in np.asarray(H).tolist()],
               "coupling_diagonal": list(map(float, o)), "alpha": alpha, "temperature": T, "n_steps": n,
               "got_state": [[[z.real, z.imag] for z in r] for r in st.tolist()],
               "expected_state": [[[z.real, z.imag] for z in r] for r in want.tolist()],
               "error": float(err), "error_against_transpose": float(err_t)}
    if err > tol:
        if err_t <= tol:
            res.fail("zero-coupling:state-is-transpose-of-canonical(%s)" % name,
                     dict(payload, how="get_state() equals the TRANSPOSE (complex conjugate) of "
                                       "exp(-H/T)/Z for a Hermitian H with imaginary entries"))
        else:
            res.fail("zero-coupling:wrong-state(%s)" % name, payload)
    check_physical(res, "zero-coupling(%s)" % name, st, payload)


def fixed_commuting_case():
    """low temperature, slowly decaying spectral density: frequencies above ~36 T matter"""
    desc = {"d": 2, "n": 4, "T": 0.2, "system": "diagonal", "coupling": "generic", "alpha": 0.5,
            "sd": "ohmic-exp", "sd_params": {"kind": "ohmic-exp", "wc": 5.0},
            "H": [[[0.0, 0.0], [0.0, 0.0]], [[0.0, 0.0], [1.9, 0.0]]], "o": [0.5, -0.8]}
    return case_from_desc(desc)


def oracle_commuting(res, case, steps=(2, 3, 5, 8), tag=None):
    """[H, S] = 0 (diagonal H, or H non-diagonal only inside blocks of equal coupling eigenvalues):
    the exact reduced thermal state is exp(-(H - lambda*S^2)/T)/Z, for every number of steps"""
    from scipy.linalg import expm
    d = case["d"]
    lam = reorganisation(case) if case["alpha"] > 0 else 0.0
    H = np.asarray(case["H"], dtype=complex)
    S = np.diag(np.asarray(case["o"], dtype=float))
    assert np.abs(H @ S - S @ H).max() < 1e-14
    heff = H - lam * S @ S
    shift = np.linalg.eigvalsh(heff).min()
    want = expm(-(heff - shift * np.eye(d)) / case["T"])
    want = want / np.trace(want)
    first = None
    what = tag or "d=%d sd=%s T=%.3g" % (d, case["desc"]["sd"], case["T"])
    for n in steps:
        g = make_gibbs(case, n=n, epsrel=1e-12)
        g.compute(progress_type="silent")
        st = np.array(g.get_state())
        payload = {"api": "GibbsTempo", "case": case["desc"], "n_steps": n,
                   "reorganisation_energy": lam, "expected_populations": np.diag(want).real.tolist(),
                   "got_populations": np.diag(st).real.tolist()}
        if np.abs(st - want).max() > 1e-7:
            res.fail("commuting:closed-form %s" % what,
                     dict(payload, error=float(np.abs(st - want).max())))
        if first is None:
            first = st
        elif np.abs(st - first).max() > 1e-9:
            res.fail("commuting:depends-on-n %s" % what,
                     dict(payload, error=float(np.abs(st - first).max())))
        check_physical(res, "commuting", st, payload)


def repeated_eigenvalue_cases():
    """coupling operators with repeated eigenvalues; H commutes with S in every case"""
    def c(z):
        return [[[complex(x).real, complex(x).imag] for x in row] for row in z]
    h3 = np.diag([0.5, 0.1, -0.5])
    h3_block = np.array([[0.4, 0.3, 0.0], [0.3, -0.2, 0.0], [0.0, 0.0, 0.1]])
    h3_block_c = np.array([[0.4, 0.3j, 0.0], [-0.3j, -0.2, 0.0], [0.0, 0.0, 0.1]])
    h4 = np.diag([0.5, 0.1, -0.5, 0.3])
    h2_c = np.array([[0.3, 0.2 - 0.4j], [0.2 + 0.4j, -0.3]])
    h3_c = np.array([[0.2, 0.1 + 0.3j, 0.0], [0.1 - 0.3j, -0.1, 0.25j], [0.0, -0.25j, 0.3]])
    rows = [("S=diag(1,1,-1) diagonal H", h3, [1.0, 1.0, -1.0], 0.3, 5.0, 2.1),
            ("S=diag(1,-1,1) diagonal H", h3, [1.0, -1.0, 1.0], 0.2, 3.0, 0.7),
            ("S=diag(1,1,-1) H real inside the block", h3_block, [1.0, 1.0, -1.0], 0.3, 5.0, 2.1),
            ("S=diag(.5,.5,0) H complex inside the block", h3_block_c, [0.5, 0.5, 0.0], 0.4, 4.0, 1.0),
            ("S=diag(1,0,0,-1) dim 4", h4, [1.0, 0.0, 0.0, -1.0], 0.3, 5.0, 1.3),
            ("S=0 with a bath, complex H", h2_c, [0.0, 0.0], 0.5, 4.0, 0.9),
            ("S=0.7*identity, complex H dim 3", h3_c, [0.7, 0.7, 0.7], 0.5, 4.0, 0.9)]
    out = []
    for name, H, o, alpha, wc, T in rows:
        d = len(o)
        desc = {"d": d, "n": 4, "T": T, "system": "commuting", "coupling": "repeated", "alpha": alpha,
                "sd": "ohmic-exp", "sd_params": {"kind": "ohmic-exp", "wc": wc}, "H": c(H), "o": o,
                "name": name}
        out.append((name, case_from_desc(desc)))
    return out


def oracle_shared_parameters(res, n=4):
    """one GibbsParameters object used for baths of different temperatures (both orders) must
    give what fresh parameter objects give: the step length is 1/(T n_steps) of the CURRENT bath"""
    import oqupy
    H = np.array([[0.3, 0.2 - 0.4j], [0.2 + 0.4j, -0.3]])
    o = [0.5, -0.5]

    def run(T, par):
        corr = oqupy.PowerLawSD(alpha=0.3, zeta=1.0, cutoff=3.0, cutoff_type="exponential", temperature=T)
        g = oqupy.GibbsTempo(oqupy.System(H), oqupy.Bath(np.diag(o).astype(complex), corr), par)
        dyn = g.compute(progress_type="silent")
        return np.array(g.get_state()), float(dyn.times[-1])

    for temps in ((1.6, 0.7, 0.25), (0.25, 0.7, 1.6)):
        par = oqupy.GibbsParameters(n, 1e-12)
        for k, T in enumerate(temps):
            got, last = run(T, par)
            want, _ = run(T, oqupy.GibbsParameters(n, 1e-12))
            err = float(np.abs(got - want).max())
            if err > 1e-10 or abs(last - 1.0 / T) > 1e-12 / T:
                res.fail("shared-parameters:temperatures=%s run=%d" % (",".join(map(str, temps)), k),
                         {"api": "GibbsTempo", "n_steps": n, "temperatures_in_order": list(temps),
                          "run_index": k, "temperature": T, "error_vs_fresh_parameters": err,
                          "last_time_label": last, "expected_last_time_label": 1.0 / T,
                          "hamiltonian": [[[z.real, z.imag] for z in r] for r in H.tolist()],
                          "coupling_diagonal": o,
                          "how": "the same GibbsParameters object re-used for a bath of another "
                                 "temperature does not propagate to 1/T of that bath"})


class _Transient(Exception):
    """raised once by the wrapped spectral density"""


def oracle_fault_resume(res, n=6, fault_at=(1, 150, 600, 1000, 1400)):
    """the user's j_function raises ONCE at its k-th evaluation after the backend was initialised
    (inside GibbsTempo.compute); compute() is called again and must end in the state of an
    undisturbed run, which is the closed form of the commuting model"""
    import oqupy
    alpha, wc, T = 0.4, 3.0, 0.6
    H = np.diag([0.0, 0.9]).astype(complex)
    o = np.array([0.5, -0.8])
    lam = alpha * wc                                  # int_0^inf alpha w exp(-w/wc) / w dw
    en = np.diag(H).real - lam * o ** 2
    w_ = np.exp(-(en - en.min()) / T)
    want = np.diag(w_ / w_.sum())

    def build(state):
        def jf(w):
            if state["armed"]:
                state["count"] += 1
                if state["count"] == state["k"] and not state["fired"]:
                    state["fired"] = True
                    raise _Transient("transient failure of the spectral density")
            return alpha * w
        corr = oqupy.CustomSD(jf, cutoff=wc, cutoff_type="exponential", temperature=T)
        g = oqupy.GibbsTempo(oqupy.System(H), oqupy.Bath(np.diag(o).astype(complex), corr),
                             oqupy.GibbsParameters(n, 1e-12))
        be = g._backend_instance
        orig = be.initialise

        def initialise(*a, **kw):
            r = orig(*a, **kw)
            state["armed"] = state["k"] is not None
            return r
        be.initialise = initialise
        return g

    ref = build({"armed": False, "count": 0, "k": None, "fired": False})
    ref.compute(progress_type="silent")
    ref_state = np.array(ref.get_state())
    if np.abs(ref_state - want).max() > 1e-7:
        res.fail("fault-resume:undisturbed-run-is-not-the-closed-form",
                 {"api": "GibbsTempo", "n_steps": n, "error": float(np.abs(ref_state - want).max())})
    for k in fault_at:
        st = {"armed": False, "count": 0, "k": k, "fired": False}
        g = build(st)
        raised = 0
        for attempt in range(3):
            try:
                dyn = g.compute(progress_type="silent")
                break
            except _Transient:
                raised += 1
        else:
            continue
        if not st["fired"]:
            continue                      # fewer evaluations than k: nothing was disturbed
        got = np.array(g.get_state())
        err = float(np.abs(got - ref_state).max())
        if err > 1e-10 or len(dyn.times) != n + 1 or abs(float(dyn.times[-1]) - 1.0 / T) > 1e-12 / T:
            res.fail("fault-resume:j_function raises once at evaluation %d after initialisation" % k,
                     {"api": "GibbsTempo", "n_steps": n, "temperature": T, "alpha": alpha, "cutoff": wc,
                      "hamiltonian_diagonal": np.diag(H).real.tolist(), "coupling_diagonal": o.tolist(),
                      "fault_at_evaluation": k, "exceptions_seen": raised,
                      "backend_step_after_resume": g._backend_instance.step,
                      "states_recorded": len(dyn.times), "last_time_label": float(dyn.times[-1]),
                      "expected_populations": np.diag(want).real.tolist(),
                      "undisturbed_populations": np.diag(ref_state).real.tolist(),
                      "got_populations": np.diag(got).real.tolist(), "error": err,
                      "how": "after a transient exception inside compute() a second compute() does "
                             "not end in the state of an undisturbed run"})


def oracle_temperature_scan(res, n=4):
    """one correlations object re-used after `corr.temperature = T2` vs fresh objects"""
    import oqupy
    H = np.array([[0.3, 0.2 - 0.4j], [0.2 + 0.4j, -0.3]])
    o = [0.5, -0.5]

    def run(corr):
        g = oqupy.GibbsTempo(oqupy.System(H), oqupy.Bath(np.diag(o).astype(complex), corr),
                             oqupy.GibbsParameters(n, 1e-12))
        g.compute(progress_type="silent")
        return np.array(g.get_state())

    def fresh(kind, T):
        if kind == "PowerLawSD":
            return oqupy.PowerLawSD(alpha=0.3, zeta=1.0, cutoff=3.0, cutoff_type="exponential",
                                    temperature=T)
        return oqupy.CustomSD(lambda w: 0.6 * w, cutoff=3.0, cutoff_type="exponential", temperature=T)

    for kind in ("PowerLawSD", "CustomSD"):
        for temps in ((1.6, 0.7, 0.3), (0.3, 1.6)):
            corr = fresh(kind, temps[0])
            for k, T in enumerate(temps):
                corr.temperature = T
                want = run(fresh(kind, T))
                try:
                    got, exc = run(corr), None
                    err = float(np.abs(got - want).max())
                except Exception as e:                # the fresh object works, the re-used one raises
                    exc, err = "%s: %s" % (type(e).__name__, str(e)[:200]), float("inf")
                if err > 1e-10:
                    res.fail("temperature-scan:%s temperatures=%s run=%d"
                             % (kind, ",".join(map(str, temps)), k),
                             {"api": "GibbsTempo", "correlations": kind, "n_steps": n,
                              "temperatures_in_order": list(temps), "run_index": k, "temperature": T,
                              "error_vs_fresh_correlations": (err if exc is None else None),
                              "exception_with_reused_object": exc,
                              "hamiltonian": [[[z.real, z.imag] for z in r] for r in H.tolist()],
                              "coupling_diagonal": o,
                              "how": "one correlations object re-used after `corr.temperature = T` "
                                     "gives a Gibbs state different from a fresh object at T"})


def oracle_long_chain(res, steps=(259, 300)):
    """more imaginary-time slices than any memory-length constant: still the closed form"""
    oracle_commuting(res, fixed_commuting_case(), steps=(4,) + tuple(steps),
                     tag="long chain n_steps in %s (d=2 ohmic-exp T=0.2)" % (list(steps),))


def oracle_general(res, case):
    """normalised, Hermitian, positive; repeated compute() returns the same state"""
    g = make_gibbs(case, epsrel=1e-11)
    dyn = g.compute(progress_type="silent")
    st = np.array(g.get_state())
    payload = {"api": "GibbsTempo", "case": case["desc"]}
    check_physical(res, "general", st, payload)
    nt = len(dyn.times)
    for rep in (2, 3):
        dyn = g.compute(progress_type="silent")
        st2 = np.array(g.get_state())
        if np.abs(st2 - st).max() > 1e-12 or len(dyn.times) != nt:
            res.fail("repeat-compute:state-changes", dict(
                payload, compute_calls=rep, change=float(np.abs(st2 - st).max()),
                times_after_first=nt, times_now=len(dyn.times),
                how="a second GibbsTempo.compute() changes get_state() / appends states"))
            break
    if abs(float(dyn.times[-1]) - 1.0 / case["T"]) > 1e-12 / case["T"]:
        res.fail("final-label-is-not-1/T", dict(payload, last_time=float(dyn.times[-1])))


def oracle_energy_offset(res):
    """the reduced thermal state does not depend on the zero of energy: H + c*1 for large |c| / T
    (the weights exp(-E/T) are then tiny or huge in absolute terms; every truncation in the
    backend must be RELATIVE), commuting and non-commuting models, closed form where it exists"""
    import oqupy
    T, alpha, wc = 1.0, 0.1, 3.0
    lam = 2 * alpha * wc
    s = np.array([1.0, 0.0, -1.0])
    en = np.array([2.0, 0.0, -2.0])
    hx = np.array([[0, 0.4, 0], [0.4, 0, 0.3j], [0, -0.3j, 0]], dtype=complex)

    def state(H, epsrel, n=5):
        corr = oqupy.PowerLawSD(alpha=alpha, zeta=1.0, cutoff=wc, cutoff_type="exponential", temperature=T)
        g = oqupy.GibbsTempo(oqupy.System(H), oqupy.Bath(np.diag(s).astype(complex), corr),
                             oqupy.GibbsParameters(n, epsrel))
        g.compute(progress_type="silent")
        return np.array(g.get_state())
    e = en - lam * s ** 2
    w = np.exp(-(e - e.min()) / T)
    exact = np.diag(w / w.sum())
    for name, h0, ref in (("commuting", np.diag(en).astype(complex), exact),
                          ("non-commuting", np.diag(en).astype(complex) + hx, None)):
        base = state(h0, 1e-9)
        for shift, epsrel in ((24.0, 1e-9), (30.0, 1e-11), (-24.0, 1e-9), (12.0, 1e-9)):
            st = state(h0 + shift * np.eye(3), epsrel)
            want = ref if ref is not None else base
            err = float(np.abs(st - want).max())
            res.case("offset:%s:%+g" % (name, shift), True, {"offset": shift, "epsrel": epsrel, "error": err})
            res.count("energy-offset:%s" % name)
            if err > 1e-6:
                res.fail("offset:%s model, H + %+g*identity at T=1" % (name, shift),
                         {"api": "GibbsTempo", "oracle": "energy-offset", "model": name, "offset": shift,
                          "epsrel": epsrel, "n_steps": 5, "T": T, "alpha": alpha, "cutoff": wc,
                          "coupling_eigenvalues": s.tolist(), "error": err,
                          "got_populations": np.diag(st).real.tolist(),
                          "expected_populations": np.diag(want).real.tolist()})
                return True
    return False


def oracle_cutoff_types(res):
    """one commuting model per kind of spectral density (hard cutoff included), closed form"""
    found = False
    for kind in ("ohmic-hard", "ohmic-exp", "super-gauss", "custom-exp"):
        sd = {"kind": kind, "wc": 3.0}
        if kind == "custom-exp":
            sd["g"] = 1.0
        for d, o in ((2, [0.5, -0.8]), (3, [1.0, 0.2, -0.7])):
            desc = {"d": d, "n": 4, "T": 0.7, "system": "diagonal", "coupling": "generic", "alpha": 0.4,
                    "sd": kind, "sd_params": sd,
                    "H": [[[0.3 * (i + 1) * (i == j), 0.0] for j in range(d)] for i in range(d)], "o": o}
            before = len(res.failing)
            oracle_commuting(res, case_from_desc(desc), steps=(3,), tag="forced sd=%s d=%d" % (kind, d))
            found = found or len(res.failing) > before
    return found


def replay_case(res, payload):
    """re-judge one stored failing input (corpus/C11/*.json, --replay) on the real code"""
    fi = payload.get("failing_input", payload)
    key = payload.get("key", "")
    if fi.get("oracle") == "energy-offset":
        return oracle_energy_offset(res)
    before = len(res.failing)
    if key.startswith("zero-coupling"):
        H = np.array([[complex(z[0], z[1]) for z in row] for row in fi["hamiltonian"]])
        name = key[key.index("(") + 1:key.rindex(")")] if "(" in key else "replay"
        oracle_zero_coupling(res, H, fi["temperature"], fi["n_steps"], fi["coupling_diagonal"],
                             fi["alpha"], name)
    elif key.startswith("repeat-compute") or key.startswith("general") or key.startswith("final-label"):
        desc = fi["case"]
        oracle_general(res, case_from_desc(desc))
    elif key.startswith("fault-resume"):
        oracle_fault_resume(res, fi.get("n_steps", 6), (fi.get("fault_at_evaluation", 1),))
    elif key.startswith("temperature-scan"):
        oracle_temperature_scan(res, fi.get("n_steps", 4))
    elif key.startswith("shared-parameters"):
        oracle_shared_parameters(res, fi.get("n_steps", 4))
    elif key.startswith("commuting") and "long chain" in key:
        oracle_long_chain(res, steps=(fi.get("n_steps", 259),))
    elif key.startswith("commuting"):
        tag = key.split(" ", 1)[1] if "repeated eigenvalues" in key else None
        oracle_commuting(res, case_from_desc(fi["case"]), steps=(fi.get("n_steps", 2), 2, 5), tag=tag)
    else:
        res.notes.append("replay: no oracle for key %r" % key)
    return len(res.failing) > before


def case_from_desc(desc):
    H = np.array([[complex(z[0], z[1]) for z in row] for row in desc["H"]])
    sd = desc.get("sd_params", {"kind": "ohmic-exp", "wc": 3.0})
    corr, jw, wmax = build_corr(sd, desc["alpha"], desc["T"])
    return {"d": desc["d"], "n": desc["n"], "T": desc["T"], "H": H, "o": np.array(desc["o"]),
            "alpha": desc["alpha"], "corr": corr, "jw": jw, "wmax": wmax, "wc": sd["wc"], "desc": desc}


def search(res):
    import oqupy
    rng = random.Random(res.seed + 1111)
    sx = np.array([[0, 1], [1, 0]], dtype=complex)
    sy = np.array([[0, -1j], [1j, 0]])
    sz = np.array([[1, 0], [0, -1]], dtype=complex)
    # (1) zero and vanishing coupling, Hermitian H real and complex
    oracle_zero_coupling(res, 0.5 * sy + 0.3 * sz, 0.8, 4, [0.5, -0.5], 0.0, "0.5sy+0.3sz")
    oracle_zero_coupling(res, 0.5 * sx + 0.3 * sz, 0.8, 4, [0.5, -0.5], 0.0, "0.5sx+0.3sz")
    oracle_zero_coupling(res, 0.5 * sy + 0.3 * sz, 0.8, 4, [0.5, -0.5], 1e-7, "0.5sy+0.3sz,alpha=1e-7")
    for i in range(4):
        d = rng.choice([2, 3, 4])
        oracle_zero_coupling(res, rand_herm(rng, d, "complex"), rng.uniform(0.3, 2.0), rng.randrange(2, 7),
                             [rng.gauss(0, 1) for _ in range(d)], 0.0, "random-complex")
    # (2) commuting models: closed form, independence of n
    oracle_commuting(res, fixed_commuting_case())
    oracle_cutoff_types(res)
    # (2b) coupling operators with repeated eigenvalues (merged into one bond index by the backend)
    for name, case in repeated_eigenvalue_cases():
        oracle_commuting(res, case, steps=(2, 4), tag="repeated eigenvalues: " + name)
    oracle_zero_coupling(res, 0.5 * sy + 0.3 * sz, 0.8, 4, [0.5, 0.5], 0.0, "0.5sy+0.3sz,S=0.5*identity")
    for i in range(5):
        d = rng.choice([2, 3, 4])
        oracle_commuting(res, gen_case(rng, "quick", {"d": d, "hkind": "diagonal", "coupling": "generic",
                                                     "alpha": rng.choice([0.1, 0.5, 1.0])}))
    # (2c) one parameter object for several temperatures; chains longer than any memory constant
    for oracle in (oracle_shared_parameters, oracle_temperature_scan, oracle_fault_resume,
                   oracle_long_chain):
        try:
            oracle(res)
        except Exception:
            import traceback
            res.notes.append("search: %s raised: %s" % (oracle.__name__, traceback.format_exc()[-800:]))
    # (3) general models: normalised, Hermitian, positive; repeated compute()
    for i in range(5):
        oracle_general(res, gen_case(rng, "quick", {"hkind": "complex", "coupling": "generic"}))


def run(tier, seed, replay):
    res = fw.Result(PID, tier, seed, level="proof")
    rng = random.Random(seed)
    res.rule = (
        "random Gibbs models: d in {2,3} (thorough also 4), n_steps 2..5 (thorough ..6 for d=2, ..3 for d=4), T in [0.2,3], Hamiltonian "
        "complex Hermitian / real symmetric / diagonal, diagonal coupling generic / degenerate / "
        "absent (forced: repeated eigenvalues adjacent and not, d=4, zero operator, identity multiple), spectral densities ohmic-exponential, superohmic-gaussian, ohmic-hard, custom; 1-3 "
        "compute() calls per object.  The REAL backend tensors (prop, the factor tables built from "
        "the real coefficient function and operator tuple) are shipped as exact rationals; Lean "
        "evaluates `stored`/`backendData` (orientation and loop data regenerated from the source) and "
        "they are compared to the real dynamics, get_state(), backend.data (identity and random "
        "initial array) to 1e-8 relative; the hypotheses of gibbs_hermitian / gibbs_commuting are "
        "evaluated on the same tensors; coeffs(k) vs the eta cells of the real eta_function (1e-9); "
        "time step, labels, step counter and len(data) after repeated compute() exactly; "
        "TIBaseBackend._unique (indices, projection, column sums) vs its Lean model exactly; one "
        "GibbsParameters object per n_steps is shared by all cases (different temperatures); "
        "len(backend._mps) = step + 1 (chain never cut).  "
        "Non-trivial = not (zero coupling and diagonal H); distinct = distinct case description.")
    res.assumptions = [
        "exact arithmetic; float round-off, SVD truncation (epsrel 1e-13) and QUADPACK error enter "
        "only through the stated tolerances",
        "np.exp is a homomorphism (E 0 = 1, E(x+y) = E x * E y, commutes with conjugation) and "
        "scipy expm(-H dtau/2) is the half-slice propagator: modelled, not verified",
        "the float times k*dt+dt / k*dt-dt handed to eta_function denote the grid points (k±1)dt",
    ]
    res.not_shown = [
        "identification of the summed Matsubara cells eta(1/T) - eta(0) with -(1/T) x reorganisation "
        "energy int J(w)/w dw (an integral identity; used only as an oracle in the failing-input search)",
        "positive semidefiniteness of the returned matrix",
        "the index wiring inside _influence_tensor/_contract (reshape/moveaxis/swapaxes) and the SVD "
        "sweeps are tied by the correspondence only, not by the translator",
        "weak-coupling limit for non-commuting models: shown at exactly zero coupling; continuity in "
        "alpha is not a theorem (search checks alpha = 1e-7)",
    ]
    # stored failing inputs first
    import glob
    files = [replay] if replay else sorted(glob.glob(os.path.join(fw.CORPUS, PID, "*.json")))
    for f in files:
        try:
            payload = json.load(open(f))
        except (OSError, ValueError):
            continue
        again = replay_case(res, payload)
        res.count("corpus:%s" % ("fails" if again else "passes"))
        if again:
            fw.log("stored failing input still fails: %s" % f)
    if replay:
        rc = 0
        seen = set()
        for key, payload in res.failing:
            if key in seen:
                continue
            seen.add(key)
            path = fw.write_replay(PID, {"property": PID, "key": key, "failing_input": payload,
                                         "seed": seed})
            fw.log("VIOLATION property=%s replay=%s" % (PID, path))
            rc = 1
        if rc == 0:
            fw.log("OK property=%s replay=%s no longer fails" % (PID, replay))
        return rc
    fw.standard_pipeline(res, ["GibbsLoop"], THEOREMS)
    translated = all(o[1] for o in res.obligations if o[0].startswith("translator"))
    try:
        if translated:
            correspondence(res, tier, rng)
        else:
            res.notes.append("correspondence skipped: generated model unavailable")
    except fw.Infra as e:
        res.oblige("correspondence run", False, str(e))
    # always run (the backend's truncation is outside the translated loop): energy-offset invariance
    oracle_energy_offset(res)
    return fw.finish(res, search)
