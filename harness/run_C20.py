"""C20 — results depend only on current inputs: no mutation, aliasing or stale state.
See DESIGN.md §4 C20.

Ties: translator fragment `CacheKeys` (memoised methods: key vs attributes read; how Bath
copies; what the anchors do to user arrays) + correspondence
  (i)   the numpy view/copy model vs real numpy, exhaustive over a small grid;
  (ii)  generated histories of constructions / Bath copies / public attribute updates /
        evaluations on real correlations objects vs the memo model (the model predicts,
        per evaluation, the attribute values the returned number was computed from; the
        harness realises exactly that assignment on real objects and compares bit-for-bit);
  (iii) every generated array site and further public APIs taking user arrays, called with
        the array in each memory layout: caller's bytes/shape/strides/flags before vs after,
        exception kind vs the model's, results across layouts.
search(): spec-level oracles on the real code (fresh-object replays, layouts)."""
import copy
import glob
import itertools
import json
import os
import random
import warnings

import numpy as np

from . import framework as fw

PID = "C20"
P = "OQuPyVerif.Props.C20."
THEOREMS = [P + "memo_table", P + "copy_table", P + "array_table", P + "cache_sound",
            P + "copy_independent", P + "no_mutation_layout_indep", P + "layout_indep",
            P + "reuse_eq_fresh", P + "arg_table", P + "arg_store_sound",
            P + "return_table", P + "returns_fresh", P + "derived_table", P + "reinit_current",
            P + "getter_table", P + "getter_current",
            "OQuPyVerif.Aliasing.reshapeView_insert_ones", "OQuPyVerif.Aliasing.sim_run",
            "OQuPyVerif.Aliasing.static_run", "OQuPyVerif.Aliasing.inv_step"]

warnings.filterwarnings("ignore")


# ---------------------------------------------------------------------------
# (i) numpy layout rules
# ---------------------------------------------------------------------------

def csv(l):
    l = list(l)
    return ",".join(str(int(x)) for x in l) if l else "-"


def grid_layouts(shape):
    """arrays of the given logical shape in many memory layouts: (name, array)"""
    n = int(np.prod(shape)) if shape else 1
    base = np.arange(1, n + 1, dtype=np.float64).reshape(shape)
    out = [("C", base.copy())]
    nd = len(shape)
    if nd >= 2:
        out.append(("F", np.asfortranarray(base)))
        for perm in itertools.permutations(range(nd)):
            if perm == tuple(range(nd)):
                continue
            inv = np.argsort(perm)
            out.append(("T" + "".join(map(str, perm)),
                        np.ascontiguousarray(base.transpose(perm)).transpose(inv)))
    for order in ("C", "F"):
        for mask in range(1, 2 ** nd):
            big_shape = tuple(2 * d if (mask >> i) & 1 else d for i, d in enumerate(shape))
            big = np.zeros(big_shape, order=order)
            sl = tuple(slice(None, None, 2) if (mask >> i) & 1 else slice(None) for i in range(nd))
            v = big[sl]
            v[...] = base
            out.append(("S%s%d" % (order, mask), v))
    if nd >= 1:
        big = base[..., ::-1].copy()
        out.append(("N", big[..., ::-1]))
        if nd >= 2:
            row = np.arange(1, n // shape[0] + 1, dtype=np.float64).reshape(shape[1:])
            out.append(("B", np.broadcast_to(row, shape)))
    ro = []
    for name, a in out[:3]:
        b = a.view()
        b.setflags(write=False)
        ro.append((name + "ro", b))
    return out + ro


def grid_targets(n, maxrank=4):
    res = set()

    def rec(rem, cur):
        if len(cur) <= maxrank and rem == 1:
            res.add(tuple(cur))
        if len(cur) >= maxrank:
            return
        for d in range(1, rem + 1):
            if rem % d == 0:
                if d == 1 and cur.count(1) >= 2:
                    continue
                rec(rem // d, cur + [d])
    rec(n, [])
    return sorted(res)


def numpy_answer(op, a, ns):
    item = a.itemsize
    st = lambda x, it=item: csv(s // it for s in x.strides)
    if op == "flags":
        return "%d%d" % (a.flags.c_contiguous, a.flags.f_contiguous)
    if op == "reshape":
        try:
            r = a.reshape(ns)
        except ValueError:
            return "err size"
        return ("view " if np.shares_memory(r, a) else "copy ") + st(r)
    if op == "setshape":
        v = a.view()
        try:
            v.shape = ns
        except AttributeError:
            return "err notinplace"
        except ValueError:
            return "err size"
        return "view " + st(v)
    if op == "array":
        return "copy " + st(np.array(a, dtype=np.complex128), 16)
    if op == "arrayC":
        return "copy " + st(np.array(a, dtype=np.complex128, order="C"), 16)
    if op == "copyK":
        return "copy " + st(copy.copy(a))
    raise ValueError(op)


GRID_QUICK = [(), (1,), (3,), (2, 2), (2, 3), (1, 3), (3, 1), (2, 2, 2), (2, 3, 2), (2, 1, 3), (1, 2, 2)]
GRID_THOROUGH = GRID_QUICK + [(4,), (3, 3), (4, 2), (3, 2, 2), (2, 2, 3, 2), (2, 1, 2, 3), (2, 2, 2, 2),
                              (1, 1, 2), (3, 1, 1)]


def numpy_lines(res, tier):
    lines, exp, meta = [], [], []
    for shape in (GRID_QUICK if tier == "quick" else GRID_THOROUGH):
        n = int(np.prod(shape)) if shape else 1
        for name, a in grid_layouts(shape):
            item = a.itemsize
            head = "%d %s %s" % (a.flags.writeable, csv(a.shape), csv(s // item for s in a.strides))
            jobs = [("flags", ()), ("array", ()), ("copyK", ()), ("arrayC", ())]
            for ns in grid_targets(n):
                jobs += [("reshape", ns), ("setshape", ns)]
            for op, ns in jobs:
                lines.append("np %s %s %s" % (op, head, csv(ns)))
                exp.append(numpy_answer(op, a, ns))
                meta.append(("numpy", op, name, shape, ns))
                res.count("numpy:" + op)
    return lines, exp, meta


# ---------------------------------------------------------------------------
# (iii) public APIs taking user arrays, in every layout
# ---------------------------------------------------------------------------

def api_layouts(x):
    """the logical array `x` in several memory layouts: (name, array)"""
    x = np.asarray(x)
    nd = x.ndim
    out = [("C", np.array(x, order="C"))]
    if nd >= 2:
        out.append(("F", np.asfortranarray(x)))
        rev = tuple(reversed(range(nd)))
        out.append(("T", np.ascontiguousarray(x.transpose(rev)).transpose(rev)))
    big = np.zeros(tuple(2 * d for d in x.shape), dtype=x.dtype)
    sl = tuple(slice(None, None, 2) for _ in range(nd))
    v = big[sl]
    v[...] = x
    out.append(("S", v))
    if nd >= 1:
        big = np.array(x[..., ::-1], order="C")
        out.append(("N", big[..., ::-1]))
    ro = []
    for name, a in out[:3]:
        b = a.view()
        b.setflags(write=False)
        ro.append((name + "ro", b))
    return out + ro


def snapshot(a):
    base = a
    while base.base is not None and isinstance(base.base, np.ndarray):
        base = base.base
    return (a.shape, a.strides, bool(a.flags.writeable), bool(a.flags.c_contiguous),
            bool(a.flags.f_contiguous), np.array(base).tobytes(), np.array(a).tobytes())


def exc_kind(e):
    msg = str(e)
    if isinstance(e, AttributeError) and "ncompatible shape" in msg:
        return "notinplace"
    if isinstance(e, ValueError) and "read-only" in msg:
        return "readonly"
    return type(e).__name__ + ":" + msg[:80]


def herm(rng, n):
    a = np.array([[rng.uniform(-1, 1) + 1j * rng.uniform(-1, 1) for _ in range(n)] for _ in range(n)])
    return a + a.conj().T


def dens(rng, n):
    a = np.array([[rng.uniform(-1, 1) + 1j * rng.uniform(-1, 1) for _ in range(n)] for _ in range(n)])
    r = a @ a.conj().T
    return r / np.trace(r)


def generic(rng, shape, cplx=True):
    n = int(np.prod(shape))
    v = np.array([rng.uniform(-1, 1) + (1j * rng.uniform(-1, 1) if cplx else 0.0) for _ in range(n)])
    return v.reshape(shape)


def api_table(rng):
    """(name, (func, param, rank) of the generated array site or None, logical array,
        call(array) -> result arrays, model parameters)"""
    import oqupy
    from oqupy import operators as op
    from oqupy import util
    from oqupy.gradient import compute_gradient_and_dynamics
    from oqupy.mps_mpo import Gate
    from . import oq
    T = []
    sysm = oq.cheap_system()
    h2 = herm(rng, 2)
    T.append(("System(hamiltonian)", ("_check_hamiltonian", "hamiltonian", 0), h2,
              lambda a: [oqupy.System(a).hamiltonian, oqupy.System(a).liouvillian()], {}))
    lind = generic(rng, (2, 2))
    T.append(("System(lindblad_operators)", ("_check_gammas_lindblad_operators", "lindblad_operators[*]", 0),
              lind, lambda a: [oqupy.System(h2, gammas=[0.3], lindblad_operators=[a]).liouvillian()], {}))

    def chain(method, **kw):
        def call(a):
            ch = oqupy.SystemChain([2, 2])
            args = {k: (a if v is None else v) for k, v in kw.items()}
            getattr(ch, method)(0, **args)
            return list(ch.site_liouvillians) + list(ch.nn_liouvillians)
        return call
    l4, l16 = generic(rng, (4, 4)), generic(rng, (16, 16))
    T.append(("SystemChain.add_site_hamiltonian", ("SystemChain.add_site_hamiltonian", "hamiltonian", 0),
              h2, chain("add_site_hamiltonian", hamiltonian=None), {}))
    T.append(("SystemChain.add_site_liouvillian", ("SystemChain.add_site_liouvillian", "liouvillian", 0),
              l4, chain("add_site_liouvillian", liouvillian=None), {}))
    T.append(("SystemChain.add_site_dissipation", ("SystemChain.add_site_dissipation", "lindblad_operator", 0),
              lind, chain("add_site_dissipation", lindblad_operator=None), {}))
    T.append(("SystemChain.add_nn_hamiltonian(l)", ("SystemChain.add_nn_hamiltonian", "hamiltonian_l", 0),
              h2, chain("add_nn_hamiltonian", hamiltonian_l=None, hamiltonian_r=op.sigma("x")), {}))
    T.append(("SystemChain.add_nn_hamiltonian(r)", ("SystemChain.add_nn_hamiltonian", "hamiltonian_r", 0),
              h2, chain("add_nn_hamiltonian", hamiltonian_l=op.sigma("y"), hamiltonian_r=None), {}))
    T.append(("SystemChain.add_nn_liouvillian", ("SystemChain.add_nn_liouvillian", "liouvillian_l_r", 0),
              l16, chain("add_nn_liouvillian", liouvillian_l_r=None), {}))
    T.append(("SystemChain.add_nn_dissipation(l)", ("SystemChain.add_nn_dissipation", "lindblad_operator_l", 0),
              lind, chain("add_nn_dissipation", lindblad_operator_l=None, lindblad_operator_r=op.sigma("x")), {}))
    T.append(("SystemChain.add_nn_dissipation(r)", ("SystemChain.add_nn_dissipation", "lindblad_operator_r", 0),
              lind, chain("add_nn_dissipation", lindblad_operator_l=op.sigma("y"), lindblad_operator_r=None), {}))

    corr = oqupy.CustomCorrelations(oq.corr_fn)

    def bath_call(a):
        b = oqupy.Bath(a, corr)
        # eigenvectors are defined up to a phase: compare the reconstructed operator
        u, d = b.unitary_transform, b.coupling_operator
        return [u @ d @ u.conj().T, np.sort(np.real(np.diag(d)))]
    T.append(("Bath(coupling_operator)", ("Bath.__init__", "coupling_operator", 0), herm(rng, 2), bath_call, {}))
    T.append(("Bath(coupling_operator, diagonal)", ("Bath.__init__", "coupling_operator", 0),
              np.diag([0.5, -0.25]).astype(complex), bath_call, {}))

    rho = dens(rng, 2)
    for nenv in (0, 1, 2):
        pts = [oq.identity_pt(2) for _ in range(nenv)]

        def cd(a, pts=pts):
            d = oqupy.compute_dynamics(system=sysm, initial_state=a, dt=0.1, num_steps=2,
                                       process_tensor=list(pts), progress_type="silent")
            return [d.states]
        T.append(("compute_dynamics(initial_state) num_envs=%d" % nenv,
                  ("compute_dynamics", "initial_state", 0), rho, cd, {"hs_dim": 2, "num_envs": nenv}))

    def cdwf(a):
        tsys = oqupy.TimeDependentSystemWithField(lambda t, f: 0.5 * op.sigma("x"))
        mfs = oqupy.MeanFieldSystem([tsys], lambda t, st, f: -0.1j * f)
        d = oqupy.compute_dynamics_with_field(mfs, initial_field=1.0, initial_state_list=[a], dt=0.1,
                                              num_steps=2, progress_type="silent")
        return [d.system_dynamics[0].states, d.fields]
    T.append(("compute_dynamics_with_field(initial_state_list)",
              ("compute_dynamics_with_field", "initial_state_list[*]", 0), rho, cdwf,
              {"hs_dim": 2, "num_envs": 0}))

    psys = oqupy.ParameterizedSystem(lambda x: x * op.sigma("x"))
    params = np.full((4, 1), 0.3)
    tgt = dens(rng, 2)

    def grad_init(a):
        g, d = compute_gradient_and_dynamics(system=psys, parameters=params, initial_state=a,
                                             target_derivative=tgt, process_tensors=[oq.identity_pt(2)],
                                             dt=0.1, num_steps=2, progress_type="silent")
        return [d.states] + list(g)

    def grad_tgt(a):
        g, d = compute_gradient_and_dynamics(system=psys, parameters=params, initial_state=rho,
                                             target_derivative=a, process_tensors=[oq.identity_pt(2)],
                                             dt=0.1, num_steps=2, progress_type="silent")
        return [d.states] + list(g)
    T.append(("compute_gradient_and_dynamics(initial_state)",
              ("compute_gradient_and_dynamics", "initial_state", 0), rho, grad_init,
              {"hs_dim": 2, "num_envs": 1}))
    T.append(("compute_gradient_and_dynamics(target_derivative)",
              ("compute_gradient_and_dynamics", "target_derivative", 0), tgt, grad_tgt,
              {"hs_dim": 2, "num_envs": 1}))

    def grad_par(a):
        g, d = compute_gradient_and_dynamics(system=psys, parameters=a, initial_state=rho,
                                             target_derivative=tgt, process_tensors=[oq.identity_pt(2)],
                                             dt=0.1, num_steps=2, progress_type="silent")
        return [d.states] + list(g)
    T.append(("compute_gradient_and_dynamics(parameters)", None, generic(rng, (4, 1), cplx=False), grad_par, {}))

    for shape, idx in (((2, 3), 1), ((2, 3), -1), ((2, 3, 2), 0), ((2, 3, 2), 3), ((3,), 2), ((2, 2), -5)):
        T.append(("util.add_singleton%s index=%d" % (shape, idx), ("add_singleton", "tensor", 0),
                  generic(rng, shape), lambda a, idx=idx: [util.add_singleton(a, idx)], {"index": idx}))

    def tempo(a):
        t = oqupy.Tempo(system=sysm, bath=oq.cheap_bath(), parameters=oq.cheap_params(0.1),
                        initial_state=a, start_time=0.0)
        return [t.compute(0.2, progress_type="silent").states]
    T.append(("Tempo(initial_state)", ("Tempo._prepare_backend", "self._initial_state", 0), rho, tempo,
              {"dim": 2}))

    def mft(a):
        sys_ = oqupy.TimeDependentSystemWithField(lambda t, f: 0.5 * op.sigma("x"))
        mfs = oqupy.MeanFieldSystem([sys_], lambda t, st, f: -0.1j * f)
        m = oqupy.MeanFieldTempo(mean_field_system=mfs, bath_list=[oq.cheap_bath()],
                                 initial_state_list=[a], initial_field=1.0, start_time=0.0,
                                 parameters=oq.cheap_params(0.1))
        d = m.compute(0.2, progress_type="silent")
        return [d.system_dynamics[0].states, d.fields]
    T.append(("MeanFieldTempo(initial_state_list)", None, rho, mft, {}))

    g3 = generic(rng, (4, 4, 3))
    T.append(("Gate(tensors)", ("Gate.__init__", "tensors[*]", 0), g3,
              lambda a: list(Gate([0, 1], [a, generic(random.Random(1), (3, 4, 4))])._tensors), {}))
    T.append(("AugmentedMPS(gamma rank 1)", ("AugmentedMPS.__init__", "gammas[*]", 1), generic(rng, (4,)),
              lambda a: list(oqupy.AugmentedMPS([a, a]).gammas), {}))
    T.append(("AugmentedMPS(gamma rank 2)", ("AugmentedMPS.__init__", "gammas[*]", 2), rho,
              lambda a: list(oqupy.AugmentedMPS([a, a]).gammas), {}))
    T.append(("AugmentedMPS(gamma rank 3)", ("AugmentedMPS.__init__", "gammas[*]", 3), generic(rng, (2, 4, 2)),
              lambda a: list(oqupy.AugmentedMPS([a, a]).gammas), {}))
    T.append(("AugmentedMPS(gamma rank 4)", ("AugmentedMPS.__init__", "gammas[*]", 4),
              generic(rng, (2, 4, 2, 3)),
              lambda a: list(oqupy.AugmentedMPS([a]).gammas), {}))
    lam1 = np.array([0.7, 0.3])
    g_l = generic(rng, (1, 4, 2))
    g_r = generic(rng, (2, 4, 1))
    T.append(("AugmentedMPS(lambda rank 1)", ("AugmentedMPS.__init__", "lambdas[*]", 1), lam1,
              lambda a: list(oqupy.AugmentedMPS([g_l, g_r], [a]).lambdas), {}))
    T.append(("AugmentedMPS(lambda rank 2)", ("AugmentedMPS.__init__", "lambdas[*]", 2), np.diag(lam1),
              lambda a: list(oqupy.AugmentedMPS([g_l, g_r], [a]).lambdas), {}))

    def tebd(a):
        ch = oqupy.SystemChain([2, 2])
        ch.add_site_hamiltonian(0, 0.5 * op.sigma("z"))
        ch.add_nn_hamiltonian(0, 0.3 * op.sigma("x"), op.sigma("x"))
        mps = oqupy.AugmentedMPS([a, op.spin_dm("z-")])
        t = oqupy.PtTebd(initial_augmented_mps=mps, system_chain=ch, process_tensors=[None, None],
                         parameters=oqupy.PtTebdParameters(dt=0.1, order=1, epsrel=1e-8),
                         dynamics_sites=[0, 1])
        r = t.compute(end_step=2, progress_type="silent")
        return [np.array(r["norm"]), r["dynamics"][0].states, r["dynamics"][1].states]
    T.append(("PtTebd(AugmentedMPS(density matrix))", None, rho, tebd, {}))

    sup = generic(rng, (4, 4))

    def control(a):
        c = oqupy.Control(2)
        c.add_single(1, a)
        c.add_single(0.05, a, post=True)
        d = oqupy.compute_dynamics(system=sysm, initial_state=rho, dt=0.1, num_steps=2, control=c,
                                   progress_type="silent")
        return [d.states]
    T.append(("Control.add_single(control_operation)", None, sup, control, {}))

    def chain_control(a):
        c = oqupy.ChainControl([2, 2])
        c.add_single_site_control(a, 0, 1)
        return [x for x in c.get_single_site_controls(1, False) if x is not None]
    T.append(("ChainControl.add_single_site_control(control)", None, sup, chain_control, {}))

    from oqupy.mps_mpo import compute_nn_gate, compute_trotter_layers
    liou = 0.3 * generic(rng, (16, 16))
    T.append(("compute_nn_gate(liouvillian)", ("compute_nn_gate", "liouvillian", 0), liou,
              lambda a: list(compute_nn_gate(a, 0, 2, 2, 0.1, 1e-9).tensors), {}))
    T.append(("compute_trotter_layers(nn_full_liouvillians)",
              ("compute_trotter_layers", "nn_full_liouvillians[*]", 0), liou,
              lambda a: [t for layer in compute_trotter_layers([a, a], [2, 2, 2], 0.1, 1e-9)
                         for g in layer.gates for t in g.tensors], {}))
    tt_sys, tt_bath, tt_pt, tt_corr = ttbc_fixture()

    def ttbc(method):
        def call(a):
            t = oqupy.bath_dynamics.TwoTimeBathCorrelations(
                tt_sys, tt_bath, tt_pt, initial_state=op.spin_dm("z+"), system_correlations=a)
            if method == "occupation":
                return list(t.occupation(1.0, dw=0.1, progress_type="silent"))
            return [t.correlation(1.0, 0.2, freq_2=0.5, time_2=0.3, dw=(0.1, 0.1),
                                  progress_type="silent")]
        return call
    T.append(("TwoTimeBathCorrelations(system_correlations).occupation",
              ("TwoTimeBathCorrelations.occupation", "self._system_correlations", 0), tt_corr,
              ttbc("occupation"), {}))
    T.append(("TwoTimeBathCorrelations(system_correlations).correlation",
              ("TwoTimeBathCorrelations.correlation", "self._system_correlations", 0), tt_corr,
              ttbc("correlation"), {}))

    def dyn_expect(a):
        d = oqupy.compute_dynamics(system=sysm, initial_state=rho, dt=0.1, num_steps=2,
                                   progress_type="silent")
        return [d.expectations(a)[1]]
    T.append(("Dynamics.expectations(operator)", None, h2, dyn_expect, {}))
    return T


_TTBC = {}


def ttbc_fixture():
    """system, bath, a 3-step process tensor and the system correlations computed for it (they hold
    NaN outside the time-ordered region) -- built once"""
    if not _TTBC:
        import oqupy
        from oqupy import operators as op
        from . import oq
        sysm = oq.cheap_system()
        corr = oqupy.PowerLawSD(alpha=0.1, zeta=1.0, cutoff=2.0, temperature=0.5)
        bath = oqupy.Bath(0.5 * op.sigma("z"), corr)
        pt = oqupy.pt_tempo_compute(bath=bath, start_time=0.0, end_time=0.3,
                                    parameters=oqupy.TempoParameters(dt=0.1, epsrel=1e-5, dkmax=3),
                                    progress_type="silent")
        t = oqupy.bath_dynamics.TwoTimeBathCorrelations(sysm, bath, pt, initial_state=op.spin_dm("z+"))
        t.generate_system_correlations(0.3, progress_type="silent")
        _TTBC["v"] = (sysm, bath, pt, np.array(t._system_correlations))
    return _TTBC["v"]


def as_list(r):
    out = []
    for x in r:
        if x is None:
            continue
        if hasattr(x, "get_tensor"):
            x = x.get_tensor()
        try:
            out.append(np.array(x, dtype=complex))
        except (TypeError, ValueError):
            if isinstance(x, (list, tuple)):
                out += as_list(x)
    return out


def run_api_case(call, arr):
    """-> (exception kind or None, results, snapshot unchanged?)"""
    before = snapshot(arr)
    try:
        out = as_list(call(arr))
        err = None
    except Exception as e:       # noqa: BLE001  (classified, reported)
        out, err = None, exc_kind(e)
    after = snapshot(arr)
    return err, out, before == after


def results_close(a, b, exact=False, rtol=1e-10):
    if a is None or b is None or len(a) != len(b):
        return False
    for x, y in zip(a, b):
        if x.shape != y.shape:
            return False
        if exact:
            if not np.array_equal(x, y):
                return False
        elif not np.allclose(x, y, rtol=rtol, atol=1e-12):
            return False
    return True


def site_index(tables, key):
    """indices of all paths (`func#k`) of the site"""
    out = [i for i, s in enumerate(tables["arrays"])
           if (s["func"].split("#")[0], s["param"], s["rank"]) == key]
    return out or None


def worst_answer(outs):
    """of the model's answers for the paths of one site, the one that is not plainly fine"""
    for o in outs:
        parts = [p.strip() for p in o.split("|")]
        if len(parts) != 3 or parts[1].startswith("err") or \
                not ("same=1" in parts[1] and "written0=0" in parts[1]):
            return o
    return outs[0]


def parse_tables(line):
    memo, cop, arr, args, rets, ders, gets = [x.strip() for x in line.split("||")]
    out = {"memo": [], "copies": [], "arrays": [], "args": [], "returns": [], "derived": [],
           "getters": []}
    for tok in gets.split():
        f = tok.split(":")
        out["getters"].append({"func": f[0], "attr": f[1], "ok": f[-1] == "ok=true"})
    for tok in ders.split():
        f = tok.split(":")
        out["derived"].append({"func": f[0], "attr": f[1], "guard": f[2], "ok": f[3] == "ok=true"})
    for tok in rets.split():
        f = tok.split(":")
        out["returns"].append({"func": f[0], "kind": f[1], "ok": f[2] == "ok=true"})
    for tok in args.split():
        f = tok.split(":")
        out["args"].append({"func": f[0], "param": f[1], "kind": f[2], "ok": f[3] == "ok=true"})
    for tok in memo.split():
        f = tok.split(":")
        cls, meth = f[0].split(".", 1)
        d = dict(x.split("=", 1) for x in f[1:])
        reads = [] if d["reads"] == "-" else [tuple(r.split("@")) for r in d["reads"].split(",")]
        out["memo"].append({"cls": cls, "method": meth, "cached": d["cached"] == "true",
                            "key": [] if d["key"] == "-" else d["key"].split(","),
                            "reads": reads, "ok": d["ok"] == "true"})
    for tok in cop.split():
        f = tok.split(":")
        out["copies"].append({"site": f[0], "kind": f[1].split(".")[-1], "ok": f[2] == "ok=true"})
    for tok in arr.split():
        f = tok.split(":")
        out["arrays"].append({"func": f[0], "param": f[1], "rank": int(f[2].split("=")[1]),
                              "safe": f[3] == "safe=true"})
    return out


def api_lines(res, rng, tables):
    """real calls + the lines for the model; returns (lines, expectations, meta)"""
    lines, exp, meta = [], [], []
    for name, key, x, call, pars in api_table(rng):
        ref = None
        for lname, arr in api_layouts(x):
            err, out, same = run_api_case(call, arr)
            res.count("api-layout:" + lname)
            if lname == "C":
                ref = out
            rec = {"api": name, "layout": lname, "exception": err, "caller_unchanged": same,
                   "equals_C_result": (err is None and results_close(out, ref))}
            if key is None:
                # no model site: the three observations are the comparison
                lines.append(None)
                exp.append(rec)
                meta.append(("api", name, lname))
                continue
            idx = site_index(tables, key)
            if idx is None:
                lines.append(None)
                rec["missing_site"] = list(key)
                exp.append(rec)
                meta.append(("api", name, lname))
                continue
            item = arr.itemsize
            parstr = ",".join("%s:%d" % kv for kv in pars.items()) or "-"
            n = arr.size
            lines.append(["site %d %d %s %s %s %s" % (
                i, arr.flags.writeable, csv(arr.shape), csv(s // item for s in arr.strides),
                csv(range(1, n + 1)), parstr) for i in idx])
            exp.append(rec)
            meta.append(("site", name, lname))
    return lines, exp, meta


def judge_api(res, line, rec, got, m):
    """compare one real API observation with the model's answer (`got` None: no model site)"""
    key = "%s|%s" % (m[1], m[2])
    res.case("api " + key, True, {"op": (line or "api " + key)[:160], "impl": json.dumps(rec)[:120],
                                  "model": (got or "-")[:120]})
    if "missing_site" in rec:
        res.disagree("no generated array site for " + m[1], rec)
        return
    if got is None:
        # property-level expectation only
        if rec["exception"] is not None or not rec["caller_unchanged"] or not rec["equals_C_result"]:
            res.disagree("API %s misbehaves for layout %s" % (m[1], m[2]), rec)
        return
    parts = [p.strip() for p in got.split("|")]
    if len(parts) != 3:
        res.disagree("model answer unreadable: " + got[:100], rec)
        return
    conc = parts[1]
    model_exc = None
    if conc.startswith("err "):
        model_exc = conc[4:]
    impl_exc = rec["exception"]
    if (impl_exc or None) != model_exc and not (impl_exc is None and model_exc is None):
        res.disagree("exception: implementation %r, model %r for %s" % (impl_exc, model_exc, key),
                     {"line": line, "impl": rec, "model": got})
        return
    if model_exc is None:
        ok = "same=1" in conc and "written0=0" in conc
        if ok != rec["caller_unchanged"]:
            res.disagree("caller array: implementation unchanged=%s, model %s for %s"
                         % (rec["caller_unchanged"], conc[:40], key), {"line": line, "impl": rec, "model": got})
            return
        if not rec["equals_C_result"]:
            res.disagree("result for layout %s differs from the C-layout result: %s" % (m[2], m[1]),
                         {"line": line, "impl": rec})


# ---------------------------------------------------------------------------
# (ii) histories on memoised objects
# ---------------------------------------------------------------------------

def _j1(w):
    return 0.2 * w


def _j2(w):
    return 0.1 * w ** 2


def _c1(t):
    return (np.cos(6.0 * t) + 1j * np.sin(6.0 * t)) * np.exp(-12.0 * t)


def _c2(t):
    return (np.cos(3.0 * t) - 0.5j * np.sin(3.0 * t)) * np.exp(-8.0 * t)


VALUES = {
    "temperature": [0.5, 5.0, 0.0, 1.3],
    "alpha": [0.1, 0.4, 0.25],
    "zeta": [1.0, 3.0, 2.0],
    "cutoff": [2.0, 4.0, 3.0],
    "cutoff_type": ["exponential", "gaussian", "hard"],
    "j_function": [_j1, _j2],
    "correlation_function": [_c1, _c2],
}
CTOR = {
    "PowerLawSD": ["alpha", "zeta", "cutoff", "cutoff_type", "temperature"],
    "CustomSD": ["j_function", "cutoff", "cutoff_type", "temperature"],
    "CustomCorrelations": ["correlation_function"],
}
TAUS = [0.3, 0.2, 0.45]
OMEGAS = [1.0, 2.5]
D2 = [(0.1, 0.2, "square"), (0.1, 0.0, "upper-triangle"), (0.15, 0.3, "square")]
# (the triangle is taken at time_1 = 0, as TEMPO uses it: away from the origin CustomSD adds an
#  uncached integral of correlation(), which is not a combination of memoised eta values)
EPS = 1e-6      # integration tolerance used in the histories (cheap, deterministic)


def val(attr, code):
    return VALUES[attr][code - 1]


def show(v):
    return getattr(v, "__name__", None) or repr(v)


def construct(cls, codes):
    import oqupy
    kw = {a: val(a, codes[a]) for a in CTOR[cls]}
    return getattr(oqupy, cls)(**kw)


class History:
    """A generated usage history; `ops` are tuples understood by both sides."""

    def __init__(self, rng, cls, n):
        self.cls = cls
        self.ops = []
        live = []          # (object id, settable by the user?)
        nobj = 0

        def rnd_codes():
            return {a: rng.randrange(1, len(VALUES[a]) + 1) for a in CTOR[cls]}
        self.ops.append(("new", rnd_codes()))
        live.append(0)
        nobj = 1
        if rng.random() < 0.5:
            # a memoised evaluation before the first copy is taken
            self.ops.append(("eval", 0) + self.rnd_eval(rng))
            self.ops.append(("bath", 0))
            live.append(2)
            nobj = 3
        baths = [1] if nobj == 3 else []      # handles of the baths' own copies
        for _ in range(n):
            r = rng.random()
            if r < 0.12 and nobj < 7:
                self.ops.append(("new", rnd_codes()))
                live.append(nobj)
                nobj += 1
            elif r < 0.24 and baths and nobj < 9:
                # bath.correlations once more: what the bath hands out now
                self.ops.append(("access", rng.choice(baths)))
                live.append(nobj)
                nobj += 1
            elif r < 0.38 and nobj < 7:
                src = rng.choice(live)
                # Bath(op, src): internal copy (id nobj), bath.correlations: copy of it (id nobj+1)
                self.ops.append(("bath", src))
                baths.append(nobj)
                live.append(nobj + 1)
                nobj += 2
            elif r < 0.55:
                i = rng.choice(live)
                a = rng.choice(CTOR[cls])
                self.ops.append(("set", i, a, rng.randrange(1, len(VALUES[a]) + 1)))
            else:
                earlier = [o for o in self.ops if o[0] == "eval"]
                if earlier and rng.random() < 0.4:
                    self.ops.append(rng.choice(earlier))     # same object, same arguments again
                else:
                    i = rng.choice(live)
                    self.ops.append(("eval", i) + self.rnd_eval(rng))

    def rnd_eval(self, rng):
        if self.cls == "CustomCorrelations":
            if rng.random() < 0.5:
                return ("correlation", rng.randrange(len(TAUS)))
            return ("correlation_2d_integral", rng.randrange(len(D2)))
        m = rng.choice(["correlation", "eta_function", "eta_function", "spectral_density",
                        "correlation_2d_integral"])
        if m == "spectral_density":
            return (m, rng.randrange(len(OMEGAS)))
        if m == "correlation_2d_integral":
            return (m, rng.randrange(len(D2)))
        return (m, rng.randrange(len(TAUS)))

    def to_json(self):
        return {"cls": self.cls, "ops": [list(o) for o in self.ops]}

    @staticmethod
    def from_json(d):
        h = History.__new__(History)
        h.cls = d["cls"]
        h.ops = [tuple(o) for o in d["ops"]]
        return h


def call_method(obj, cls, method, k):
    """the fixed call forms used by the histories (the lru key is the literal call form)"""
    if method == "correlation":
        if cls == "CustomCorrelations":
            return complex(obj.correlation(TAUS[k]))
        return complex(obj.correlation(TAUS[k], epsrel=EPS))
    if method == "spectral_density":
        return complex(obj.spectral_density(OMEGAS[k]))
    if method == "eta_function":
        return complex(obj.eta_function(TAUS[k], EPS))
    if method == "correlation_2d_integral":
        d, t1, shape = D2[k]
        return complex(obj.correlation_2d_integral(d, t1, shape=shape, epsrel=EPS))
    raise ValueError(method)


def eta_args_of_2d(k):
    """the eta_function calls (keyword form) CustomSD.correlation_2d_integral makes, with the
    coefficients of its linear combination, in evaluation order"""
    d, t1, shape = D2[k]
    if shape == "upper-triangle":
        return [(t1 + d, 1.0), (t1, -1.0)]
    if shape == "square":
        return [(t1 + d, 1.0), (t1, -2.0), (t1 - d, 1.0)]
    raise ValueError(shape)


def combine_2d(k, vals):
    d, t1, shape = D2[k]
    if shape == "upper-triangle":
        return vals[0] - vals[1]
    return vals[0] - 2.0 * vals[1] + vals[2]


class RealRun:
    """replays a history on real objects"""

    def __init__(self, cls):
        from oqupy import operators as op
        self.cls = cls
        self.objs = []
        self.baths = {}
        self.sz = op.sigma("z")

    def step(self, o):
        import oqupy
        if o[0] == "new":
            self.objs.append(construct(self.cls, o[1]))
            return None
        if o[0] == "bath":
            b = oqupy.Bath(self.sz, self.objs[o[1]])
            self.baths[len(self.objs)] = b
            self.objs.append(b._correlations)        # the Bath's own copy (copy site 0)
            self.objs.append(b.correlations)         # what the Bath hands out (copy site 1)
            return None
        if o[0] == "access":
            self.objs.append(self.baths[o[1]].correlations)
            return None
        if o[0] == "set":
            setattr(self.objs[o[1]], o[2], val(o[2], o[3]))
            return None
        if o[0] == "eval":
            return call_method(self.objs[o[1]], self.cls, o[2], o[3])
        raise ValueError(o)

    def current_codes(self):
        """not used for judging; the spec side tracks codes itself"""


class SpecRun:
    """what the property demands: every object answers by its own current values; copies
    take the values at copy time"""

    def __init__(self, cls):
        self.cls = cls
        self.codes = []

    def step(self, o):
        if o[0] == "new":
            self.codes.append(dict(o[1]))
        elif o[0] == "bath":
            self.codes.append(dict(self.codes[o[1]]))
            self.codes.append(dict(self.codes[o[1]]))
        elif o[0] == "access":
            self.codes.append(dict(self.codes[o[1]]))
        elif o[0] == "set":
            self.codes[o[1]][o[2]] = o[3]
        elif o[0] == "eval":
            fresh = construct(self.cls, self.codes[o[1]])
            return call_method(fresh, self.cls, o[2], o[3])
        return None


class TauCodes:
    """float argument -> small integer (exact float identity, like the lru key)"""

    def __init__(self):
        self.d = {}

    def code(self, x):
        return self.d.setdefault(float(x), len(self.d) + 1)


def memo_line(h, taucodes):
    """the history in the driver's language; composite evaluations of the spectral-density
    classes are expanded into the memoised calls they make.  Returns (line, plan) where plan
    maps each python-level op to the indices of its driver tokens."""
    toks, plan = [], []
    for o in h.ops:
        if o[0] == "new":
            plan.append([len(toks)])
            toks.append("new %s %s" % (h.cls, ",".join("%s=%d" % kv for kv in sorted(o[1].items()))))
        elif o[0] == "bath":
            plan.append([len(toks), len(toks) + 1])
            toks.append("copy %d 0" % o[1])
            toks.append("copy @prev 1")
        elif o[0] == "access":
            plan.append([len(toks)])
            toks.append("copy %d 1" % o[1])
        elif o[0] == "set":
            plan.append([len(toks)])
            toks.append("set %d %s %d" % (o[1], o[2], o[3]))
        else:
            _, i, m, k = o
            if m == "correlation_2d_integral" and h.cls != "CustomCorrelations":
                idx = []
                for tau, _coef in eta_args_of_2d(k):
                    idx.append(len(toks))
                    # form 2 = keyword form used internally: a different lru key than form 1
                    toks.append("eval %d eta_function 2,%d" % (i, taucodes.code(tau)))
                plan.append(idx)
            elif m == "eta_function":
                plan.append([len(toks)])
                toks.append("eval %d eta_function 1,%d" % (i, taucodes.code(TAUS[k])))
            else:
                plan.append([len(toks)])
                toks.append("eval %d %s %d" % (i, m, k))
    return toks, plan


def resolve_prev(toks):
    """`copy @prev 1`: the source is the object created by the preceding copy; ids are
    assigned by the model in creation order, so they can be computed here"""
    out, nobj = [], 0
    for t in toks:
        w = t.split()
        if w[0] == "new":
            nobj += 1
        elif w[0] == "copy":
            if w[1] == "@prev":
                t = "copy %d %s" % (nobj - 1, w[2])
            nobj += 1
        out.append(t)
    return out


def realise(cls, reads, values):
    """A real object on which every read of `reads` (attr, kind) sees the given code:
    all-direct -> a fresh object; otherwise an original carrying the closure/frozen values
    and a shallow copy of it carrying the direct ones."""
    env = {}
    for (a, k), v in zip(reads, values):
        env[(a, k)] = v
    ctor = {}
    for a in CTOR[cls]:
        for k in ("f", "c", "d"):
            if (a, k) in env and env[(a, k)] > 0:
                ctor[a] = env[(a, k)]
                break
        else:
            ctor[a] = 1
    o = construct(cls, ctor)
    closure = {a: v for (a, k), v in env.items() if k == "c" and v > 0}
    frozen = {a: v for (a, k), v in env.items() if k == "f" and v > 0}
    direct = {a: v for (a, k), v in env.items() if k == "d" and v > 0}
    if not closure and not frozen:
        return o
    for a, v in closure.items():
        setattr(o, a, val(a, v))
    b = copy.copy(o)
    for a, v in direct.items():
        setattr(b, a, val(a, v))
    return b


def history_cases(res, rng, tier, tables, corpus):
    """returns (lines, judge callbacks)"""
    nh = 60 if tier == "quick" else 400
    hs = list(corpus)
    classes = ["PowerLawSD", "PowerLawSD", "CustomSD", "CustomCorrelations"]
    for i in range(nh):
        cls = classes[i % len(classes)]
        n = rng.randrange(6, 16) if cls != "CustomCorrelations" else rng.randrange(5, 10)
        hs.append(History(rng, cls, n))
    lines, jobs = [], []
    for h in hs:
        tc = TauCodes()
        toks, plan = memo_line(h, tc)
        toks = resolve_prev(toks)
        lines.append("memo " + ";".join(toks))
        jobs.append((h, toks, plan))
        res.count("history:" + h.cls)
        for o in h.ops:
            res.count("history-op:" + o[0])
    return lines, jobs


def judge_history(res, h, toks, plan, got, tables):
    answers = got.split(";")
    if len(answers) != len(toks) or any(a == "bad-op" for a in answers):
        res.disagree("model could not run history", {"history": h.to_json(), "model": got[:300]})
        return
    real = RealRun(h.cls)
    sites = {(s["cls"], s["method"]): s for s in tables["memo"]}
    nontrivial = False
    for o, idx in zip(h.ops, plan):
        try:
            r = real.step(o)
        except Exception as e:      # noqa: BLE001
            res.disagree("history: the real objects raise " + exc_kind(e),
                         {"history": h.to_json(), "at": list(o)})
            return
        if o[0] != "eval":
            continue
        m = o[2]
        parts = []
        for j in idx:
            w = answers[j].split()       # hit|miss <values> spec <values>
            site = sites[(h.cls, toks[j].split()[2])]
            vals = [] if w[1] == "-" else [int(x) for x in w[1].split(",")]
            spec = [] if w[3] == "-" else [int(x) for x in w[3].split(",")]
            if w[0] == "hit" or vals != spec:
                nontrivial = True
            res.count("eval:" + w[0])
            res.count("eval:stale-predicted" if vals != spec else "eval:current-predicted")
            parts.append((site, vals))
        # the value the model says was returned: realise the predicted attribute assignment
        if m == "correlation_2d_integral" and h.cls != "CustomCorrelations":
            vs = []
            for (site, vals), (tau, _c) in zip(parts, eta_args_of_2d(o[3])):
                obj = realise(h.cls, site["reads"], vals)
                vs.append(complex(obj.eta_function(tau, epsrel=EPS, subdiv_limit=_subdiv(),
                                                   matsubara=False)))
            want = combine_2d(o[3], vs)
            ok = abs(want - r) <= 1e-12 * max(1.0, abs(want))
        else:
            site, vals = parts[0]
            obj = realise(h.cls, site["reads"], vals)
            want = call_method(obj, h.cls, m, o[3])
            ok = (want == r)
        if not ok:
            res.disagree("history: real object returned %r, model predicts the value %r "
                         "(computed from attribute codes %s)" % (r, want, parts[0][1]),
                         {"history": h.to_json(), "at": list(o), "impl": repr(r), "model": repr(want)})
            return
    res.case("memo " + ";".join(toks), nontrivial,
             {"op": ("memo " + ";".join(toks))[:160], "impl": "all evaluations as predicted",
              "model": got[:120]})


def _subdiv():
    from oqupy.config import SUBDIV_LIMIT
    return SUBDIV_LIMIT


# ---------------------------------------------------------------------------
# (iv) caller-owned parameter tables edited in place between calls
# ---------------------------------------------------------------------------

T_STEPS = 2          # time steps of the gradient runs: tables have 2*T_STEPS rows
T_DT = 0.2


def table_values(code):
    """the (2*T_STEPS x 2) parameter table with value code `code` (deterministic)"""
    r = random.Random(1000 + code)
    return np.array([[r.uniform(0.2, 2.0), r.uniform(-1.0, 1.0)] for _ in range(2 * T_STEPS)])


def _ham(hx, hz):
    from oqupy import operators as op
    return 0.5 * hx * op.sigma("x") + 0.5 * hz * op.sigma("z")


def _analytic_derivs(dt, pars):
    """cheap user-supplied propagator derivatives (central differences of the half step)"""
    import oqupy
    from scipy.linalg import expm
    sysm = oqupy.ParameterizedSystem(_ham)
    out = []
    for i in range(2):
        hp, hm = np.array(pars, dtype=float), np.array(pars, dtype=float)
        hp[i] += 1e-6
        hm[i] -= 1e-6
        out.append((expm(sysm.liouvillian(*hp) * dt / 2) - expm(sysm.liouvillian(*hm) * dt / 2)) / 2e-6)
    return out


def new_param_system():
    import oqupy
    return oqupy.ParameterizedSystem(_ham, propagator_derivatives=_analytic_derivs)


TABLE_FUNCS = {
    # name -> (generated arg-store entry that decides how the table is recognised, call)
    "ParameterizedSystem.get_propagators": "ParameterizedSystem.get_propagators",
    "ParameterizedSystem.get_propagator_derivatives": "ParameterizedSystem.get_propagator_derivatives",
    "state_gradient": "ParameterizedSystem.get_propagators",
    "compute_gradient_and_dynamics": "ParameterizedSystem.get_propagators",
}


def table_call(func, system, table):
    """one library call with the caller's table -> list of arrays"""
    import oqupy
    from oqupy import operators as op
    from oqupy.gradient import compute_gradient_and_dynamics
    from . import oq
    if func == "ParameterizedSystem.get_propagators":
        f = system.get_propagators(T_DT, table)
        return as_list([x for k in range(T_STEPS) for x in f(k)])
    if func == "ParameterizedSystem.get_propagator_derivatives":
        f = system.get_propagator_derivatives(T_DT, table)
        return as_list([y for k in range(T_STEPS) for x in f(k) for y in x])
    if func == "state_gradient":
        r = oqupy.state_gradient(system=system, initial_state=op.spin_dm("z+"),
                                 target_derivative=op.spin_dm("x+").T,
                                 process_tensors=[oq.identity_pt(T_STEPS, dt=T_DT)],
                                 parameters=table, progress_type="silent")
        return as_list([r["final_state"], r["gradient"], r["dynamics"].states])
    if func == "compute_gradient_and_dynamics":
        g, d = compute_gradient_and_dynamics(
            system=system, parameters=table, initial_state=op.spin_dm("z+"),
            target_derivative=op.spin_dm("x+").T, process_tensors=[oq.identity_pt(T_STEPS, dt=T_DT)],
            progress_type="silent")
        return as_list([d.states] + list(g))
    raise ValueError(func)


class TableHistory:
    """ops: ("new", code) | ("mut", table, code) | ("call", table) on ONE shared system"""

    def __init__(self, rng, func, n):
        self.func = func
        self.ops = [("new", rng.randrange(1, 6)), ("call", 0)]
        ntab = 1
        for _ in range(n):
            r = rng.random()
            if r < 0.15 and ntab < 3:
                self.ops.append(("new", rng.randrange(1, 6)))
                ntab += 1
            elif r < 0.55:
                self.ops.append(("mut", rng.randrange(ntab), rng.randrange(1, 6)))
            else:
                self.ops.append(("call", rng.randrange(ntab)))

    def to_json(self):
        return {"func": self.func, "ops": [list(o) for o in self.ops]}

    @staticmethod
    def from_json(d):
        h = TableHistory.__new__(TableHistory)
        h.func, h.ops = d["func"], [tuple(o) for o in d["ops"]]
        return h

    def line(self, tables):
        site = [i for i, a in enumerate(tables["args"]) if a["func"] == TABLE_FUNCS[self.func]]
        if not site:
            return None
        toks = []
        for o in self.ops:
            if o[0] == "new":
                toks.append("new %d" % o[1])
            elif o[0] == "mut":
                toks.append("mut %d %d" % (o[1], o[2]))
            else:
                toks.append("call %d" % o[1])
        return "args %d %s" % (site[0], ";".join(toks))


def replay_table_history(hjson, predicted=None):
    """Run the history on one shared real system.  `predicted` = per op the value code the model
    says the result was computed from (None: the property's demand = the table's current code).
    -> description of the first deviation, or None."""
    h = TableHistory.from_json(hjson)
    system = new_param_system()
    tabs, codes = [], []
    for n, o in enumerate(h.ops):
        if o[0] == "new":
            tabs.append(table_values(o[1]).copy())
            codes.append(o[1])
        elif o[0] == "mut":
            tabs[o[1]][:] = table_values(o[2])        # in place: same ndarray object
            codes[o[1]] = o[2]
        else:
            t = tabs[o[1]]
            before = snapshot(t)
            try:
                got = table_call(h.func, system, t)
            except Exception as e:      # noqa: BLE001
                return {"op_index": n, "op": list(o), "observed": "raises " + exc_kind(e)}
            if snapshot(t) != before:
                return {"op_index": n, "op": list(o), "observed": "the call modified the caller's table"}
            code = codes[o[1]] if predicted is None else predicted[n]
            want = table_call(h.func, new_param_system(), table_values(code).copy())
            if not results_close(got, want, rtol=1e-12):
                dev = max(float(np.max(np.abs(x - y))) for x, y in zip(got, want))
                return {"op_index": n, "op": list(o), "table_value_code": codes[o[1]],
                        "compared_with_value_code": code, "max_abs_deviation": dev,
                        "observed": "result differs from a fresh system called with a fresh table "
                                    "holding the %s values" % ("table's current" if predicted is None
                                                               else "predicted")}
    return None


def table_cases(res, rng, tier, tables, corpus):
    n = 3 if tier == "quick" else 12
    hs = list(corpus)
    for func in TABLE_FUNCS:
        for _ in range(n):
            hs.append(TableHistory(rng, func, rng.randrange(4, 9)))
    lines, jobs = [], []
    for h in hs:
        ln = h.line(tables)
        if ln is None:
            res.disagree("no generated arg-store entry for " + TABLE_FUNCS[h.func], h.to_json())
            continue
        lines.append(ln)
        jobs.append(h)
        res.count("table-history:" + h.func)
        for o in h.ops:
            res.count("table-op:" + o[0])
    return lines, jobs


def judge_table_history(res, h, line, got):
    answers = got.split(";")
    if len(answers) != len(h.ops) or "bad-op" in answers:
        res.disagree("model could not run table history", {"history": h.to_json(), "model": got[:200]})
        return
    predicted, stale, codes = {}, False, []
    for n, (o, a) in enumerate(zip(h.ops, answers)):
        if o[0] == "new":
            codes.append(o[1])
        elif o[0] == "mut":
            codes[o[1]] = o[2]
        else:
            predicted[n] = int(a)
            stale = stale or int(a) != codes[o[1]]
    res.count("table-history:stale-predicted" if stale else "table-history:current-predicted")
    bad = replay_table_history(h.to_json(), predicted)
    nontrivial = any(o[0] == "mut" for o in h.ops)
    res.case(line, nontrivial, {"op": line[:160], "impl": "as predicted" if bad is None else json.dumps(bad)[:120],
                                "model": got[:120]})
    if bad is not None:
        res.disagree("table history: real system deviates from the model's prediction",
                     {"history": h.to_json(), "model": got, "impl": bad})


def oracle_table(func):
    """call -> edit the caller's table in place -> call again (the optimisation loop)"""
    h = {"func": func, "ops": [["new", 1], ["call", 0], ["mut", 0, 2], ["call", 0]]}
    return h, replay_table_history(h)


# ---------------------------------------------------------------------------
# (vi) arrays returned by the operator helpers
# ---------------------------------------------------------------------------

def return_calls():
    """name -> zero-argument call, for every listed function"""
    from oqupy import operators as op
    from oqupy import util
    sx, sz = np.array(op.sigma("x")), np.array(op.sigma("z"))
    rho = np.array(op.spin_dm("y+"))
    return {
        "identity": lambda: op.identity(2), "sigma": lambda: op.sigma("y"),
        "spin_dm": lambda: op.spin_dm("x-"), "create": lambda: op.create(3),
        "destroy": lambda: op.destroy(3), "commutator": lambda: op.commutator(sx),
        "acommutator": lambda: op.acommutator(sz), "left_super": lambda: op.left_super(sx),
        "right_super": lambda: op.right_super(sx),
        "left_right_super": lambda: op.left_right_super(sx, sz),
        "preparation": lambda: op.preparation(rho),
        "cross_commutator": lambda: op.cross_commutator(sx, sz),
        "cross_acommutator": lambda: op.cross_acommutator(sx, sz),
        "cross_left_right_super": lambda: op.cross_left_right_super(sx, sz, sz, sx),
        "create_delta": lambda: util.create_delta(np.arange(8.0).reshape(2, 2, 2), [0, 1, 2, 2]),
    }


def library_fingerprint():
    """values of library objects that are built from the operator helpers"""
    import oqupy
    from oqupy import operators as op
    from . import oq
    h = 0.5 * op.sigma("x") + 0.2 * op.sigma("z")
    b = oqupy.Bath(0.5 * op.sigma("z"), oqupy.CustomCorrelations(oq.corr_fn))
    tsys = oqupy.TimeDependentSystem(lambda t: h, gammas=[lambda t: 0.1],
                                     lindblad_operators=[lambda t: op.sigma("-")])
    out = [op.commutator(h), op.acommutator(h), op.left_super(h), op.right_super(h),
           op.cross_commutator(h, h), op.cross_acommutator(h, h), op.preparation(op.spin_dm("z+")),
           oqupy.System(h, gammas=[0.1], lindblad_operators=[op.sigma("-")]).liouvillian(),
           tsys.liouvillian(0.1), b.coupling_comm, b.coupling_acomm,
           oq.cheap_tempo(0.0, 0.1).compute(0.2, progress_type="silent").states]
    return [np.array(x) for x in out]


def observe_return(name, call):
    """call twice, edit the first result in place, call again, rebuild library objects; the edit
    is undone afterwards.  -> dict"""
    r1 = call()
    pristine = np.array(r1)
    r2 = call()
    obs = {"distinct_objects": r1 is not r2, "share_memory": bool(np.shares_memory(r1, r2)),
           "writeable": bool(r1.flags.writeable)}
    before = library_fingerprint()
    edited = False
    try:
        if r1.flags.writeable:
            r1[...] = 7.0
            edited = True
        r3 = call()
        obs["call_after_edit_pristine"] = bool(np.array_equal(np.array(r3), pristine))
        after = library_fingerprint()
        # (the Tempo run is not bit-reproducible run to run: 1e-12)
        obs["library_objects_unaffected"] = all(np.allclose(x, y, rtol=1e-12, atol=1e-14)
                                                for x, y in zip(before, after))
    finally:
        if edited:
            r1[...] = pristine
    obs["problems"] = [k for k, good in (("distinct_objects", obs["distinct_objects"]),
                                         ("share_memory", not obs["share_memory"]),
                                         ("call_after_edit_pristine", obs["call_after_edit_pristine"]),
                                         ("library_objects_unaffected", obs["library_objects_unaffected"]))
                       if not good]
    return obs


def return_lines(res, tables):
    calls = return_calls()
    lines, jobs = [], []
    for i, s in enumerate(tables["returns"]):
        if s["func"] not in calls:
            res.disagree("no call known for the listed function " + s["func"], s)
            continue
        lines.append("ret %d call;call;write 0 9;call" % i)
        jobs.append(s["func"])
        res.count("returned-array:" + s["kind"])
    for name in calls:
        if name not in [s["func"] for s in tables["returns"]]:
            res.disagree("function %s is not in the generated return table" % name, {"func": name})
    return lines, jobs


def judge_return(res, name, line, got):
    try:
        obs = observe_return(name, return_calls()[name])
    except Exception as e:      # noqa: BLE001
        obs = {"problems": ["raises " + exc_kind(e)], "share_memory": None,
               "call_after_edit_pristine": None}
    res.case(line + " " + name, True, {"op": (line + " " + name)[:160], "impl": json.dumps(obs)[:120],
                                      "model": got[:120]})
    a = got.split(";")
    if len(a) != 4 or "bad-op" in a:
        res.disagree("model could not run " + line, {"func": name, "model": got})
        return
    model_shared = a[0].split("@")[1] == a[1].split("@")[1]
    model_pristine = a[3].split("@")[0] == "1"
    if model_shared != bool(obs["share_memory"]) or model_pristine != bool(obs["call_after_edit_pristine"]) \
            or (not model_shared and obs["problems"]):
        res.disagree("returned array of %s: implementation %s, model shared=%s pristine-after-edit=%s"
                     % (name, json.dumps(obs)[:200], model_shared, model_pristine),
                     {"func": name, "impl": obs, "model": got})


def oracle_return(name):
    obs = observe_return(name, return_calls()[name])
    return obs if obs["problems"] else None


# ---------------------------------------------------------------------------
# whole computations with shared vs fresh objects
# ---------------------------------------------------------------------------

def computation_reuse(res, rng, tier):
    """Tempo / PT-TEMPO computations re-using one bath, system, parameters and process tensor
    in varying order vs the same computations on freshly built equal objects.
    Returns a list of (key, payload) for runs whose results differ."""
    import oqupy
    from oqupy import operators as op
    bad = []

    def fresh():
        corr = oqupy.PowerLawSD(alpha=0.1, zeta=1.0, cutoff=2.0, temperature=0.5)
        bath = oqupy.Bath(0.5 * op.sigma("z"), corr)
        sysm = oqupy.System(0.5 * op.sigma("x"))
        par = oqupy.TempoParameters(dt=0.1, epsrel=1e-5, dkmax=3)
        return corr, bath, sysm, par

    def tempo(bath, sysm, par, init):
        t = oqupy.Tempo(system=sysm, bath=bath, parameters=par, initial_state=init, start_time=0.0)
        return np.array(t.compute(0.3, progress_type="silent").states)

    def pt(bath, par):
        return oqupy.pt_tempo_compute(bath=bath, start_time=0.0, end_time=0.3, parameters=par,
                                      progress_type="silent")

    def ptdyn(p, sysm, init):
        return np.array(oqupy.compute_dynamics(system=sysm, initial_state=init, process_tensor=p,
                                               progress_type="silent").states)
    inits = [op.spin_dm("z+"), op.spin_dm("x+"), op.spin_dm("y-")]
    reps = 1 if tier == "quick" else 4
    for rep in range(reps):
        corr, bath, sysm, par = fresh()
        shared_pt = None
        order = [("tempo", i) for i in range(3)] + [("pt", i) for i in range(3)]
        rng.shuffle(order)
        for kind, i in order:
            init = inits[i]
            snap = snapshot(init)
            init0 = np.array(init)
            try:
                if kind == "tempo":
                    got = tempo(bath, sysm, par, init)
                    want = tempo(*fresh()[1:], init0)
                else:
                    if shared_pt is None:
                        shared_pt = pt(bath, par)
                    got = ptdyn(shared_pt, sysm, init)
                    _, b2, s2, p2 = fresh()
                    want = ptdyn(pt(b2, p2), s2, init0)
            except Exception as e:      # noqa: BLE001
                bad.append(("reuse:%s raises on re-used objects" % kind,
                            {"kind": "reuse", "order": order, "at": [kind, i],
                             "exception": exc_kind(e)}))
                break
            res.count("reuse:" + kind)
            exact = np.array_equal(got, want)
            res.count("reuse:bit-identical" if exact else "reuse:within-1e-12")
            if snapshot(init) != snap:
                bad.append(("reuse:%s mutates initial_state" % kind, {"kind": "reuse", "order": order}))
            if not np.allclose(got, want, rtol=1e-10, atol=1e-12):
                bad.append(("reuse:%s result differs from fresh objects" % kind,
                            {"kind": "reuse", "order": order, "at": [kind, i],
                             "max_abs_diff": float(np.max(np.abs(got - want)))}))
    return bad


# ---------------------------------------------------------------------------
# spec-level oracles (search)
# ---------------------------------------------------------------------------

BASE = {"PowerLawSD": {"alpha": 1, "zeta": 1, "cutoff": 1, "cutoff_type": 1, "temperature": 1},
        "CustomSD": {"j_function": 1, "cutoff": 1, "cutoff_type": 1, "temperature": 1},
        "CustomCorrelations": {"correlation_function": 1}}
METHODS = {"PowerLawSD": [("eta_function", 0), ("correlation", 0), ("spectral_density", 0),
                          ("correlation_2d_integral", 0)],
           "CustomSD": [("eta_function", 0), ("correlation", 0), ("spectral_density", 0),
                        ("correlation_2d_integral", 0)],
           "CustomCorrelations": [("correlation_2d_integral", 0), ("correlation", 0)]}


def close(a, b):
    return abs(a - b) <= 1e-12 * max(1.0, abs(a), abs(b))


def replay_history(hjson):
    """spec oracle for one history: first evaluation whose real value differs from the same
    evaluation on a freshly constructed object with the object's current values"""
    h = History.from_json(hjson)
    real, spec = RealRun(h.cls), SpecRun(h.cls)
    for n, o in enumerate(h.ops):
        s = spec.step(o)
        try:
            r = real.step(o)
        except Exception as e:      # noqa: BLE001
            return {"op_index": n, "op": list(o), "returned": "raises " + exc_kind(e),
                    "fresh_equal_object": repr(s)}
        if o[0] == "eval" and not close(r, s):
            return {"op_index": n, "op": list(o), "returned": repr(r), "fresh_equal_object": repr(s),
                    "object_values": {a: show(val(a, c)) for a, c in spec.codes[o[1]].items()}}
    return None


def oracle_stale(cls, attr, method, k):
    """change `attr` through the public attribute, call again with the same arguments"""
    codes = dict(BASE[cls])
    h = {"cls": cls, "ops": [["new", codes], ["eval", 0, method, k], ["set", 0, attr, 2],
                             ["eval", 0, method, k]]}
    return h, replay_history(h)


def oracle_bath_copy(cls, attr, method, k):
    """Bath(op, c); change c.attr; the bath's correlations must answer as before"""
    codes = dict(BASE[cls])
    h = {"cls": cls, "ops": [["new", codes], ["bath", 0], ["set", 0, attr, 2], ["eval", 2, method, k]]}
    return h, replay_history(h)


def oracle_copy_own(cls, attr, method, k):
    """bc = bath.correlations; bc.attr = v; bc answers by its own attributes"""
    codes = dict(BASE[cls])
    h = {"cls": cls, "ops": [["new", codes], ["bath", 0], ["set", 2, attr, 2], ["eval", 2, method, k]]}
    return h, replay_history(h)


def oracle_eval_copy_set_original(cls, attr, method, k):
    """evaluate on c -> Bath(op, c) -> change c.attr and evaluate on c -> the bath's copy"""
    codes = dict(BASE[cls])
    h = {"cls": cls, "ops": [["new", codes], ["eval", 0, method, k], ["bath", 0],
                             ["set", 0, attr, 2], ["eval", 0, method, k], ["eval", 2, method, k],
                             ["eval", 1, method, k]]}
    return h, replay_history(h)


def oracle_eval_copy_set_copy(cls, attr, method, k):
    """evaluate on c -> Bath(op, c) -> change the copy's attr and evaluate on it -> c itself"""
    codes = dict(BASE[cls])
    h = {"cls": cls, "ops": [["new", codes], ["eval", 0, method, k], ["bath", 0],
                             ["set", 2, attr, 2], ["eval", 2, method, k], ["eval", 0, method, k],
                             ["eval", 1, method, k]]}
    return h, replay_history(h)


def oracle_handed_out(cls, attr, method, k):
    """bc = bath.correlations; bc.attr = v; what the bath hands out next (and the bath's own
    copy) must be as before"""
    codes = dict(BASE[cls])
    h = {"cls": cls, "ops": [["new", codes], ["bath", 0], ["set", 2, attr, 2], ["access", 1],
                             ["eval", 3, method, k], ["eval", 1, method, k]]}
    return h, replay_history(h)


def oracle_bath_tempo():
    """Tempo objects built before / after an edit of the object `bath.correlations` handed out
    must equal a Tempo on a fresh, untouched bath"""
    import oqupy
    from oqupy import operators as op

    def bath():
        return oqupy.Bath(0.5 * op.sigma("z"),
                          oqupy.PowerLawSD(alpha=0.1, zeta=1.0, cutoff=2.0, temperature=0.5))

    def tempo(b):
        return oqupy.Tempo(system=oqupy.System(0.5 * op.sigma("x")), bath=b,
                           parameters=oqupy.TempoParameters(dt=0.1, epsrel=1e-5, dkmax=3),
                           initial_state=op.spin_dm("z+"), start_time=0.0)
    ref = np.array(tempo(bath()).compute(0.3, progress_type="silent").states)
    b = bath()
    before = tempo(b)
    handed = b.correlations
    handed.alpha = 0.4
    after = tempo(b)
    out = {}
    for name, t in (("built-before-the-edit", before), ("built-after-the-edit", after)):
        got = np.array(t.compute(0.3, progress_type="silent").states)
        dev = float(np.max(np.abs(got - ref)))
        if not dev < 1e-10:
            out[name] = dev
    if abs(b.correlations.alpha - 0.1) > 0:
        out["bath.correlations.alpha"] = b.correlations.alpha
    return out or None


# ---------------------------------------------------------------------------
# (vii) PtTebd: restart after the caller changed the parameters / the chain
# ---------------------------------------------------------------------------

TEBD_MUTATIONS = ["dt", "order", "epsrel", "chain-term"]


def tebd_objects():
    import oqupy
    from oqupy import operators as op
    ch = oqupy.SystemChain([2, 2])
    ch.add_site_hamiltonian(0, 0.5 * op.sigma("z"))
    ch.add_nn_hamiltonian(0, 0.6 * op.sigma("x"), op.sigma("x"))
    ch.add_nn_hamiltonian(0, 0.3 * op.sigma("y"), op.sigma("z"))
    par = oqupy.PtTebdParameters(dt=0.2, order=1, epsrel=1e-9)
    return ch, par


def tebd_new(ch, par):
    import oqupy
    from oqupy import operators as op
    mps = oqupy.AugmentedMPS([op.spin_dm("x+"), op.spin_dm("z-")])
    return oqupy.PtTebd(initial_augmented_mps=mps, system_chain=ch, process_tensors=[None, None],
                        parameters=par, dynamics_sites=[0, 1])


def tebd_mutate(what, ch, par, n):
    from oqupy import operators as op
    if what == "dt":
        par.dt = [0.1, 0.05, 0.3][n % 3]
    elif what == "order":
        par.order = 2 if par.order == 1 else 1
    elif what == "epsrel":
        par.epsrel = [1e-2, 1e-6][n % 2]
    elif what == "chain-term":
        ch.add_site_hamiltonian(1, (0.4 + 0.1 * n) * op.sigma("x"))
    else:
        raise ValueError(what)


def tebd_results(t, steps):
    r = t.compute(end_step=steps, progress_type="silent")
    return [float(x) for x in r["time"]], [np.array(r["dynamics"][k].states) for k in (0, 1)]


def replay_tebd(hjson):
    """ops: ["compute", n] | ["mut", what] | ["init"].  After every init+compute the re-used PtTebd
    is compared with a fresh PtTebd built from the caller's objects as they are now.
    -> (deviation description or None, list of booleans 'restart equals fresh' per init)"""
    ch, par = tebd_objects()
    t = tebd_new(ch, par)
    verdicts, nmut, pending = [], 0, False
    for n, o in enumerate(hjson["ops"]):
        if o[0] == "compute":
            times, states = tebd_results(t, o[1])
            if pending:
                ftimes, fstates = tebd_results(tebd_new(ch, par), o[1])
                same = times == ftimes and all(
                    a.shape == b.shape and np.allclose(a, b, rtol=1e-10, atol=1e-10)
                    for a, b in zip(states, fstates))
                verdicts.append(same)
                pending = False
                if not same and len(verdicts) and verdicts[-1] is False and "first_bad" not in hjson:
                    dev = max(float(np.max(np.abs(a - b))) if a.shape == b.shape else float("inf")
                              for a, b in zip(states, fstates))
                    bad = {"op_index": n, "times_equal": times == ftimes, "max_abs_deviation": dev,
                           "observed": "after initialize() the re-used PtTebd differs from a fresh "
                                       "PtTebd built from the same (changed) parameters and chain"}
                    return bad, verdicts
        elif o[0] == "mut":
            tebd_mutate(o[1], ch, par, nmut)
            nmut += 1
        elif o[0] == "init":
            t.initialize()
            pending = True
    return None, verdicts


def tebd_history(rng, n):
    ops = [["compute", 2]]
    for _ in range(n):
        for _ in range(rng.randrange(0, 3)):
            ops.append(["mut", rng.choice(TEBD_MUTATIONS)])
        ops.append(["init"])
        ops.append(["compute", rng.randrange(1, 4)])
    return {"ops": ops}


def tebd_lines(res, rng, tier, tables, corpus):
    site = [i for i, d in enumerate(tables["derived"]) if d["attr"] == "_tebd_propagator"]
    hs = list(corpus) + [tebd_history(rng, rng.randrange(1, 4)) for _ in range(3 if tier == "quick" else 12)]
    lines, jobs = [], []
    for h in hs:
        if not site:
            res.disagree("no generated derived-store entry for PtTebd._tebd_propagator", h)
            continue
        toks, ver = ["init"], 1
        for o in h["ops"]:
            if o[0] == "mut":
                ver += 1
                toks.append("mut %d" % ver)
            elif o[0] == "init":
                toks.append("init")
        lines.append("derived %d %s" % (site[0], ";".join(toks)))
        jobs.append(h)
        res.count("tebd-history")
        for o in h["ops"]:
            res.count("tebd-op:" + o[0])
    return lines, jobs


def judge_tebd(res, h, line, got):
    a, toks = got.split(";"), line.split(" ", 2)[2].split(";")
    # model: per init the source version the gates were computed from vs the current version
    cur, model = 1, []
    for tok, ans in zip(toks, a):
        if tok.startswith("mut"):
            cur = int(tok.split()[1])
        elif tok == "init":
            model.append(int(ans) == cur)
    model = model[1:]                 # the first init is the construction-time one
    bad, verdicts = replay_tebd(dict(h, first_bad=False))
    res.case(line, any(o[0] == "mut" for o in h["ops"]),
             {"op": line[:160], "impl": str(verdicts), "model": str(model)})
    # a change that leaves the results untouched is indistinguishable: only `model says current`
    # is binding
    for m, v in zip(model, verdicts):
        if m and not v:
            res.disagree("PtTebd restart: model says the gates are rebuilt from the current objects, "
                         "the real PtTebd differs from a fresh one", {"history": h, "model": got,
                                                                      "impl": verdicts})
            return


def oracle_tebd(what):
    h = {"ops": [["compute", 2], ["mut", what], ["init"], ["compute", 3]]}
    bad, _ = replay_tebd(h)
    return h, bad


# ---------------------------------------------------------------------------
# (viii) system chains used by several computations; controls used on several time grids
# ---------------------------------------------------------------------------

CHAIN_VARIANTS = ["site terms on every site", "field-free bond (nn terms only)",
                  "three sites, last bond field-free"]


def chain_build(variant):
    import oqupy
    from oqupy import operators as op
    if variant == CHAIN_VARIANTS[0]:
        ch = oqupy.SystemChain([2, 2])
        ch.add_site_hamiltonian(0, 0.5 * op.sigma("z"))
        ch.add_site_hamiltonian(1, 0.3 * op.sigma("x"))
        ch.add_nn_hamiltonian(0, 0.6 * op.sigma("x"), op.sigma("x"))
    elif variant == CHAIN_VARIANTS[1]:
        ch = oqupy.SystemChain([2, 2])
        ch.add_nn_hamiltonian(0, 0.6 * op.sigma("x"), op.sigma("x"))
        ch.add_nn_hamiltonian(0, 0.4 * op.sigma("y"), op.sigma("z"))
        ch.add_nn_dissipation(0, op.sigma("-"), op.sigma("z"), 0.1)
    else:
        ch = oqupy.SystemChain([2, 2, 2])
        ch.add_site_hamiltonian(0, 0.5 * op.sigma("z"))
        ch.add_nn_hamiltonian(0, 0.6 * op.sigma("x"), op.sigma("x"))
        ch.add_nn_hamiltonian(1, 0.5 * op.sigma("y"), op.sigma("y"))
    return ch


def chain_snapshot(ch):
    return [snapshot(a) for a in list(ch._site_liouvillians) + list(ch._nn_liouvillians)] + \
        [snapshot(np.asarray(a)) for a in list(ch.site_liouvillians) + list(ch.nn_liouvillians)]


def chain_run(ch):
    import oqupy
    from oqupy import operators as op
    n = len(ch)
    mps = oqupy.AugmentedMPS([op.spin_dm("x+")] + [op.spin_dm("z-")] * (n - 1))
    t = oqupy.PtTebd(initial_augmented_mps=mps, system_chain=ch, process_tensors=[None] * n,
                     parameters=oqupy.PtTebdParameters(dt=0.2, order=2, epsrel=1e-9),
                     dynamics_sites=list(range(n)))
    r = t.compute(end_step=3, progress_type="silent")
    return [np.array(r["dynamics"][k].states) for k in range(n)]


def chain_observe(variant):
    from oqupy.mps_mpo import compute_tebd_propagator
    ch = chain_build(variant)
    snap0 = chain_snapshot(ch)
    problems = []
    full = ch.get_nn_full_liouvillians()
    if any(np.shares_memory(f, st) for f in full for st in ch._nn_liouvillians + ch._site_liouvillians):
        problems.append("get_nn_full_liouvillians() hands out a stored array")
    if chain_snapshot(ch) != snap0:
        problems.append("get_nn_full_liouvillians() changes the stored arrays")
    compute_tebd_propagator(system_chain=ch, time_step=0.1, epsrel=1e-9, order=1)
    if chain_snapshot(ch) != snap0:
        problems.append("compute_tebd_propagator() changes the chain's stored Liouvillians")
    first = chain_run(ch)
    second = chain_run(ch)
    fresh = chain_run(chain_build(variant))
    dev2 = max(float(np.max(np.abs(a - b))) for a, b in zip(first, second))
    devf = max(float(np.max(np.abs(a - b))) for a, b in zip(second, fresh))
    if not dev2 < 1e-10:
        problems.append("second computation on the same chain differs from the first by %.3e" % dev2)
    if not devf < 1e-10:
        problems.append("computation on the re-used chain differs from a fresh chain by %.3e" % devf)
    if chain_snapshot(ch) != snap0:
        problems.append("PtTebd computations change the chain's stored Liouvillians")
    return {"variant": variant, "problems": problems} if problems else None


GRID_A = (0.1, 0.0)       # dt, start_time
GRID_B = (0.05, 0.1)


def control_build():
    import oqupy
    from oqupy import operators as op
    c = oqupy.Control(2)
    c.add_single(0.2, op.left_super(op.sigma("x")))
    c.add_single(0.35, op.left_super(op.sigma("z")), post=True)
    c.add_single(0.3, op.left_super(op.sigma("y")))
    c.add_single(2, op.right_super(op.sigma("x")))
    return c


def control_answers(c, grid, nsteps=8):
    import contextlib
    import io
    out = []
    for step in range(nsteps):
        with contextlib.redirect_stdout(io.StringIO()):      # get_controls prints the matching times
            pre, post = c.get_controls(step, dt=grid[0], start_time=grid[1])
        out.append((None if pre is None else np.array(pre), None if post is None else np.array(post)))
    return out


def control_dynamics(c, grid):
    import oqupy
    from oqupy import operators as op
    from . import oq
    import contextlib
    import io
    with contextlib.redirect_stdout(io.StringIO()):
        d = oqupy.compute_dynamics(system=oq.cheap_system(), initial_state=op.spin_dm("z+"), dt=grid[0],
                                   num_steps=7, start_time=grid[1], control=c, progress_type="silent")
    return np.array(d.states)


def control_observe():
    def same(a, b):
        return all((x is None and y is None) or (x is not None and y is not None and np.array_equal(x, y))
                   for p, q in zip(a, b) for x, y in zip(p, q))
    problems = []
    for first, second in ((GRID_A, GRID_B), (GRID_B, GRID_A)):
        c = control_build()
        control_answers(c, first)
        if not same(control_answers(c, second), control_answers(control_build(), second)):
            problems.append("get_controls on grid dt=%g start=%g after use on dt=%g start=%g differs "
                            "from a fresh Control" % (second + first))
        c = control_build()
        control_dynamics(c, first)
        dev = float(np.max(np.abs(control_dynamics(c, second) - control_dynamics(control_build(), second))))
        if not dev < 1e-12:
            problems.append("compute_dynamics on grid dt=%g start=%g after a run on dt=%g start=%g "
                            "differs from a fresh Control by %.3e" % (second + first + (dev,)))
    # adding a control after use must still be honoured
    c = control_build()
    control_answers(c, GRID_A)
    from oqupy import operators as op
    c.add_single(0.5, op.left_super(op.sigma("y")))
    f = control_build()
    f.add_single(0.5, op.left_super(op.sigma("y")))
    if not same(control_answers(c, GRID_A), control_answers(f, GRID_A)):
        problems.append("a control added after the first use is not applied like on a fresh Control")
    return {"problems": problems} if problems else None


def corrnt_observe():
    """compute_correlations_nt / compute_correlations with the caller's own list of times: the list
    and its elements stay what they were, and re-using the list on another grid equals a fresh list"""
    import copy as _copy
    import oqupy
    from oqupy import operators as op
    from . import oq
    pt = oq.long_trivial_pt(8, dt=0.1) if hasattr(oq, "long_trivial_pt") else oq.identity_pt(8, dt=0.1)
    sysm = oq.cheap_system()
    ops = [op.sigma("x"), op.sigma("z")]

    def make():
        return [0.2, (0.2, 0.6)], [slice(1, 3), [2, 4, 5]], [0.3, 0.5]

    def call(times, start):
        r = oqupy.compute_correlations_nt(system=sysm, process_tensor=pt, operators=ops,
                                          ops_times=times, ops_order=["left", "left"],
                                          initial_state=op.spin_dm("y+"), start_time=start,
                                          progress_type="silent")
        return [np.array(t) for t in r[0]], np.array(r[1])
    problems = []
    for k in range(3):
        times = make()[k]
        elems = list(times)
        ref = _copy.deepcopy(times)
        call(times, 0.0)
        if len(times) != len(elems) or any(a is not b for a, b in zip(times, elems)):
            problems.append("ops_times %r: the caller's list holds other objects after the call: %r"
                            % (ref, times))
            continue
        if repr(times) != repr(ref):
            problems.append("ops_times %r changed to %r" % (ref, times))
            continue
        if k == 1:
            continue            # step indices do not depend on the grid
        t2, c2 = call(times, 0.1)
        t3, c3 = call(make()[k], 0.1)
        if not (all(np.array_equal(a, b) for a, b in zip(t2, t3)) and c2.shape == c3.shape
                and np.allclose(c2, c3, rtol=1e-12, atol=1e-14, equal_nan=True)):
            problems.append("ops_times %r re-used with start_time 0.1 differs from a fresh list" % (ref,))
    ta, tb = 0.2, (0.2, 0.6)
    r1 = oqupy.compute_correlations(system=sysm, process_tensor=pt, operator_a=ops[0], operator_b=ops[1],
                                    times_a=ta, times_b=tb, initial_state=op.spin_dm("y+"),
                                    progress_type="silent")
    r2 = oqupy.compute_correlations(system=sysm, process_tensor=pt, operator_a=ops[0], operator_b=ops[1],
                                    times_a=ta, times_b=tb, initial_state=op.spin_dm("y+"),
                                    progress_type="silent")
    if not np.allclose(np.array(r1[1]), np.array(r2[1]), rtol=1e-12, atol=1e-14, equal_nan=True):
        problems.append("compute_correlations twice with the same arguments differs")
    return {"problems": problems} if problems else None


def filept_observe():
    """FileProcessTensor: caps are a function of the tensors currently in the file"""
    import os
    import tempfile
    import oqupy
    from oqupy import operators as op
    from . import oq
    r = random.Random(5)
    first = [0.3 * generic(r, (1, 2, 4, 4)) + np.eye(4).reshape(1, 1, 4, 4),
             0.3 * generic(r, (2, 2, 4, 4)), 0.3 * generic(r, (2, 1, 4, 4))]
    newer = 0.4 * generic(r, (2, 2, 4, 4))
    tmp = tempfile.mkdtemp(prefix="c20_filept_")
    problems = []

    def build(name, tensors):
        pt = oqupy.FileProcessTensor(mode="write", filename=os.path.join(tmp, name),
                                     hilbert_space_dimension=2, dt=0.1)
        for k, m in enumerate(tensors):
            pt.set_mpo_tensor(k, np.array(m, dtype=complex))
        return pt
    a = b = None
    try:
        a = build("a.hdf5", first)
        a.compute_caps()
        a.set_mpo_tensor(1, newer)
        a.compute_caps()
        b = build("b.hdf5", [first[0], newer, first[2]])
        b.compute_caps()
        for k in range(4):
            ca, cb = np.array(a.get_cap_tensor(k)), np.array(b.get_cap_tensor(k))
            if ca.shape != cb.shape or not np.allclose(ca, cb, rtol=1e-12, atol=1e-14):
                problems.append("cap %d after set_mpo_tensor(1, ..) + compute_caps() differs from a "
                                "freshly built equal FileProcessTensor (%.6g vs %.6g)"
                                % (k, abs(ca.ravel()[0]), abs(cb.ravel()[0])))
                break
        sysm = oq.cheap_system()
        da = np.array(oqupy.compute_dynamics(system=sysm, initial_state=op.spin_dm("z+"),
                                             process_tensor=a, progress_type="silent").states)
        db = np.array(oqupy.compute_dynamics(system=sysm, initial_state=op.spin_dm("z+"),
                                             process_tensor=b, progress_type="silent").states)
        dev = float(np.max(np.abs(da - db)))
        if not dev < 1e-10:
            problems.append("compute_dynamics on the updated FileProcessTensor differs from the fresh "
                            "one by %.3e" % dev)
    finally:
        for pt in (a, b):
            try:
                if pt is not None:
                    pt.close()
            except Exception:       # noqa: BLE001
                pass
        import shutil
        shutil.rmtree(tmp, ignore_errors=True)
    return {"problems": problems} if problems else None


def reuse_objects_cases(res, tables):
    """chains and controls: real observations vs the verdict of the generated tables"""
    chain_sites = [a for a in tables["arrays"] if a["func"].split("#")[0] in
                   ("SystemChain.get_nn_full_liouvillians", "compute_nn_gate", "compute_trotter_layers")]
    model_ok = bool(chain_sites) and all(a["safe"] for a in chain_sites)
    if not chain_sites:
        res.disagree("no generated array sites for the chain getters / gate builders", {})
    for v in CHAIN_VARIANTS:
        try:
            bad = chain_observe(v)
        except Exception as e:      # noqa: BLE001
            bad = {"variant": v, "problems": ["raises " + exc_kind(e)]}
        res.count("chain-reuse")
        res.case("chain " + v, True, {"op": "chain " + v, "impl": json.dumps(bad)[:120],
                                      "model": "sites safe=%s" % model_ok})
        if bad is not None and model_ok:
            res.disagree("chain re-use (%s): the array sites pass the static check, the real chain "
                         "misbehaves" % v, bad)
    getters_ok = all(g["ok"] for g in tables["getters"])
    try:
        bad = control_observe()
    except Exception as e:      # noqa: BLE001
        bad = {"problems": ["raises " + exc_kind(e)]}
    res.count("control-two-grids")
    res.case("control two grids", True, {"op": "control on two time grids", "impl": json.dumps(bad)[:120],
                                         "model": "getter stores ok=%s (%d)" % (getters_ok,
                                                                               len(tables["getters"]))})
    if bad is not None and getters_ok:
        res.disagree("Control on a second time grid: no getter keeps argument-dependent state "
                     "unkeyed, yet the real Control misbehaves", bad)
    nt_sites = [a for a in tables["arrays"] if a["func"].split("#")[0] == "compute_correlations_nt"]
    for name, fn, ok in (("compute_correlations_nt(ops_times)", corrnt_observe,
                          bool(nt_sites) and all(a["safe"] for a in nt_sites)),
                         ("FileProcessTensor.compute_caps after set_mpo_tensor", filept_observe, True)):
        try:
            bad = fn()
        except Exception as e:      # noqa: BLE001
            bad = {"problems": ["raises " + exc_kind(e)]}
        res.count("reuse:" + name.split("(")[0])
        res.case(name, True, {"op": name, "impl": json.dumps(bad)[:120], "model": "static ok=%s" % ok})
        if bad is not None and ok:
            res.disagree(name + " misbehaves", bad)


# ---------------------------------------------------------------------------
# (v) arrays held by process tensors must come out of the getters unchanged
# ---------------------------------------------------------------------------

def pt_builders(rng):
    """(name, builder) of small SimpleProcessTensors with explicit tensors"""
    from . import oq

    def mats(seed):
        r = random.Random(seed)
        tin = generic(r, (4, 4)) + 2.0 * np.eye(4)
        tout = generic(r, (4, 4)) + 2.0 * np.eye(4)
        return tin, tout

    def rank4(seed, transforms):
        r = random.Random(seed)
        m = [0.3 * generic(r, (1, 2, 4, 4)) + np.eye(4).reshape(1, 1, 4, 4),
             0.3 * generic(r, (2, 2, 4, 4)), 0.3 * generic(r, (2, 1, 4, 4))]
        tin, tout = mats(seed + 1) if transforms else (None, None)
        return oq.simple_pt(m, 2, dt=0.1, transform_in=tin, transform_out=tout)

    def rank3(seed, transforms):
        r = random.Random(seed)
        m = [0.5 * generic(r, (1, 2, 4)) + 1.0, 0.5 * generic(r, (2, 2, 4)), 0.5 * generic(r, (2, 1, 4))]
        tin, tout = mats(seed + 1) if transforms else (None, None)
        return oq.simple_pt(m, 2, dt=0.1, transform_in=tin, transform_out=tout)
    s0 = rng.randrange(10 ** 6)
    return [("SimpleProcessTensor(rank-4 tensors, square transforms)", lambda: rank4(s0, True)),
            ("SimpleProcessTensor(rank-4 tensors, no transforms)", lambda: rank4(s0 + 7, False)),
            ("SimpleProcessTensor(rank-3 tensors, square transforms)", lambda: rank3(s0 + 13, True)),
            ("SimpleProcessTensor(rank-3 tensors, no transforms)", lambda: rank3(s0 + 19, False))]


def pt_observe(build):
    """-> dict of observations on one process tensor object used repeatedly"""
    import oqupy
    from oqupy import operators as op
    from . import oq
    pt = build()
    n = len(pt)
    obs = {"problems": []}
    stored0 = [snapshot(pt._mpo_tensors[k]) for k in range(n)]
    caps0 = [snapshot(np.asarray(pt._cap_tensors[k])) for k in range(n + 1)]
    first = [np.array(pt.get_mpo_tensor(k)) for k in range(n)]
    second = [np.array(pt.get_mpo_tensor(k)) for k in range(n)]
    raw = [np.array(pt.get_mpo_tensor(k, transformed=False)) for k in range(n)]
    c1 = [np.array(pt.get_cap_tensor(k)) for k in range(n + 1)]
    c2 = [np.array(pt.get_cap_tensor(k)) for k in range(n + 1)]
    obs["getter_twice_identical"] = all(np.array_equal(a, b) for a, b in zip(first, second)) and \
        all(np.array_equal(a, b) for a, b in zip(c1, c2))
    obs["stored_unchanged"] = [snapshot(pt._mpo_tensors[k]) for k in range(n)] == stored0 and \
        [snapshot(np.asarray(pt._cap_tensors[k])) for k in range(n + 1)] == caps0
    sysm = oq.cheap_system()

    def dyn():
        return np.array(oqupy.compute_dynamics(system=sysm, initial_state=op.spin_dm("z+"),
                                               process_tensor=pt, progress_type="silent").states)

    def corr():
        return np.array(oqupy.compute_correlations(
            system=sysm, process_tensor=pt, operator_a=op.sigma("x"), operator_b=op.sigma("z"),
            times_a=0.1, times_b=(0.1, 0.3), initial_state=op.spin_dm("z+"),
            progress_type="silent")[1])
    d1, d2 = dyn(), dyn()
    obs["dynamics_twice_identical"] = bool(np.array_equal(d1, d2))
    obs["dynamics_max_dev"] = float(np.max(np.abs(d1 - d2)))
    try:
        k1, k2 = corr(), corr()
        obs["correlations_twice_identical"] = bool(np.array_equal(k1, k2))
        obs["correlations_max_dev"] = float(np.max(np.abs(k1 - k2)))
    except Exception as e:      # noqa: BLE001
        obs["correlations_twice_identical"] = None
        obs["correlations_error"] = exc_kind(e)
    # against a freshly built equal process tensor
    d3 = np.array(oqupy.compute_dynamics(system=sysm, initial_state=op.spin_dm("z+"),
                                         process_tensor=build(), progress_type="silent").states)
    obs["equals_fresh_process_tensor"] = bool(np.allclose(d2, d3, rtol=1e-10, atol=1e-12))
    obs["stored_unchanged_after_computations"] = \
        [snapshot(pt._mpo_tensors[k]) for k in range(n)] == stored0
    for key in ("getter_twice_identical", "stored_unchanged", "dynamics_twice_identical",
                "equals_fresh_process_tensor", "stored_unchanged_after_computations"):
        if not obs[key]:
            obs["problems"].append(key)
    if obs["correlations_twice_identical"] is False:
        obs["problems"].append("correlations_twice_identical")
    obs["stored_shape"] = list(pt._mpo_tensors[1].shape)
    return obs


def pt_lines(res, rng, tables):
    """real observations + model lines for every path of the getter sites"""
    lines, jobs = [], []
    getter = [i for i, s in enumerate(tables["arrays"])
              if s["func"].split("#")[0] in ("SimpleProcessTensor.get_mpo_tensor",
                                             "SimpleProcessTensor.get_cap_tensor",
                                             "SimpleProcessTensor.get_initial_tensor")]
    for name, build in pt_builders(rng):
        try:
            obs = pt_observe(build)
        except Exception as e:      # noqa: BLE001
            obs = {"problems": ["raises " + exc_kind(e)], "stored_shape": [2, 2, 4, 4]}
        res.count("pt:" + name.split("(")[1].rstrip(")"))
        shape = obs["stored_shape"]
        n = int(np.prod(shape))
        idx = []
        for i in getter:
            idx.append(len(lines))
            lines.append("site %d 1 %s %s %s -" % (i, csv(shape), csv(np.zeros(shape).strides[k] // 8
                                                                      for k in range(len(shape))),
                                                 csv(range(1, n + 1))))
        jobs.append((name, obs, idx))
    return lines, jobs, bool(getter)


def judge_pt(res, name, obs, answers, have_sites):
    res.case("pt " + name, True, {"op": "pt " + name, "impl": json.dumps(obs)[:120],
                                  "model": (answers[0] if answers else "-")[:120]})
    if not have_sites:
        res.disagree("no generated array site for the process-tensor getters", {"pt": name})
        return
    model_ok = all("| ok same=1 written0=0" in a for a in answers)
    impl_ok = not obs["problems"]
    if model_ok != impl_ok:
        res.disagree("process tensor %s: implementation %s, model says the stored tensor is %s"
                     % (name, "misbehaves: " + ", ".join(obs["problems"]) if not impl_ok else "fine",
                        "untouched on every path" if model_ok else "written on some path"),
                     {"pt": name, "impl": obs, "model": answers[:4]})


def oracle_pt(name, seed):
    for n2, build in pt_builders(random.Random(seed)):
        if n2 == name:
            obs = pt_observe(build)
            return obs if obs["problems"] else None
    return None


def oracle_layout(name, rng_seed):
    """one API in all layouts: -> list of (layout, what) problems"""
    rng = random.Random(rng_seed)
    out = []
    for n2, key, x, call, pars in api_table(rng):
        if n2 != name:
            continue
        ref = None
        for lname, arr in api_layouts(x):
            err, res_, same = run_api_case(call, arr)
            if lname == "C":
                ref = res_
            if err is not None:
                out.append((lname, "raises " + err))
            elif not same:
                out.append((lname, "modifies the caller's array"))
            elif not results_close(res_, ref):
                out.append((lname, "result differs from the C-contiguous call"))
    return out


def _seq(r):
    return r if isinstance(r, (list, tuple)) else [r]


def used_vs_fresh(only=None):
    """histories on objects that have no generated memo table: the same request on a USED object
    and on a fresh equal one (forced cases).  -> list of (key, payload)"""
    import oqupy
    from oqupy import operators as op
    bad = []
    # (a) TwoTimeBathCorrelations: every argument of correlation()/occupation() matters on every call
    sysm, bath, pt, _ = ttbc_fixture()

    def tt():
        return oqupy.bath_dynamics.TwoTimeBathCorrelations(sysm, bath, pt, initial_state=op.spin_dm("z+"))
    calls = [("correlation", dict(freq_1=1.0, time_1=0.2, dw=(1.0, 1.0))),
             ("correlation", dict(freq_1=1.0, time_1=0.2, dw=(0.1, 0.2))),
             ("correlation", dict(freq_1=1.0, time_1=0.2, dw=(0.1, 0.2), dagg=(1, 0))),
             ("correlation", dict(freq_1=1.0, time_1=0.2, freq_2=1.5, time_2=0.3, dw=(0.3, 0.2))),
             ("correlation", dict(freq_1=1.0, time_1=0.2, dw=(0.1, 0.2), interaction_picture=True)),
             ("correlation", dict(freq_1=1.0, time_1=0.2, dw=(0.1, 0.2), change_only=True)),
             ("occupation", dict(freq=1.0, dw=1.0)), ("occupation", dict(freq=1.0, dw=0.25)),
             ("occupation", dict(freq=1.0, dw=0.25, change_only=True)),
             ("correlation", dict(freq_1=1.0, time_1=0.2, dw=(1.0, 1.0)))]
    key = "used-vs-fresh:TwoTimeBathCorrelations"
    if only in (None, key):
        used = tt()
        for i, (m, kw) in enumerate(calls):
            try:
                got = as_list(_seq(getattr(used, m)(progress_type="silent", **kw)))
                want = as_list(_seq(getattr(tt(), m)(progress_type="silent", **kw)))
            except Exception as e:      # noqa: BLE001
                bad.append((key, {"kind": "used-vs-fresh", "key": key, "call": [m, repr(kw)],
                                  "exception": exc_kind(e)}))
                break
            if not results_close(got, want):
                bad.append((key, {"kind": "used-vs-fresh", "key": key,
                                  "history": [[c[0], repr(c[1])] for c in calls[:i + 1]],
                                  "used_object": repr(got)[:300], "fresh_object": repr(want)[:300],
                                  "how": "the last call of the history on ONE TwoTimeBathCorrelations "
                                         "object vs the same call on a fresh equal object"}))
                break
    # (b) two DIFFERENT systems that are close on an absolute scale, used one after the other
    key = "used-vs-fresh:System objects with nearly equal (tiny) Hamiltonians"
    if only in (None, key):
        ha, hb = 2e-9 * op.sigma("z"), 5e-9 * op.sigma("x")
        for cls_name, mk in (("System", lambda h: oqupy.System(h)),
                             ("System+Lindblad", lambda h: oqupy.System(h, gammas=[1e-9],
                                                                         lindblad_operators=[op.sigma("-")]))):
            a, b = mk(ha), mk(hb)
            la = np.array(a.liouvillian())
            lb = np.array(b.liouvillian())
            want = -1j * op.commutator(hb)
            if cls_name != "System":
                sm = op.sigma("-")
                want = want + 1e-9 * (op.left_right_super(sm, sm.conj().T)
                                      - 0.5 * op.acommutator(sm.conj().T @ sm))
            if not np.allclose(lb, want, rtol=1e-12, atol=0.0):
                bad.append((key, {"kind": "used-vs-fresh", "key": key, "class": cls_name,
                                  "how": "A = System(2e-9 sigma_z).liouvillian() first, then "
                                         "B = System(5e-9 sigma_x).liouvillian(): B's answer is not "
                                         "-i[H_B, .] (+ dissipator)",
                                  "equals_A": bool(np.array_equal(la, lb)),
                                  "max_abs_diff": float(np.abs(lb - want).max())}))
                break
    return bad


def replay_case(payload):
    """re-run a stored failing input; -> description if it still fails, else None"""
    kind = payload.get("kind")
    if kind == "history":
        bad = replay_history(payload["history"])
        return bad
    if kind == "table":
        return replay_table_history(payload["history"])
    if kind == "corrnt":
        return corrnt_observe()
    if kind == "filept":
        return filept_observe()
    if kind == "chain":
        return chain_observe(payload["variant"])
    if kind == "control":
        return control_observe()
    if kind == "tebd":
        return replay_tebd(payload["history"])[0]
    if kind == "bath-tempo":
        return oracle_bath_tempo()
    if kind == "used-vs-fresh":
        got = used_vs_fresh(only=payload.get("key"))
        return got[0][1] if got else None
    if kind == "returned":
        return oracle_return(payload["func"])
    if kind == "pt":
        return oracle_pt(payload["process_tensor"], payload.get("seed", 0))
    if kind == "layout":
        probs = oracle_layout(payload["api"], payload.get("seed", 0))
        probs = [p for p in probs if p[0] == payload["layout"]]
        return {"problems": probs} if probs else None
    return None


def search(res, rng=None):
    """Spec-level oracles on the real code, independent of the Lean model.  Failing inputs are
    reported one per kind first (the framework writes a replay for the first few keys only)."""
    rng = rng or random.Random(res.seed)
    found = {}          # kind -> [(key, payload)]

    def add(kind, key, payload):
        found.setdefault(kind, []).append((key, payload))

    def section_0():
        # (1) old values after a public attribute assignment / (2) copies following the original /
        #     copies not answering by their own attributes
        first = {"PowerLawSD": ["temperature", "alpha", "zeta", "cutoff", "cutoff_type"]}
        for cls in ("PowerLawSD", "CustomSD", "CustomCorrelations"):
            for attr in first.get(cls, CTOR[cls]):
                for method, k in METHODS[cls]:
                    for what, oracle in (("old-value-after-set", oracle_stale),
                                         ("bath-copy-follows-original", oracle_bath_copy),
                                         ("copy-ignores-own-attribute", oracle_copy_own),
                                         ("handed-out-object-changes-the-bath", oracle_handed_out),
                                         ("copy-after-eval-follows-original", oracle_eval_copy_set_original),
                                         ("original-follows-copy-after-eval", oracle_eval_copy_set_copy)):
                        try:
                            h, bad = oracle(cls, attr, method, k)
                        except Exception as e:      # noqa: BLE001
                            bad = {"exception": exc_kind(e)}
                            h = None
                        res.count("search:" + what)
                        if bad is not None:
                            add(what, "%s:%s.%s:%s" % (what, cls, method, attr),
                                {"kind": "history", "history": h, "observed": bad,
                                 "how": "replay the ops on real objects (new = construct with the "
                                        "listed value codes, bath = Bath(sigma_z, obj) [object ids: its "
                                        "own copy, then bath.correlations], set = public attribute "
                                        "assignment, eval = call the method) and compare each eval with a "
                                        "freshly constructed object holding the object's current values",
                                 "values": {a: [show(v) for v in vs] for a, vs in VALUES.items()
                                            if a in CTOR[cls]},
                                 "arguments": {"taus": TAUS, "omegas": OMEGAS, "2d": D2, "epsrel": EPS}})

    def section_1():
        # (3) layouts
        seed = res.seed
        names = [t[0] for t in api_table(random.Random(seed))]
        for name in names:
            try:
                probs = oracle_layout(name, seed)
            except Exception as e:      # noqa: BLE001
                probs = [("?", "oracle raised " + exc_kind(e))]
            res.count("search:layout")
            for lname, what in probs:
                add("layout", "layout:%s:%s" % (name, lname),
                    {"kind": "layout", "api": name, "layout": lname, "seed": seed, "observed": what,
                     "how": "layouts: C = C-contiguous, F = np.asfortranarray(x), T = transposed view "
                            "of the transposed data, S = every second element of a larger array, "
                            "N = reversed view of reversed data, *ro = read-only view"})

    def section_2():
        # (4) random histories against fresh objects
        for i in range(40):
            cls = ["PowerLawSD", "CustomSD", "CustomCorrelations"][i % 3]
            h = History(rng, cls, rng.randrange(6, 14))
            bad = replay_history(h.to_json())
            res.count("search:history")
            if bad is not None:
                op_ = bad["op"]
                add("history", "history:%s.%s" % (cls, op_[2]),
                    {"kind": "history", "history": h.to_json(), "observed": bad})

    def section_3():
        # (5) whole computations
        for key, payload in computation_reuse(res, rng, "quick"):
            add("reuse", key, payload)


    def section_4():
        # (6) caller-owned parameter tables edited in place between two calls
        for func in TABLE_FUNCS:
            h, bad = oracle_table(func)
            res.count("search:table")
            if bad is not None:
                what = ("call-writes-caller-table" if "modified" in bad["observed"]
                        else "inplace-update-ignored")
                add("table", "%s:%s:parameters" % (what, func),
                    {"kind": "table", "history": h, "observed": bad,
                     "how": "one shared ParameterizedSystem(hx, hz -> 0.5 hx sx + 0.5 hz sz); new = "
                            "ndarray with table_values(code) (random.Random(1000+code), 4 rows x 2), "
                            "mut = table[:] = table_values(code) on the same ndarray, call = the "
                            "function with that ndarray (dt=0.2, 2 steps, trivial process tensor); "
                            "each call is compared (1e-12) with a fresh system called with a fresh "
                            "table holding the table's current values"})
        for i in range(8):
            func = list(TABLE_FUNCS)[i % len(TABLE_FUNCS)]
            h = TableHistory(rng, func, rng.randrange(4, 9))
            bad = replay_table_history(h.to_json())
            res.count("search:table")
            if bad is not None:
                add("table", "table-history:%s" % func,
                    {"kind": "table", "history": h.to_json(), "observed": bad})

    def section_5():
        # (7) process tensors used repeatedly
        seed = res.seed
        for name, _b in pt_builders(random.Random(seed)):
            try:
                bad = oracle_pt(name, seed)
            except Exception as e:      # noqa: BLE001
                bad = {"problems": ["raises " + exc_kind(e)]}
            res.count("search:pt")
            if bad is not None:
                what = ("pt-getter-changes-stored-tensor" if any("stored" in p for p in bad["problems"])
                        else "pt-reuse-differs")
                add("pt", "%s:%s" % (what, name),
                    {"kind": "pt", "process_tensor": name, "seed": seed, "observed": bad,
                     "how": "build the SimpleProcessTensor (3 steps, bond dims 1-2-2-1, random tensors "
                            "and transforms from the seed, caps computed), call get_mpo_tensor / "
                            "get_cap_tensor twice per step, compute_dynamics and compute_correlations "
                            "twice; compare the stored arrays bytewise before/after and the two runs"})

    def section_6():
        # (8) arrays handed out by the operator helpers
        for name in return_calls():
            try:
                bad = oracle_return(name)
            except Exception as e:      # noqa: BLE001
                bad = {"problems": ["raises " + exc_kind(e)]}
            res.count("search:returned")
            if bad is not None:
                what = ("returned-array-aliases-internal-state"
                        if (bad.get("share_memory") or not bad.get("distinct_objects", True))
                        else "library-objects-change-after-editing-returned-array")
                add("returned", "%s:operators.%s" % (what, name),
                    {"kind": "returned", "func": name, "observed": bad,
                     "how": "r1 = f(..); r2 = f(..) must be distinct arrays not sharing memory; "
                            "r1[...] = 7; f(..) must still return the pristine value and "
                            "commutator/acommutator/left_super/right_super/cross_*/preparation, "
                            "System.liouvillian, TimeDependentSystem.liouvillian, Bath.coupling_comm/"
                            "acomm and a small Tempo run built afterwards must be unchanged"})

    def section_7():
        # (9) PtTebd restarted after the caller changed its parameters / chain
        for what in TEBD_MUTATIONS:
            try:
                h, bad = oracle_tebd(what)
            except Exception as e:      # noqa: BLE001
                h, bad = None, {"observed": "raises " + exc_kind(e)}
            res.count("search:tebd")
            if bad is not None:
                add("tebd", "stale-after-initialize:PtTebd:%s" % what,
                    {"kind": "tebd", "history": h, "observed": bad,
                     "how": "2-site chain (0.5 sz on site 0, 0.6 sx.sx + 0.3 sy.sz), PtTebdParameters("
                            "dt=0.2, order=1, epsrel=1e-9), product state x+ / z-; compute(2); change "
                            "(dt -> 0.1 | order -> 2 | epsrel -> 1e-2 | add 0.4 sx on site 1) on the "
                            "SAME parameter / chain objects; initialize(); compute(3); compare times "
                            "(exactly) and reduced density matrices (1e-10) with a fresh PtTebd built "
                            "from these objects"})

    def section_8():
        # (10) Tempo objects and the object bath.correlations hands out
        try:
            bad = oracle_bath_tempo()
        except Exception as e:      # noqa: BLE001
            bad = {"raises": exc_kind(e)}
        res.count("search:bath-tempo")
        if bad is not None:
            add("bath-tempo", "editing-bath.correlations-changes-tempo:" + ",".join(sorted(bad)),
                {"kind": "bath-tempo", "observed": bad,
                 "how": "b = Bath(0.5 sz, PowerLawSD(0.1, 1, 2.0, T=0.5)); t1 = Tempo(b); "
                        "c = b.correlations; c.alpha = 0.4; t2 = Tempo(b); both computed to 0.3 "
                        "(dt 0.1, dkmax 3) vs a Tempo on a fresh untouched bath (1e-10)"})

    def section_9():
        # (11) chains used by several computations
        for v in CHAIN_VARIANTS:
            try:
                bad = chain_observe(v)
            except Exception as e:      # noqa: BLE001
                bad = {"variant": v, "problems": ["raises " + exc_kind(e)]}
            res.count("search:chain")
            if bad is not None:
                what = ("chain-arrays-changed-by-computation" if any("chang" in p or "hands out" in p
                                                                      for p in bad["problems"])
                        else "chain-reuse-differs")
                add("chain", "%s:SystemChain(%s)" % (what, v),
                    {"kind": "chain", "variant": v, "observed": bad,
                     "how": "build the chain, snapshot _site_liouvillians/_nn_liouvillians bytewise, "
                            "call get_nn_full_liouvillians(), compute_tebd_propagator(), two PtTebd "
                            "runs (dt 0.2, order 2, 3 steps) on it and one on a freshly built chain"})

    def section_10():
        # (12) a Control used on two time grids
        try:
            bad = control_observe()
        except Exception as e:      # noqa: BLE001
            bad = {"problems": ["raises " + exc_kind(e)]}
        res.count("search:control")
        if bad is not None:
            add("control", "control-on-second-grid-differs:Control.get_controls/compute_dynamics",
                {"kind": "control", "observed": bad,
                 "how": "Control(2) with float-time controls at 0.2 (pre), 0.3 (pre), 0.35 (post) and a "
                        "step control at 2; get_controls(step, dt, start_time) for steps 0..7 and "
                        "compute_dynamics (7 steps) on grid (dt=0.1, start=0) then (dt=0.05, start=0.1) "
                        "and in the other order, vs a fresh equal Control (exact / 1e-12)"})

    def section_11():
        for kind, what, fn, how in (
                ("corrnt", "caller-list-rewritten:compute_correlations_nt(ops_times)", corrnt_observe,
                 "ops_times lists [0.2, (0.2, 0.6)], [slice(1,3), [2,4,5]], [0.3, 0.5] on an 8-step "
                 "trivial process tensor (dt 0.1): identity and repr of the list elements before/after, "
                 "then the same list with start_time=0.1 vs a fresh list"),
                ("filept", "stale-caps:FileProcessTensor.compute_caps after set_mpo_tensor", filept_observe,
                 "FileProcessTensor(write): 3 random rank-4 tensors, compute_caps(), set_mpo_tensor(1, new), "
                 "compute_caps(); caps and compute_dynamics vs a freshly written equal file")):
            try:
                bad = fn()
            except Exception as e:      # noqa: BLE001
                bad = {"problems": ["raises " + exc_kind(e)]}
            res.count("search:" + kind)
            if bad is not None:
                add(kind, what, {"kind": kind, "observed": bad, "how": how})

    for sec in (section_11, section_4, section_5, section_6, section_7, section_8, section_9, section_10,
                section_0, section_1, section_2, section_3):
        try:
            sec()
        except Exception as e:      # noqa: BLE001
            res.notes.append("search: %s raised %s" % (sec.__name__, exc_kind(e)))
    order = ["corrnt", "filept", "table", "pt", "returned", "tebd", "chain", "control", "bath-tempo", "handed-out-object-changes-the-bath", "copy-after-eval-follows-original", "original-follows-copy-after-eval",
             "old-value-after-set", "bath-copy-follows-original", "layout",
             "copy-ignores-own-attribute", "reuse", "history"]
    while any(found.get(k) for k in order):
        for k in order:
            if found.get(k):
                res.fail(*found[k].pop(0))


# ---------------------------------------------------------------------------

def load_corpus():
    out = []
    for f in sorted(glob.glob(os.path.join(fw.CORPUS, PID, "*.json"))):
        try:
            d = json.load(open(f))
        except Exception:       # noqa: BLE001
            continue
        p = d.get("failing_input", d)
        out.append((os.path.basename(f), d.get("key", os.path.basename(f)), p))
    return out


def correspondence(res, tier, rng):
    tables_line = fw.run_driver(PID, ["tables"])[0]
    tables = parse_tables(tables_line)
    res.notes.append("arg stores: " + ", ".join("%s=%s" % (a["func"], a["kind"]) for a in tables["args"]))
    res.notes.append("generated tables: %d memo sites (%d admissible), %d copy sites, %d array sites "
                     "(%d statically safe)" % (
                         len(tables["memo"]), sum(s["ok"] for s in tables["memo"]),
                         len(tables["copies"]), len(tables["arrays"]),
                         sum(s["safe"] for s in tables["arrays"])))
    # corpus first: stored failing inputs must not fail any more
    corpus_hist, corpus_tab, corpus_tebd = [], [], []
    for fname, key, p in load_corpus():
        res.count("corpus")
        still = replay_case(p)
        if still is not None:
            res.fail(key, dict(p, observed=still, corpus_file=fname))
        if p.get("kind") == "history":
            corpus_hist.append(History.from_json(p["history"]))
        if p.get("kind") == "table":
            corpus_tab.append(TableHistory.from_json(p["history"]))
        if p.get("kind") == "tebd":
            corpus_tebd.append(p["history"])
    lines, expect, meta = numpy_lines(res, tier)
    a_lines, a_exp, a_meta = api_lines(res, rng, tables)
    h_lines, jobs = history_cases(res, rng, tier, tables, corpus_hist)
    t_lines, t_jobs = table_cases(res, rng, tier, tables, corpus_tab)
    p_lines, p_jobs, have_pt_sites = pt_lines(res, rng, tables)
    r_lines, r_jobs = return_lines(res, tables)
    d_lines, d_jobs = tebd_lines(res, rng, tier, tables, corpus_tebd)
    send = lines + [x for l in a_lines if l is not None for x in l] + h_lines + t_lines + p_lines \
        + r_lines + d_lines
    out = fw.run_driver(PID, send)
    if len(out) != len(send):
        raise fw.Infra("driver returned %d lines for %d inputs" % (len(out), len(send)))
    pos = 0
    for line, exp, m in zip(lines, expect, meta):
        got = out[pos]
        pos += 1
        res.case(line, m[1] in ("reshape", "setshape") and not exp.startswith("err size"),
                 {"op": line[:160], "impl": exp[:120], "model": got[:120]})
        if exp != got:
            res.disagree("numpy and the array model differ on: " + line[:200],
                         {"line": line, "impl": exp, "model": got, "meta": repr(m)})
    for line, rec, m in zip(a_lines, a_exp, a_meta):
        got = None
        if line is not None:
            got = worst_answer(out[pos:pos + len(line)])
            pos += len(line)
            line = line[0]
        judge_api(res, line, rec, got, m)
    for (h, toks, plan), line in zip(jobs, h_lines):
        got = out[pos]
        pos += 1
        judge_history(res, h, toks, plan, got, tables)
    for h, line in zip(t_jobs, t_lines):
        got = out[pos]
        pos += 1
        judge_table_history(res, h, line, got)
    for name, obs, idx in p_jobs:
        judge_pt(res, name, obs, [out[pos + j] for j in idx], have_pt_sites)
    pos += len(p_lines)
    for job, line in zip(r_jobs, r_lines):
        judge_return(res, job, line, out[pos])
        pos += 1
    for h, line in zip(d_jobs, d_lines):
        judge_tebd(res, h, line, out[pos])
        pos += 1
    reuse_objects_cases(res, tables)
    bt = oracle_bath_tempo()
    res.count("bath-tempo")
    if bt is not None and all(c["ok"] for c in tables["copies"]):
        res.disagree("Tempo / bath change after editing the object bath.correlations handed out, "
                     "though the copy table says every access is a copy", bt)
    for key, payload in computation_reuse(res, rng, tier):
        res.disagree("re-used objects give other results than fresh equal objects: " + key, payload)


def run(tier, seed, replay):
    res = fw.Result(PID, tier, seed, level="proof")
    rng = random.Random(seed)
    res.rule = (
        "numpy level: every array of a shape grid (rank 0-4) in layouts {C, F, all axis "
        "permutations, every strided-slice mask out of C and F parents, negative stride, broadcast, "
        "read-only} x ops {flags, np.array, copy.copy, order='C' copy, reshape and in-place shape "
        "assignment to every same-size shape of rank <= 4}: view/copy/refusal and resulting strides, "
        "exact.  API level: every generated array site and further public APIs (System, SystemChain, "
        "Bath, compute_dynamics, with_field, gradient initial state/target/parameters, add_singleton, "
        "Tempo, MeanFieldTempo, Gate, AugmentedMPS gammas/lambdas, PtTebd, Control, ChainControl, "
        "Dynamics.expectations) x layouts {C, F, T, strided, negative, read-only}: exception kind vs "
        "model (exact), caller bytes/shape/strides/flags before vs after (exact), results vs the "
        "C-layout call (1e-10 relative).  Object level: generated histories (new, Bath copy, public "
        "attribute assignment, evaluations incl. memoised ones) on real PowerLawSD / CustomSD / "
        "CustomCorrelations objects vs the memo model: the model names the attribute values each "
        "returned number was computed from, the harness realises them on fresh real objects and "
        "compares bit-for-bit (composite 2D integrals 1e-12).  Table level: histories on one shared "
        "ParameterizedSystem (new table, in-place edit of the same ndarray, call of get_propagators / "
        "get_propagator_derivatives / state_gradient / compute_gradient_and_dynamics): each call vs "
        "a fresh system with a fresh table holding the values the model names (1e-12), caller's "
        "table bytes before vs after each call.  Process tensors: SimpleProcessTensors (rank-3/4 "
        "tensors, with/without square transforms): getters twice, compute_dynamics and "
        "compute_correlations twice, stored arrays bytewise before/after, vs the model's verdict on "
        "every path of the getter sites.  Returned arrays: every public function of oqupy.operators "
        "and util.create_delta: two calls give distinct arrays not sharing memory, after editing the "
        "first result a call and library objects built afterwards are unchanged (exact), vs the "
        "model's verdict from the generated return table.  PtTebd: histories compute / change "
        "dt, order, epsrel or add a chain term on the shared objects / initialize() / compute on one "
        "PtTebd vs a fresh PtTebd from the current objects (times exact, states 1e-10) vs the model's "
        "verdict from the derived-store table.  Chains: stored Liouvillians bytewise before/after "
        "get_nn_full_liouvillians, compute_tebd_propagator and two PtTebd runs (incl. field-free "
        "bonds), re-used vs fresh chain (1e-10).  Control: get_controls and compute_dynamics on two "
        "time grids in both orders vs a fresh Control (exact / 1e-12).  Non-trivial = reshape/shape cases of "
        "matching size, API cases, histories with a cache hit or a predicted stale value; distinct "
        "= distinct protocol line.")
    res.assumptions = [
        "numpy semantics of reshape / shape assignment / order-'K' copies are those of the installed "
        "numpy (1.26): validated on the grid, assumed beyond it (arrays without empty axes)",
        "functions called with a tracked array (tensornetwork Node construction, numpy arithmetic) do "
        "not write to it: not visible to the translator, observed bytewise in the API-level runs",
        "attributes with a leading underscore are not assigned by users; user-supplied callables "
        "(j_function, correlation_function) are pure",
        "scipy quad/dblquad are deterministic functions of integrand and tolerances",
    ]
    res.not_shown = [
        "arrays retained by reference after the call (Tempo keeps initial_state, Control.add_single "
        "and Dynamics keep operands): a later in-place change made by the *user* is visible to the "
        "object; the check only shows that library calls do not write to them",
        "arrays handed out by the library that alias internal state are covered for oqupy.operators "
        "and util.create_delta only; elsewhere (System.liouvillian() returns the memoised array itself, "
        "System.lindblad_operators a shallow list copy, get_mpo_tensor(transformed=False) the stored "
        "tensor) user writes into them are not modelled",
        "process-tensor objects re-used across computations are covered by the computation-reuse "
        "runs only (no model), file-backed process tensors by C16",
        "lru_cache in oqupy/backends/tempo_backend.py (outside the anchors)",
    ]
    res.trusted += [
        "numpy's C implementation of reshape / the shape setter / order-'K' copies: modelled in "
        "Model/Aliasing.lean (`reshapeView?`, `kOrderStrides`), compared exhaustively on the grid",
        "the CacheKeys fragment's reading of `self.<attr>` loads, stored lambdas and the "
        "`_cached_on_parameters` decorator (documented grammar; anything else is refused)",
        "CPython: functools.lru_cache keys on (self by identity, arguments); copy.copy of an "
        "instance copies __dict__ and keeps function objects",
    ]
    fw.standard_pipeline(res, ["CacheKeys"], THEOREMS)
    translated = all(o[1] for o in res.obligations if o[0].startswith("translator"))
    if replay:
        d = json.load(open(replay))
        p = d.get("failing_input", d)
        still = replay_case(p)
        fw.log("replay %s: %s" % (replay, "still fails: " + json.dumps(still)[:300] if still
                                  else "does not fail"))
        if still is not None:
            res.fail(d.get("key", "replay"), dict(p, observed=still))
    try:
        if translated:
            correspondence(res, tier, rng)
        else:
            res.notes.append("correspondence skipped: generated tables unavailable")
    except fw.Infra as e:
        res.oblige("correspondence run", False, str(e))
    except Exception:       # noqa: BLE001  (the code under test misbehaves in an unforeseen way)
        import traceback
        res.oblige("correspondence run", False, traceback.format_exc()[-1500:])
    # always run: used-vs-fresh histories on objects without a generated memo table
    for key, payload in used_vs_fresh():
        res.fail(key, payload)
    res.count("used-vs-fresh histories")
    return fw.finish(res, search)
