"""C16 — process tensors survive export, import and file-backed computation unchanged.
See DESIGN.md §4 C16.  Wire format, file dump, tracer and PT generators are shared with
run_C17."""
import json
import os
import random
import shutil
import tempfile
import warnings

import numpy as np

from . import framework as fw
from . import run_C17 as base
from .run_C17 import (enc_tensor, enc_simple, enc_cmds, enc_meta, hexs, version_token, dump_file,
                      H5Tracer, ApiRecorder, gen_pt_spec, build_simple, tensor_of, tensor_spec)
from .framework import rat

PID = "C16"
THEOREMS = [
    "OQuPyVerif.Props.C16.get_set",
    "OQuPyVerif.Props.C16.get_set_none",
    "OQuPyVerif.Props.C16.get_set_tensor",
    "OQuPyVerif.Props.C16.mpo_never_sentinel",
    "OQuPyVerif.Props.C16.roundtrip_file",
    "OQuPyVerif.Props.C16.roundtrip_simple",
    "OQuPyVerif.Props.C16.usable",
    "OQuPyVerif.Props.C16.file_eq_memory",
    "OQuPyVerif.Props.C16.pttempo_choice",
    "OQuPyVerif.Props.C16.setters_sound",
    "OQuPyVerif.Props.C16.meta_set_after_creation",
    "OQuPyVerif.Props.C16.pttempo_same_metadata",
    "OQuPyVerif.Props.C16.import_copies_raw",
]


# ---------------------------------------------------------------------------
# views of real objects (mirror of Wire.showFileView / showSimpleView)
# ---------------------------------------------------------------------------

def _get(fn):
    try:
        return enc_tensor(fn())
    except IndexError:
        return "E:IndexError"
    except ValueError:
        return "E:ValueError"
    except KeyError:
        return "E:KeyError"


def _bonds(pt):
    try:
        return ",".join(str(int(b)) for b in pt.get_bond_dimensions())
    except Exception:
        return "raises"


def _meta_view(pt):
    return enc_meta(pt.hilbert_space_dimension, pt.dt, pt.transform_in, pt.transform_out,
                    pt.name, pt.description)


def file_view(pt, warned):
    n = len(pt)
    ncap = pt._cap_tensors_shape.shape[0]
    mpos = [_get(lambda k=k: pt.get_mpo_tensor(k, transformed=False)) for k in range(n)]
    caps = [_get(lambda k=k: pt.get_cap_tensor(k)) for k in range(ncap + 1)]
    return "warned=%d len=%d %s init=%s mpos=%s caps=%s bonds=%s" % (
        int(warned), n, _meta_view(pt), _get(pt.get_initial_tensor), "|".join(mpos),
        "|".join(caps), _bonds(pt))


def simple_view(pt, warned):
    n = len(pt)
    mpos = [enc_tensor(pt._mpo_tensors[k]) for k in range(n)]
    caps = [enc_tensor(pt.get_cap_tensor(k)) for k in range(len(pt._cap_tensors) + 1)]
    return "warned=%d len=%d %s init=%s mpos=%s caps=%s bonds=%s" % (
        int(warned), n, _meta_view(pt), enc_tensor(pt.get_initial_tensor()), "|".join(mpos),
        "|".join(caps), _bonds(pt))


def real_import(path, kind):
    """(view string, object) or ('err …', None)"""
    from oqupy.process_tensor import import_process_tensor
    with warnings.catch_warnings(record=True) as w:
        warnings.simplefilter("always")
        try:
            pt = import_process_tensor(path, kind)
        except Exception as e:
            return "err " + type(e).__name__, None
        warned = any("corrupt" in str(x.message) for x in w)
    try:
        view = file_view(pt, warned) if kind == "file" else simple_view(pt, warned)
    except Exception as e:
        return "err view " + type(e).__name__, pt
    return "ok " + view, pt


def _close(pt):
    try:
        pt._f.close()
    except Exception:
        pass


# ---------------------------------------------------------------------------
# consumers
# ---------------------------------------------------------------------------

def dynamics_of(pt, steps=None):
    import oqupy
    from oqupy import operators as op
    dim = pt.hilbert_space_dimension
    if dim == 2:
        h = 0.3 * op.sigma("x") + 0.1 * op.sigma("z")
        rho = op.spin_dm("y+")
    else:
        h = np.diag(np.arange(dim, dtype=float)) * 0.2 + 0.15 * (np.ones((dim, dim)) - np.eye(dim))
        h = h + 0.1j * (np.triu(np.ones((dim, dim)), 1) - np.tril(np.ones((dim, dim)), -1))
        rho = np.zeros((dim, dim), dtype=complex)
        rho[0, 0], rho[1, 1], rho[0, 1], rho[1, 0] = 0.7, 0.3, 0.2j, -0.2j
    dyn = oqupy.compute_dynamics(system=oqupy.System(h), initial_state=rho, process_tensor=pt,
                                 dt=None if pt.dt is not None else 0.1,
                                 num_steps=steps, progress_type="silent")
    return np.array(dyn.states)


def combined_ok(pt, imp):
    """original and imported process tensor as two environments of one system against the
    original twice; (ok, detail)"""
    import oqupy
    from oqupy import operators as op
    if pt.hilbert_space_dimension != 2:
        return True, ""
    h = 0.3 * op.sigma("x") + 0.1 * op.sigma("z")

    def run(pts):
        dyn = oqupy.compute_dynamics(system=oqupy.System(h), initial_state=op.spin_dm("y+"),
                                     process_tensor=pts, dt=None if pt.dt is not None else 0.1,
                                     progress_type="silent")
        return np.array(dyn.states)
    try:
        ref = run([pt, pt])
    except Exception:
        return True, ""            # this process tensor cannot be used twice anyway
    try:
        got = run([pt, imp])
    except Exception as e:
        return False, "two environments (original + imported): compute_dynamics raises %s: %s" % (
            type(e).__name__, str(e)[:80])
    if ref.shape != got.shape or np.max(np.abs(ref - got)) > 1e-12 * max(1.0, np.max(np.abs(ref))):
        return False, "two environments (original + imported): states differ"
    return True, ""


def same_dynamics(pt_a, pt_b):
    """(ok, detail): dynamics of pt_b against those of pt_a (1e-12)"""
    try:
        ref = dynamics_of(pt_a)
    except Exception as e:          # e.g. a process tensor without caps: both must fail alike
        try:
            dynamics_of(pt_b)
        except Exception as e2:
            if type(e2) is type(e):
                return True, ""
            return False, "compute_dynamics raises %s, the original %s" % (
                type(e2).__name__, type(e).__name__)
        return False, "compute_dynamics runs, the original raises " + type(e).__name__
    try:
        got = dynamics_of(pt_b)
    except Exception as e:
        return False, "compute_dynamics raises " + type(e).__name__
    if ref.shape != got.shape:
        return False, "shape %s vs %s" % (ref.shape, got.shape)
    err = float(np.max(np.abs(ref - got))) if ref.size else 0.0
    scale = max(1.0, float(np.max(np.abs(ref)))) if ref.size else 1.0
    if not (err <= 1e-12 * scale):
        return False, "max deviation %.3e" % err
    return True, ""


def other_consumers(pt):
    """correlations, gradient and PT-TEBD on a (physical, dt-carrying, dimension-2) process
    tensor; name -> array, or name -> 'raises <Exc>'"""
    import oqupy
    from oqupy import operators as op
    from oqupy.gradient import compute_gradient_and_dynamics
    out = {}
    n = len(pt)
    dt = pt.dt
    sysm = oqupy.System(0.3 * op.sigma("x") + 0.1 * op.sigma("z"))

    def guarded(name, fn):
        try:
            out[name] = fn()
        except Exception as e:
            out[name] = "raises " + type(e).__name__

    def corr():
        c = oqupy.compute_correlations(
            system=sysm, process_tensor=pt, operator_a=op.sigma("x"), operator_b=op.sigma("z"),
            times_a=(0.0, dt * (n - 1)), times_b=(0.0, dt * n), time_order="ordered",
            initial_state=op.spin_dm("y+"), progress_type="silent")
        return np.nan_to_num(np.array(c[1], dtype=complex), nan=-7.0)

    def grad():
        psys = oqupy.ParameterizedSystem(lambda x: x * op.sigma("x") + 0.1 * op.sigma("z"))
        g, dyn = compute_gradient_and_dynamics(
            system=psys, parameters=np.full((2 * n, 1), 0.3), initial_state=op.spin_dm("y+"),
            target_derivative=op.spin_dm("x+"), process_tensors=[pt], dt=dt, num_steps=n,
            progress_type="silent")
        def flat(x):
            if isinstance(x, (list, tuple)):
                return [z for y in x for z in flat(y)]
            if hasattr(x, "get_tensor"):          # a tensornetwork Node
                x = x.get_tensor()
            return list(np.asarray(x, dtype=complex).reshape(-1))
        return np.array(flat(g) + flat(np.array(dyn.states)), dtype=complex)

    def tebd():
        chain = oqupy.SystemChain([2, 2])
        chain.add_site_hamiltonian(0, 0.3 * op.sigma("z"))
        chain.add_nn_hamiltonian(0, 0.5 * op.sigma("x"), op.sigma("x"))
        mps = oqupy.AugmentedMPS([op.spin_dm("z+"), op.spin_dm("z-")])
        t = oqupy.PtTebd(initial_augmented_mps=mps, system_chain=chain, process_tensors=[pt, None],
                         parameters=oqupy.PtTebdParameters(dt=dt, order=2, epsrel=1e-7),
                         dynamics_sites=[0, 1])
        r = t.compute(end_step=n, progress_type="silent")
        return np.concatenate([np.array(r["norm"], dtype=complex).reshape(-1)] +
                              [np.array(r["dynamics"][s].states).reshape(-1) for s in (0, 1)])
    guarded("correlations", corr)
    guarded("gradient", grad)
    guarded("pt_tebd", tebd)
    return out


def compare_consumers(ref, got):
    """list of consumer names whose result on the imported tensor differs from the original's"""
    bad = []
    for name, a in ref.items():
        b = got.get(name)
        if isinstance(a, str) or isinstance(b, str):
            if a != b:
                bad.append("%s: original %s, imported %s" % (
                    name, a if isinstance(a, str) else "ok", b if isinstance(b, str) else "ok"))
            continue
        if a.shape != b.shape or np.max(np.abs(a - b)) > 1e-12 * max(1.0, np.max(np.abs(a))):
            bad.append("%s: results differ" % name)
    return bad


def consumers_roundtrip(coupling, steps):
    """a real PT-TEMPO process tensor, exported and imported both ways, in all consumers;
    returns (problems, ran) with ran = consumers that ran on the original"""
    import oqupy
    from oqupy import operators as op
    from . import oq
    c = coupling_op(coupling)
    pt = oqupy.pt_tempo_compute(bath=oq.cheap_bath(c), start_time=0.0, end_time=steps * 0.1 + 0.01,
                                parameters=oq.cheap_params(0.1), progress_type="silent")
    ref = other_consumers(pt)
    d = tempfile.mkdtemp(prefix="c16cons_")
    problems = []
    try:
        path = os.path.join(d, "pt.hdf5")
        pt.export(path, overwrite=True)
        for kind in ("file", "simple"):
            view, imp = real_import(path, kind)
            if imp is None:
                problems.append((kind, "import fails: " + view))
                continue
            ok, detail = same_dynamics(pt, imp)
            if not ok:
                problems.append((kind, "compute_dynamics: " + detail))
            for p in compare_consumers(ref, other_consumers(imp)):
                problems.append((kind, p))
            if kind == "file":
                _close(imp)
    finally:
        shutil.rmtree(d, ignore_errors=True)
    return problems, [k for k, v in ref.items() if not isinstance(v, str)]


# ---------------------------------------------------------------------------
# correspondence
# ---------------------------------------------------------------------------

def gen_setget(rng):
    """(initial rows, [(step, tensor or None)])"""
    n0 = rng.choice([0, 0, 1, 2])
    ops = []
    for _ in range(rng.randrange(1, 7)):
        step = rng.randrange(0, 6)
        kind = rng.choice(["t", "t", "t", "none", "nan1", "one", "scalar"])
        if kind == "none":
            t = None
        elif kind == "nan1":
            t = np.array([complex(np.nan, 0.0)])
        elif kind == "one":
            t = np.array([complex(rng.randrange(-8, 9) / 8.0, 0.5)])
        elif kind == "scalar":
            t = np.array(complex(rng.randrange(-8, 9) / 8.0, -0.25))
        else:
            rank = rng.randrange(1, 5)
            shape = tuple(rng.randrange(1, 4) for _ in range(rank))
            t = base._rand_arr(rng, shape)
            if rng.random() < 0.3:
                t = np.moveaxis(t, 0, -1)          # a non-contiguous view
        ops.append((step, t))
    return n0, ops


def run_setget(n0, ops):
    """real _set_data_and_shape/_get_data_and_shape on h5py datasets; returns the protocol answer"""
    import h5py
    import oqupy.process_tensor as P
    d = tempfile.mkdtemp(prefix="c16sg_")
    log = []
    try:
        f = h5py.File(os.path.join(d, "sg.hdf5"), "w")
        data = f.create_dataset("mpo_tensors_data", (n0,), maxshape=(None,),
                                dtype=h5py.vlen_dtype(np.dtype("complex128")))
        shape = f.create_dataset("mpo_tensors_shape", (n0,), maxshape=(None,),
                                 dtype=h5py.vlen_dtype(np.dtype("i")))
        with H5Tracer(log.append):
            for step, t in ops:
                P._set_data_and_shape(step, data, shape, t)
        n = shape.shape[0]
        gets = []
        for k in range(n + 1):
            gets.append(_get(lambda k=k: P._get_data_and_shape(k, data, shape)))
        rows_e = "%d[" % data.shape[0] + "|".join(
            ";".join(base.enc_entry(z) for z in np.asarray(r)) for r in data[:]) + "]"
        rows_n = "%d[" % n + "|".join("x".join(str(int(z)) for z in np.asarray(r)) for r in shape[:]) + "]"
        f.close()
        return "trace=%s len=%d gets=%s data=%s shape=%s" % (",".join(log), n, "|".join(gets),
                                                              rows_e, rows_n)
    finally:
        shutil.rmtree(d, ignore_errors=True)


def corpus_specs():
    import glob
    out = []
    for f in sorted(glob.glob(os.path.join(fw.CORPUS, PID, "*.json"))):
        try:
            spec = json.load(open(f)).get("failing_input", {}).get("pt")
        except (OSError, ValueError):
            spec = None
        if spec is not None and spec not in out:
            out.append(spec)
    return out


def pt_specs(tier, rng):
    specs = corpus_specs()            # past failures first
    for length in (1, 2, 3, 4, 5, 6):
        for rank in (3, 4):
            specs.append(gen_pt_spec(rng, length=length, rank=rank))
    specs.append(gen_pt_spec(rng, length=3, rank=4, with_tr=True, with_dt=True, named=True))
    specs.append(gen_pt_spec(rng, length=2, rank=4, with_tr=True, with_dt=False, named=False))
    specs.append(gen_pt_spec(rng, length=2, rank=3, dim=3, max_bond=2))
    # time steps that no short decimal represents, and a very small one (SI units): dt must come
    # back as the same binary64
    for dt in (1.0 / 3.0, 2.5e-15, np.pi / 40):
        sp = gen_pt_spec(rng, length=2, rank=3, max_bond=2, with_tr=False, with_dt=True)
        sp["dt"] = float(dt)
        specs.append(sp)
    # square (4x4), non-involutory transforms: a tensor rotated twice still has the right shape
    specs.append(gen_pt_spec(rng, length=3, rank=4, with_tr="both", max_bond=2, square=True))
    # exactly one of the two transforms (the constructors allow it)
    specs.append(gen_pt_spec(rng, length=2, rank=4, with_tr="in", max_bond=2))
    specs.append(gen_pt_spec(rng, length=3, rank=4, with_tr="out", max_bond=2))
    # caps that compute_caps() would not produce: user-defined ones, and none at all
    specs.append(gen_pt_spec(rng, length=3, rank=3, caps="custom", max_bond=3))
    specs.append(gen_pt_spec(rng, length=2, rank=4, caps="custom", with_tr="both", max_bond=2))
    specs.append(gen_pt_spec(rng, length=2, rank=3, caps="none", max_bond=2))
    extra = 0 if tier == "quick" else 40
    for _ in range(extra):
        specs.append(gen_pt_spec(rng, dim=rng.choice([2, 2, 3]),
                                 with_tr=rng.choice([None, None, "in", "out", "both"]),
                                 caps=rng.choice(["computed", "computed", "custom", "none"])))
    return specs


def export_case(spec, ovw, prior):
    """real export with tracing; returns dict(trace, dump, err, path, dir)"""
    pt = build_simple(spec)
    d = tempfile.mkdtemp(prefix="c16ex_")
    path = os.path.join(d, "pt.hdf5")
    base.make_prior(prior, path)
    log = []
    err = None
    with H5Tracer(log.append):
        try:
            pt.export(path, overwrite=ovw)
        except OSError:
            err = "OSError"
        except ValueError:
            err = "ValueError"
        except Exception as e:          # anything else: not an outcome export() should have
            err = type(e).__name__
    return {"pt": pt, "trace": log, "err": err, "path": path, "dir": d,
            "dump": None if err else dump_file(path)}


def correspondence(res, tier, rng):
    lines, checks = [], []

    def add(line, exp, key, what):
        lines.append(line)
        checks.append((exp, key, what))

    # (a) _set_data_and_shape / _get_data_and_shape on real datasets
    nsg = 40 if tier == "quick" else 400
    for i in range(nsg):
        n0, ops = gen_setget(rng)
        exp = run_setget(n0, ops)
        add("setget rows=%d cmds=%s" % (n0, enc_cmds([("M", s, t) for s, t in ops])), exp,
            "setget:%d" % i, "set/get")
        res.count("setget")
        for _, t in ops:
            res.count("setget-tensor:" + ("None" if t is None else "rank%d" % np.asarray(t).ndim))

    # (b)+(c)+(d) export, both imports, consumers
    usable_checks = []
    for i, spec in enumerate(pt_specs(tier, rng)):
        ovw, prior = rng.choice([(False, "missing"), (True, "missing"), (True, "unreadable"),
                                 (True, "empty")])
        case = export_case(spec, ovw, prior)
        try:
            pt = case["pt"]
            kvs = "ovw=%d disk=%s %s %s" % (int(ovw), prior, version_token(), enc_simple(pt))
            if case["err"]:
                add("export " + kvs, "err " + case["err"], "export:%d" % i, "export")
                continue
            add("export " + kvs, "ok trace=%s disk=%s" % (",".join(case["trace"]), case["dump"]),
                "export:%d" % i, "export")
            res.count("pt:len=%d" % len(pt))
            res.count("pt:rank=%d" % spec["rank"])
            res.count("pt:dt=%s" % (spec["dt"] is not None))
            res.count("pt:transforms=%s" % (spec["tin"] is not None))
            res.count("pt:maxbond=%d" % int(max(pt.get_bond_dimensions())))
            for kind in ("file", "simple"):
                view, obj = real_import(case["path"], kind)
                add("roundtrip type=%s %s" % (kind, kvs), view, "roundtrip:%s:%d" % (kind, i),
                    "import " + kind)
                if obj is not None:
                    ok, detail = same_dynamics(pt, obj)
                    if ok:
                        ok, detail = combined_ok(pt, obj)
                    usable_checks.append((len(lines) - 1, kind, i, ok, detail))
                    if kind == "file":
                        _close(obj)
        finally:
            shutil.rmtree(case["dir"], ignore_errors=True)

    # (e) PT-TEMPO into a file against PT-TEMPO in memory; couplings with a complex,
    #     non-involutory diagonalising unitary included
    tempo_cases = [("z", 3, None), ("y", 2, "named run"), ("h3", 2, None)]
    if tier == "thorough":
        tempo_cases += [("x", 2, None), ("z", 5, None), ("y", 4, None), ("h3", 3, "three levels")]
    for coupling, steps, name in tempo_cases:
        r = pttempo_pair(coupling, steps, name)
        res.count("pttempo:" + coupling)
        if r["problems"]:
            for p in r["problems"]:
                res.disagree("file-backed PT-TEMPO differs from the in-memory one: " + p,
                             {"coupling": coupling, "steps": steps})
        for kind in ("file", "simple"):
            add("writer-meta-view type=%s mode=overwrite disk=missing %s %s cmds=%s" % (
                kind, version_token(), r["meta"], r["cmds"]), r["views"][kind],
                "pttempo-%s:%s:%d" % (kind, coupling, steps), "PT-TEMPO file, imported as " + kind)
        add("simple-sets %s cmds=%s" % (r["meta"], r["tensor_cmds"]), r["simple_view_of_same_calls"],
            "pttempo-simple:%s:%d" % (coupling, steps), "same calls on a SimpleProcessTensor")

    # (g) name / description assigned after creation of a file-backed process tensor
    nmeta = 6 if tier == "quick" else 40
    for i in range(nmeta):
        c = meta_case(rng)
        res.count("meta-assignments", sum(1 for k, _, _ in c["calls"] if k in ("N", "D")))
        live = "live=%s,%s" % (hexs(c["live"][0]), hexs(c["live"][1]))
        line = "mode=overwrite disk=missing %s %s cmds=%s" % (version_token(), c["meta"],
                                                              enc_cmds(c["calls"]))
        add("writer-meta " + line, "ok %s trace=%s disk=%s" % (live, ",".join(c["trace"]), c["dump"]),
            "meta:%d" % i, "assignments after creation")
        for kind in ("file", "simple"):
            v = c["views"][kind]
            add("writer-meta-view type=%s %s" % (kind, line),
                v if not v.startswith("ok ") else "ok " + live + " " + v[3:],
                "meta-view:%s:%d" % (kind, i), "assignments after creation, imported as " + kind)
        add("simple-meta %s cmds=%s" % (c["meta"], enc_cmds(c["calls"])),
            "live=%s,%s" % (hexs(c["twin"][0]), hexs(c["twin"][1])), "meta-simple:%d" % i,
            "same assignments on a SimpleProcessTensor")

    # (h) histories: use, overwrite a step, compute_caps, export, import -- against a fresh twin
    nh = 4 if tier == "quick" else 24
    for i in range(nh):
        payload, problems = history_case(rng, rank=3 if i % 2 == 0 else 4, with_tr=(i % 4 == 3) and "both")
        res.count("history")
        res.case("history:%d" % i, True)
        for name, p in problems:
            res.disagree("after use -> set_mpo_tensor -> compute_caps -> export -> import, the %s "
                         "differs from a fresh process tensor holding the final tensors: %s"
                         % (name, p), payload)

    # (f) every consumer on imported real process tensors (the model's claim: imported = original)
    cons_cases = [("z", 3), ("y", 2)] if tier == "quick" else \
        [("z", 3), ("y", 2), ("x", 3), ("z", 6), ("y", 5)]
    for coupling, steps in cons_cases:
        problems, ran = consumers_roundtrip(coupling, steps)
        res.count("consumers:" + ",".join(ran))
        res.case("consumers:%s:%d" % (coupling, steps), True)
        for kind, p in problems:
            res.disagree("imported (%s) process tensor used in a computation: %s" % (kind, p),
                         {"coupling": coupling, "steps": steps, "type": kind})

    out = fw.run_driver(PID, lines)
    if len(out) != len(lines):
        raise fw.Infra("driver returned %d lines for %d inputs" % (len(out), len(lines)))
    for line, got, (exp, key, what) in zip(lines, out, checks):
        res.case(key, True, {"op": line[:100], "impl": exp[:100], "model": got[:100]})
        if exp != got:
            res.disagree("%s: model and implementation differ" % what,
                         {"line": line[:600], "impl": exp[:800], "model": got[:800]})
    # usability: the model's view says whether the imported object has an initial tensor
    for idx, kind, i, ok, detail in usable_checks:
        model_usable = " init=None " in out[idx]
        res.case("usable:%s:%d" % (kind, i), True)
        if ok != model_usable:
            res.disagree("imported (%s) process tensor in compute_dynamics: implementation %s, "
                         "model says usable=%s" % (kind, "agrees with the original" if ok else detail,
                                                   model_usable),
                         {"pt": i, "type": kind, "detail": detail})


def coupling_op(coupling):
    from oqupy import operators as op
    if coupling in ("x", "y", "z"):
        return 0.5 * op.sigma(coupling)
    if coupling == "h3":
        # a fixed complex Hermitian 3-level coupling: its diagonalising unitary is complex and
        # neither symmetric nor involutory
        r = random.Random(7)
        a = np.array([[complex(r.uniform(-1, 1), r.uniform(-1, 1)) for _ in range(3)] for _ in range(3)])
        return 0.5 * (a + a.conj().T)
    raise ValueError(coupling)


NAME_LATER = "spin boson model"
DESCR_LATER = "δ: described after the computation"


def pttempo_pair(coupling, steps, name):
    """real pt_tempo_compute in memory and into a file, from ONE Bath object (so both see the
    same diagonalising unitary); name and description are assigned after the computation, as
    tests/data/generate_pts.py does"""
    import oqupy
    from . import oq
    bath = oq.cheap_bath(coupling_op(coupling))
    kw = dict(start_time=0.0, end_time=steps * 0.1 + 0.01, parameters=oq.cheap_params(0.1),
              progress_type="silent", name=name)
    d = tempfile.mkdtemp(prefix="c16tempo_")
    problems = []
    try:
        path = os.path.join(d, "pt.hdf5")
        mem = oqupy.pt_tempo_compute(bath=bath, **kw)
        with ApiRecorder() as rec:
            fpt = oqupy.pt_tempo_compute(bath=bath, process_tensor_file=path, overwrite=True, **kw)
        tensor_calls = [c for c in rec.calls if c[0] in ("I", "M", "C")]
        meta = enc_meta(*rec.meta[:6])
        for obj in (mem, fpt):
            obj.name = NAME_LATER
            obj.description = DESCR_LATER
        calls = tensor_calls + [("N", 0, NAME_LATER), ("D", 0, DESCR_LATER)]
        live = "live=%s,%s" % (hexs(fpt.name), hexs(fpt.description))
        if not isinstance(fpt, oqupy.FileProcessTensor):
            problems.append("not a FileProcessTensor")
        # The two runs are separate floating-point computations, and the SVDs inside PT-TEMPO fix
        # the gauge of the bond legs only up to signs/phases that vary between runs (two
        # in-memory runs differ the same way): across runs compare what is gauge invariant.
        if len(mem) != len(fpt):
            problems.append("length %d vs %d" % (len(mem), len(fpt)))
        else:
            if list(mem.get_bond_dimensions()) != list(fpt.get_bond_dimensions()):
                problems.append("bond dimensions")
            for attr in ("dt", "hilbert_space_dimension", "name", "description"):
                if getattr(mem, attr) != getattr(fpt, attr):
                    problems.append(attr)
            for attr in ("transform_in", "transform_out"):
                a, b = getattr(mem, attr), getattr(fpt, attr)
                # both are built from the same unitary by the same expressions: exact
                if (a is None) != (b is None) or (a is not None and not np.array_equal(a, b)):
                    problems.append(attr)
            ok, detail = same_dynamics(mem, fpt)
            if not ok:
                problems.append("dynamics: " + detail)
        # the file run's own tensors in an in-memory object carrying the IN-MEMORY run's metadata:
        # same raw tensors, so the transformed MPO tensors must agree entry by entry
        m = rec.meta
        twin = oqupy.SimpleProcessTensor(
            hilbert_space_dimension=mem.hilbert_space_dimension, dt=mem.dt,
            transform_in=mem.transform_in, transform_out=mem.transform_out)
        same_calls = oqupy.SimpleProcessTensor(hilbert_space_dimension=m[0], dt=m[1], transform_in=m[2],
                                               transform_out=m[3], name=m[4], description=m[5])
        for kind, step, t in tensor_calls:
            for s in (twin, same_calls):
                if kind == "I":
                    s.set_initial_tensor(t)
                elif kind == "M":
                    s.set_mpo_tensor(step, t)
                else:
                    s.set_cap_tensor(step, t)
        for k in range(len(fpt)):
            a, b = twin.get_mpo_tensor(k), fpt.get_mpo_tensor(k)
            if a.shape != b.shape or np.max(np.abs(a - b)) > 1e-12:
                problems.append("transformed mpo tensor %d" % k)
                break
        ok, detail = same_dynamics(twin, fpt)
        if not ok:
            problems.append("dynamics with the transforms of the in-memory run: " + detail)
        fpt.close()
        views = {}
        for kind in ("file", "simple"):
            view, obj = real_import(path, kind)
            views[kind] = view if not view.startswith("ok ") else "ok " + live + " " + view[3:]
            if obj is not None:
                ok, detail = same_dynamics(mem, obj)
                if not ok:
                    problems.append("dynamics of the file re-imported as %s: %s" % (kind, detail))
                for attr in ("name", "description"):
                    if getattr(obj, attr) != getattr(mem, attr):
                        problems.append("%s of the file re-imported as %s" % (attr, kind))
                if kind == "file":
                    _close(obj)
        return {"problems": problems, "meta": meta, "cmds": enc_cmds(calls),
                "tensor_cmds": enc_cmds(tensor_calls), "views": views,
                "simple_view_of_same_calls": "ok " + simple_view(same_calls, False)}
    finally:
        shutil.rmtree(d, ignore_errors=True)


LATER_TEXTS = [None, "renamed", "δ later", "two words", ""]


def meta_case(rng):
    """a hand-built file-backed process tensor whose name / description are assigned after
    creation, between the tensor writes; real code only.  Returns everything observed."""
    import oqupy
    spec = gen_pt_spec(rng, length=rng.randrange(1, 4), max_bond=2, with_tr=False)
    d = tempfile.mkdtemp(prefix="c16meta_")
    log = []
    try:
        path = os.path.join(d, "pt.hdf5")
        with ApiRecorder() as rec, H5Tracer(log.append):
            fpt = oqupy.FileProcessTensor(
                mode="overwrite", filename=path, hilbert_space_dimension=spec["hs"], dt=spec["dt"],
                name=spec["name"], description=spec["descr"])
            twin = oqupy.SimpleProcessTensor(hilbert_space_dimension=spec["hs"], dt=spec["dt"],
                                             name=spec["name"], description=spec["descr"])

            def assign():
                kind = rng.choice(["N", "D", "D"])
                text = rng.choice(LATER_TEXTS)
                for obj in (fpt, twin):
                    if kind == "N":
                        obj.name = text
                    else:
                        obj.description = text
                rec.calls.append((kind, 0, text))
            if rng.random() < 0.5:
                assign()
            for k in reversed(range(len(spec["mpos"]))):
                fpt.set_mpo_tensor(k, tensor_of(spec["mpos"][k]))
                twin.set_mpo_tensor(k, tensor_of(spec["mpos"][k]))
                if rng.random() < 0.6:
                    assign()
            fpt.compute_caps()
            assign()
            live = (fpt.name, fpt.description)
            fpt.close()
        calls = list(rec.calls)
        out = {"spec": spec, "calls": calls, "meta": enc_meta(*rec.meta[:6]), "trace": log,
               "live": live, "twin": (twin.name, twin.description), "dump": dump_file(path),
               "imports": {}, "views": {}}
        for kind in ("file", "simple"):
            view, obj = real_import(path, kind)
            out["views"][kind] = view
            out["imports"][kind] = None if obj is None else (obj.name, obj.description)
            if obj is not None and kind == "file":
                _close(obj)
        return out
    finally:
        shutil.rmtree(d, ignore_errors=True)


def judge_meta(case):
    """the text assigned last is what the live object, the in-memory twin and both imports say"""
    bad = []
    want = {"name": None, "description": None}
    for kind, _, text in case["calls"]:
        if kind == "N":
            want["name"] = ("__unnamed__" if text is None else text, True)
        elif kind == "D":
            want["description"] = ("__no_description__" if text is None else text, True)
    for i, field in enumerate(("name", "description")):
        expected = want[field][0] if want[field] else case["twin"][i]
        for who, got in (("in-memory twin", case["twin"]), ("live file-backed object", case["live"]),
                         ("import-file", case["imports"]["file"]),
                         ("import-simple", case["imports"]["simple"])):
            if got is None or got[i] != expected:
                bad.append(("%s:%s-set-after-creation-differs" % (who.replace(" ", "-"), field),
                            {"pt": case["spec"],
                             "calls": [(k, t) for k, _, t in case["calls"] if k in ("N", "D")],
                             "field": field, "expected": expected,
                             "got": None if got is None else got[i],
                             "how": "FileProcessTensor(mode='overwrite', ...); assignments to "
                                    ".name/.description between the tensor writes; close(); "
                                    "import_process_tensor"}))
    return bad


# ---------------------------------------------------------------------------
# search: field-by-field and result-by-result comparison with the original
# ---------------------------------------------------------------------------

def judge_roundtrip(spec, kinds=("file", "simple")):
    """property text applied to one process tensor; returns [(key, payload)]"""
    bad = []
    case = export_case(spec, True, "missing")
    try:
        pt = case["pt"]
        if case["err"]:
            return [("export-raises:" + case["err"], {"pt": spec})]
        for kind in kinds:
            from oqupy.process_tensor import import_process_tensor
            with warnings.catch_warnings():
                warnings.simplefilter("ignore")
                try:
                    imp = import_process_tensor(case["path"], kind)
                except Exception as e:
                    bad.append(("import-%s:raises-%s" % (kind, type(e).__name__), {"pt": spec}))
                    continue
            diffs = []
            if len(imp) != len(pt):
                diffs.append("length")
            if imp.dt != pt.dt:
                diffs.append("dt")
            if imp.hilbert_space_dimension != pt.hilbert_space_dimension:
                diffs.append("dimension")
            for a in ("transform_in", "transform_out"):
                x, y = getattr(imp, a), getattr(pt, a)
                if (x is None) != (y is None) or (x is not None and not np.array_equal(x, y)):
                    diffs.append(a)
            if imp.name != pt.name:
                diffs.append("name")
            if imp.description != pt.description:
                diffs.append("description")
            if len(imp) == len(pt):
                def differs(fa, fb):
                    """getter results differ (an exception on the import only counts as different)"""
                    try:
                        y = fb()
                    except Exception as e:
                        y = type(e).__name__
                    try:
                        x = fa()
                    except Exception as e:
                        x = type(e).__name__
                    if isinstance(x, str) and isinstance(y, str):
                        return x != y
                    if isinstance(x, str) or isinstance(y, str):
                        return True
                    if (x is None) != (y is None):
                        return True
                    return x is not None and (x.shape != y.shape or not np.array_equal(x, y))
                for k in range(len(pt)):
                    if differs(lambda: imp.get_mpo_tensor(k), lambda: pt.get_mpo_tensor(k)):
                        diffs.append("mpo tensor %d" % k)
                        break
                for k in range(len(pt) + 2):
                    if differs(lambda: imp.get_cap_tensor(k), lambda: pt.get_cap_tensor(k)):
                        diffs.append("cap tensor %d" % k)
                        break
                if differs(lambda: np.array(imp.get_bond_dimensions()),
                           lambda: np.array(pt.get_bond_dimensions())):
                    diffs.append("bond dimensions")
            for f in diffs:
                bad.append(("import-%s:%s-differs" % (kind, f.split(" ")[0]),
                            {"pt": spec, "import_type": kind, "field": f}))
            ini = imp.get_initial_tensor()
            if ini is not None:
                bad.append(("import-%s:initial-tensor-not-None" % kind,
                            {"pt": spec, "import_type": kind,
                             "initial_tensor": repr(ini),
                             "how": "export() a process tensor without initial tensor, "
                                    "import_process_tensor(file, %r).get_initial_tensor() "
                                    "returns %r" % (kind, ini)}))
            ok, detail = combined_ok(pt, imp)
            if not ok:
                bad.append(("import-%s:combined-with-original" % kind,
                            {"pt": spec, "import_type": kind, "detail": detail,
                             "dt_original": pt.dt, "dt_imported": imp.dt,
                             "how": "compute_dynamics(process_tensor=[original, imported])"}))
            ok, detail = same_dynamics(pt, imp)
            if not ok:
                bad.append(("import-%s:compute_dynamics:%s" % (kind, detail.split(" ")[-1]
                                                                if "raises" in detail else "differs"),
                            {"pt": spec, "import_type": kind, "detail": detail,
                             "how": "compute_dynamics(process_tensor=<imported>) against "
                                    "compute_dynamics(process_tensor=<original>)"}))
            if kind == "file":
                _close(imp)
    finally:
        shutil.rmtree(case["dir"], ignore_errors=True)
    return bad


def judge_getset(rng, n):
    """get(set(t)) = t on the real functions"""
    import h5py
    import oqupy.process_tensor as P
    bad = []
    d = tempfile.mkdtemp(prefix="c16gs_")
    try:
        f = h5py.File(os.path.join(d, "gs.hdf5"), "w")
        data = f.create_dataset("d", (0,), maxshape=(None,), dtype=h5py.vlen_dtype(np.dtype("complex128")))
        shape = f.create_dataset("s", (0,), maxshape=(None,), dtype=h5py.vlen_dtype(np.dtype("i")))
        for i in range(n):
            step = rng.randrange(0, 8)
            rank = rng.randrange(2, 5)
            t = base._rand_arr(rng, tuple(rng.randrange(1, 4) for _ in range(rank)))
            P._set_data_and_shape(step, data, shape, t)
            got = P._get_data_and_shape(step, data, shape)
            if got is None or got.shape != t.shape or not np.array_equal(got, t):
                bad.append(("get-set:tensor", {"step": step, "tensor": tensor_spec(t)}))
                break
        P._set_data_and_shape(2, data, shape, None)
        if P._get_data_and_shape(2, data, shape) is not None:
            bad.append(("get-set:None", {}))
        f.close()
    finally:
        shutil.rmtree(d, ignore_errors=True)
    return bad


def history_case(rng, rank=3, with_tr=False):
    """use -> overwrite a step -> compute_caps -> export -> import, judged against a FRESH
    in-memory process tensor built from the final tensors.  Returns (spec, problems)."""
    import oqupy
    spec = gen_pt_spec(rng, length=rng.randrange(2, 4), rank=rank, max_bond=2, with_tr=with_tr,
                       with_dt=True, square=True)
    pt = build_simple(spec)
    n = len(pt)
    for k in range(n):                       # use it once
        pt.get_mpo_tensor(k)
        pt.get_mpo_tensor(k, transformed=False)
    try:
        dynamics_of(pt)
    except Exception:
        pass
    k0 = rng.randrange(n)
    new = base._rand_arr(rng, tuple(spec["mpos"][k0]["shape"]))
    pt.set_mpo_tensor(k0, new)
    pt.compute_caps()
    final = [tensor_of(m) for m in spec["mpos"]]
    final[k0] = new
    fresh = oqupy.SimpleProcessTensor(
        hilbert_space_dimension=spec["hs"], dt=spec["dt"], transform_in=tensor_of(spec["tin"]),
        transform_out=tensor_of(spec["tout"]), name=spec["name"], description=spec["descr"])
    for k, t in enumerate(final):
        fresh.set_mpo_tensor(k, t)
    fresh.compute_caps()
    problems = []
    d = tempfile.mkdtemp(prefix="c16hist_")
    try:
        path = os.path.join(d, "pt.hdf5")
        pt.export(path, overwrite=True)
        who = [("original", pt)]
        for kind in ("file", "simple"):
            view, obj = real_import(path, kind)
            if obj is None:
                problems.append(("import-" + kind, "import fails: " + view))
            else:
                who.append(("import-" + kind, obj))
        for name, obj in who:
            for k in range(n):
                for tr in (True, False):
                    a = obj.get_mpo_tensor(k, transformed=tr)
                    b = fresh.get_mpo_tensor(k, transformed=tr)
                    if a.ndim == 3:
                        a = oqupy.util.create_delta(a, [0, 1, 2, 2])
                    if a.shape != b.shape or not np.array_equal(a, b):
                        problems.append((name, "mpo tensor %d (the overwritten step is %d)" % (k, k0)))
                        break
                else:
                    continue
                break
            for k in range(n + 1):
                a, b = obj.get_cap_tensor(k), fresh.get_cap_tensor(k)
                if (a is None) != (b is None) or (a is not None and (
                        a.shape != b.shape or np.max(np.abs(a - b)) > 1e-12)):
                    problems.append((name, "cap tensor %d" % k))
                    break
            ok, detail = same_dynamics(fresh, obj)
            if not ok:
                problems.append((name, "dynamics: " + detail))
            if name == "import-file":
                _close(obj)
    finally:
        shutil.rmtree(d, ignore_errors=True)
    return {"pt": spec, "overwritten_step": k0, "new_tensor": tensor_spec(new)}, problems


def _slug(problem):
    import re
    return re.sub(r"\s*\d+$", "", problem.split(":")[0]).strip().replace(" ", "-")


def search(res, rng=None):
    rng = rng or random.Random(res.seed)
    for key, payload in judge_getset(rng, 50):
        res.fail(key, payload)
    for spec in pt_specs("quick", rng):
        for key, payload in judge_roundtrip(spec):
            res.fail(key, payload)
    for i in range(8):
        for key, payload in judge_meta(meta_case(rng)):
            res.fail(key, payload)
    for i in range(6):
        payload, problems = history_case(rng, rank=3 if i % 2 == 0 else 4, with_tr=(i % 4 == 3) and "both")
        for name, p in problems:
            res.fail("history:use-overwrite-export:%s:%s" % (name, _slug(p.split("(")[0].strip())),
                     dict(payload, who=name, problem=p,
                          how="build, use (get_mpo_tensor / compute_dynamics), set_mpo_tensor(step, "
                              "new), compute_caps, export, import; compared with a fresh "
                              "SimpleProcessTensor holding the final tensors"))
    for coupling, steps in (("z", 3), ("y", 2), ("h3", 2)):
        r = pttempo_pair(coupling, steps, None)
        for p in r["problems"]:
            res.fail("pttempo-file-vs-memory:" + _slug(p),
                     {"coupling": coupling, "steps": steps, "problem": p})
        if coupling == "h3":
            continue
        problems, _ = consumers_roundtrip(coupling, steps)
        for kind, p in problems:
            res.fail("import-%s:consumer:%s" % (kind, p.split(":")[0]),
                     {"coupling": coupling, "steps": steps, "import_type": kind, "problem": p,
                      "how": "pt_tempo_compute(...).export(f); import_process_tensor(f, %r) used "
                             "in place of the original" % kind})


def file_vs_simple_caps(res):
    """always run: a file-backed process tensor that computes its OWN caps gives what an in-memory one
    with the same stored tensors gives -- rank-3 and rank-4 tensors, transforms absent / square
    non-unitary / non-square (forced kinds), caps and dynamics"""
    import random as _r
    import oqupy
    from . import run_C03
    rng = _r.Random(1603)
    d, n = 2, 3
    for kind in ("rank3-t", "rank3-nonsquare", "rank4-t", "rank4-nonsquare", "rank3", "mixed-t"):
        spec = run_C03.rand_env_spec(rng, d, n, kind)
        a = run_C03.build_pt(spec, d, n, "simple")
        b = None
        try:
            try:
                b = run_C03.build_pt(spec, d, n, "file")
            except Exception as e:      # noqa: BLE001
                res.fail("file-vs-memory caps: FileProcessTensor.compute_caps raises (%s tensors)" % kind,
                         {"oracle": "file-vs-simple-caps", "kind": kind, "exception": "%s: %s" % (type(e).__name__, e)})
                continue
            worst = 0.0
            for k in range(n + 1):
                ca, cb = a.get_cap_tensor(k), b.get_cap_tensor(k)
                if (ca is None) != (cb is None):
                    worst = float("inf")
                elif ca is not None:
                    worst = max(worst, float(np.abs(np.asarray(ca) - np.asarray(cb)).max()))
            sysm = oqupy.System(np.array([[0.3, 0.2 - 0.1j], [0.2 + 0.1j, -0.3]]))
            rho0 = np.array([[0.6, 0.1 + 0.25j], [0.1 - 0.25j, 0.4]])
            xa = run_C03.run_real(sysm, rho0, [a], n)
            xb = run_C03.run_real(sysm, rho0, [b], n)
            derr = max(float(np.abs(u - v).max()) for u, v in zip(xa, xb))
            scale = max(1.0, max(float(np.abs(u).max()) for u in xa))
            res.case("file-vs-simple-caps:%s" % kind, True, {"caps": worst, "dynamics": derr})
            res.count("file-vs-simple caps:%s" % kind)
            if worst > 1e-10 * scale or derr > 1e-10 * scale:
                res.fail("file-vs-memory caps: compute_caps() of a FileProcessTensor (%s tensors) differs from "
                         "SimpleProcessTensor" % kind,
                         {"oracle": "file-vs-simple-caps", "kind": kind, "max_cap_difference": worst,
                          "max_state_difference": derr,
                          "how": "the same stored tensors and transforms in both classes; compute_caps(); "
                                 "get_cap_tensor(k) and compute_dynamics"})
        finally:
            run_C03.drop_pt(a)
            if b is not None:
                run_C03.drop_pt(b)


def replay_outcome(res):
    """--replay: re-run one recorded failing input against the tree under test (no evidence
    is written)"""
    if res.failing:
        key, payload = res.failing[0]
        path = fw.write_replay(PID, {"property": PID, "key": key, "failing_input": payload,
                                     "broken": ["replay"], "seed": res.seed})
        fw.log("VIOLATION property=%s replay=%s" % (PID, path))
        return 1
    fw.log("OK property=%s replay no longer fails" % PID)
    return 0


def run(tier, seed, replay):
    res = fw.Result(PID, tier, seed, level="proof")
    rng = random.Random(seed)
    if replay:
        payload = json.load(open(replay))
        spec = payload.get("failing_input", {}).get("pt")
        if spec is not None:
            for key, p in judge_roundtrip(spec):
                res.fail(key, p)
        return replay_outcome(res)
    res.rule = ("real _set_data_and_shape/_get_data_and_shape on h5py datasets (random slots, "
                "tensors of rank 0-4, None, a genuine one-entry NaN vector, non-contiguous views) "
                "vs the model: operations issued, dataset rows and every get, exactly; real "
                "export() of hand-built process tensors (rank-3 and rank-4, lengths 1-6, bond "
                "dimensions 1-4, with/without dt, transforms, names; fresh/overwritten paths): "
                "h5py operation trace and every attribute and dataset of the file, exactly (no "
                "arithmetic is involved); import_process_tensor of both types: every observable "
                "of the imported object vs the model's view, exactly; imported objects in "
                "compute_dynamics vs the original (1e-12) against the model's `usable`; a real "
                "pt_tempo_compute into a file vs in memory (metadata, bond dimensions, "
                "dynamics to 1e-12; individual tensors are gauge dependent) and the recorded set_* calls replayed through the model on "
                "both representations; compute_correlations, compute_gradient_and_dynamics and PtTebd on "
                "imported PT-TEMPO tensors vs the original (1e-12); histories use -> overwrite a step -> "
                "compute_caps -> export -> import judged against a fresh process tensor built from "
                "the final tensors (original and both imports).  Distinct = distinct protocol "
                "line.")
    res.assumptions = [
        "h5py stores/returns complex128 and int32 variable-length rows bit-exactly; a new row "
        "of a variable-length dataset is the empty array",
        "numpy reshape(-1)/reshape(shape) are inverse on C-ordered logical content",
        "tensor entries are finite or NaN (no infinities); all NaN payloads are identified",
    ]
    res.not_shown = [
        "consumers other than compute_dynamics (correlations, gradient, PT-TEBD) are run on "
        "imported PT-TEMPO tensors only (1 in the quick tier, 4 in the thorough tier), not on the "
        "hand-built ones; they read the process tensor through the same getters",
        "a cap tensor that is literally a one-entry NaN vector is read back as None "
        "(get_set_tensor characterises it); such a cap only arises from a NaN computation",
        "that PT-TEMPO computes the same process tensor in a file-backed and an in-memory run "
        "is observed through the dynamics (1e-12; the individual tensors differ by a bond gauge "
        "between any two runs), not proved: the theorem covers the set/get bookkeeping for any "
        "sequence of calls",
    ]
    fw.standard_pipeline(res, ["FileFlags"], THEOREMS)
    built = all(o[1] for o in res.obligations if o[0].startswith("translator"))
    try:
        if built:
            correspondence(res, tier, rng)
        else:
            res.notes.append("correspondence skipped: generated model unavailable")
    except fw.Infra as e:
        res.oblige("correspondence run", False, str(e))
    except Exception:        # the real code (or the harness on it) raised where it should not
        import traceback
        res.oblige("correspondence run", False, traceback.format_exc()[-1500:])
    file_vs_simple_caps(res)
    return fw.finish(res, search)
