"""Generators of physical test cases (systems, baths, parameters) for the tensor-model
correspondences (C01, C02, C04, C05, C06).  Every choice derives from one random.Random."""
import numpy as np
import oqupy
from oqupy import operators as op


def rand_herm(rng, d, scale=1.0):
    a = np.array([[rng.gauss(0, 1) + 1j * rng.gauss(0, 1) for _ in range(d)] for _ in range(d)])
    return scale * (a + a.conj().T) / 2


def rand_unitary(rng, d):
    a = np.array([[rng.gauss(0, 1) + 1j * rng.gauss(0, 1) for _ in range(d)] for _ in range(d)])
    q, r = np.linalg.qr(a)
    return q * (np.diag(r) / np.abs(np.diag(r)))


def rand_dm(rng, d, kind=None):
    kind = kind or rng.choice(["pure", "mixed", "rankdef"])
    if kind == "pure":
        v = np.array([rng.gauss(0, 1) + 1j * rng.gauss(0, 1) for _ in range(d)])
        rho = np.outer(v, v.conj())
    else:
        r = d if kind == "mixed" else max(1, d - 1)
        a = np.array([[rng.gauss(0, 1) + 1j * rng.gauss(0, 1) for _ in range(r)] for _ in range(d)])
        rho = a @ a.conj().T
    return rho / np.trace(rho)


def rand_correlations(rng):
    kind = rng.choice(["ohmic", "superohmic", "subohmic", "custom"])
    temp = rng.choice([0.0, 0.0, rng.uniform(0.1, 3.0)])
    alpha = rng.choice([0.05, 0.3, 1.0, rng.uniform(0.01, 1.2)])
    cutoff_type = rng.choice(["exponential", "gaussian", "hard"])
    zeta = {"ohmic": 1.0, "superohmic": 3.0, "subohmic": 0.5, "custom": 1.0}[kind]
    wc = rng.uniform(1.0, 5.0)
    if kind == "custom":
        c = oqupy.CustomSD(lambda w, a=alpha, wc=wc: 2 * a * w * np.exp(-w / wc), cutoff=wc,
                           cutoff_type="exponential", temperature=temp)
        desc = ("customSD", alpha, wc, temp)
    else:
        c = oqupy.PowerLawSD(alpha=alpha, zeta=zeta, cutoff=wc, cutoff_type=cutoff_type,
                             temperature=temp)
        desc = ("powerlaw", alpha, zeta, wc, cutoff_type, temp)
    return c, desc


def rand_coupling(rng, d, kind=None):
    """(operator, kind) — kind in diag / diag-degenerate / nondiag / nondiag-degenerate"""
    kind = kind or rng.choice(["diag", "diag", "diag-degenerate", "nondiag"])
    if "degenerate" in kind and d >= 3:
        ev = [rng.choice([-0.5, 0.5]) for _ in range(d)]
        ev[0], ev[1] = 0.5, 0.5
    elif "degenerate" in kind:
        ev = [0.5, 0.5] if rng.random() < 0.3 else [0.5, -0.5]
    else:
        ev = sorted({round(rng.uniform(-1, 1), 3) for _ in range(4 * d)})[:d]
        rng.shuffle(ev)
    o = np.diag(np.array(ev, dtype=complex))
    if kind.startswith("nondiag"):
        v = rand_unitary(rng, d)
        o = v @ o @ v.conj().T
        o = (o + o.conj().T) / 2
    return o, kind


def rand_system(rng, d, time_dependent=None, commuting_with=None):
    """System or TimeDependentSystem, with random Lindblad terms."""
    if time_dependent is None:
        time_dependent = rng.random() < 0.4
    h0 = rand_herm(rng, d, 0.8)
    h1 = rand_herm(rng, d, 0.5)
    if commuting_with is not None:
        w, v = np.linalg.eigh(commuting_with)
        h0 = v @ np.diag([rng.uniform(-1, 1) for _ in range(d)]) @ v.conj().T
        h1 = v @ np.diag([rng.uniform(-1, 1) for _ in range(d)]) @ v.conj().T
    nl = rng.choice([0, 0, 1, 2]) if commuting_with is None else 0
    lops = [np.array([[rng.gauss(0, 1) + 1j * rng.gauss(0, 1) for _ in range(d)] for _ in range(d)]) / d
            for _ in range(nl)]
    gam = [rng.uniform(0.05, 0.5) for _ in range(nl)]
    if not time_dependent:
        return oqupy.System(h0, gammas=gam, lindblad_operators=lops), "const"
    w = rng.uniform(0.5, 3.0)
    ham = lambda t, h0=h0, h1=h1, w=w: h0 + np.cos(w * t) * h1
    gfs = [(lambda t, g=g, w=w: g * (1.0 + 0.5 * np.sin(w * t))) for g in gam]
    lfs = [(lambda t, l=l: l) for l in lops]
    return oqupy.TimeDependentSystem(ham, gammas=gfs, lindblad_operators=lfs), "timedep"


def rand_memory(rng, n):
    """(dkmax, add_correlation_time) on either side of n"""
    dkmax = rng.choice([None, 1, 2, max(1, n - 1), n, n + 1, n + 3])
    tau = None
    if dkmax is not None:
        tau = rng.choice([None, None, 0.0, rng.uniform(0.01, 0.5), np.inf])
    return dkmax, tau


def physical_case(rng, tier, d=None, n=None, **kw):
    d = d or rng.choice([2, 2, 2, 3] if tier == "quick" else [2, 2, 3, 3])
    nmax = {2: 4, 3: 3}.get(d, 2) if tier != "quick" else {2: 3, 3: 2}.get(d, 2)
    n = n or rng.randrange(2, nmax + 1)
    coupling, ckind = rand_coupling(rng, d, kw.get("coupling_kind"))
    corr, cdesc = rand_correlations(rng)
    system, skind = rand_system(rng, d, kw.get("time_dependent"),
                                commuting_with=coupling if kw.get("commuting") else None)
    dkmax, tau = rand_memory(rng, n)
    dt = rng.choice([0.1, 0.05, 0.2, round(rng.uniform(0.02, 0.3), 3)])
    start = rng.choice([0.0, 0.0, 0.3, -1.2, round(rng.uniform(-2, 2), 2)])
    rho0 = rand_dm(rng, d)
    desc = {"d": d, "n": n, "coupling": ckind, "bath": cdesc, "system": skind,
            "dkmax": dkmax, "add_correlation_time": tau, "dt": dt, "start_time": start}
    return dict(d=d, n=n, coupling=coupling, correlations=corr, system=system, dkmax=dkmax,
                tau=tau, dt=dt, start=start, rho0=rho0, desc=desc)


def end_time(case):
    return case["start"] + (case["n"] + 0.5) * case["dt"]


def make_tempo(case, unique=False, epsrel=1e-13):
    bath = oqupy.Bath(case["coupling"], case["correlations"])
    par = oqupy.TempoParameters(dt=case["dt"], epsrel=epsrel, dkmax=case["dkmax"],
                                add_correlation_time=case["tau"])
    return oqupy.Tempo(case["system"], bath, par, case["rho0"], start_time=case["start"],
                       unique=unique)


def make_pt(case, unique=False, epsrel=1e-13):
    bath = oqupy.Bath(case["coupling"], case["correlations"])
    par = oqupy.TempoParameters(dt=case["dt"], epsrel=epsrel, dkmax=case["dkmax"],
                                add_correlation_time=case["tau"])
    return oqupy.pt_tempo_compute(bath=bath, start_time=case["start"], end_time=end_time(case),
                                  parameters=par, unique=unique, progress_type="silent")
