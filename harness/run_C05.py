"""C05 — basis covariance; every Hermitian coupling operator accepted.  DESIGN.md §4 C05."""
import random
import numpy as np
from . import framework as fw
from .framework import parse_rat

PID = "C05"
THEOREMS = ["OQuPyVerif.Props.C05.covariance", "OQuPyVerif.Props.C05.rot_mul",
            "OQuPyVerif.Props.C05.tempoState_eigen_form", "OQuPyVerif.Props.C05.diag_choice_indep",
            "OQuPyVerif.PathSum.pathState_gauge_table", "OQuPyVerif.PathSum.pathState_gauge_single"]
RES_TOL = 1e-18          # squared moduli


def structured_unitary(rng, d, kind=None):
    kind = kind or rng.choice(["haar", "perm", "hadamard", "phase", "block", "real-rot", "near-identity"])
    from . import cases
    if kind == "near-identity":
        # a basis that differs from the eigenbasis only slightly: exp(-i theta G), theta small but
        # far above rounding (the off-diagonal part of the operator must not be dropped)
        from scipy.linalg import expm
        g = cases.rand_herm(rng, d, 1.0)
        theta = 10 ** rng.uniform(-5, -2)
        return expm(-1j * theta * g), kind
    if kind == "haar":
        return cases.rand_unitary(rng, d), kind
    if kind == "perm":
        p = list(range(d)); rng.shuffle(p)
        return np.eye(d, dtype=complex)[p], kind
    if kind == "hadamard":
        f = np.array([[np.exp(2j * np.pi * a * b / d) for b in range(d)] for a in range(d)]) / np.sqrt(d)
        return f, kind
    if kind == "phase":
        return np.diag([np.exp(1j * rng.uniform(0, 6.28)) for _ in range(d)]), kind
    if kind == "block":
        u = np.eye(d, dtype=complex)
        u[:2, :2] = cases.rand_unitary(rng, 2)
        return u, kind
    th = rng.uniform(0, 6.28)
    u = np.eye(d, dtype=complex)
    u[0, 0], u[0, 1], u[1, 0], u[1, 1] = np.cos(th), -np.sin(th), np.sin(th), np.cos(th)
    return u, kind


def eig_multiset(rng, d):
    kind = rng.choice(["distinct", "one-repeat", "all-equal", "zeros", "two-pairs", "near-zero-sum"])
    if kind == "distinct":
        ev = rng.sample([k / 4 for k in range(-8, 9)], d)
    elif kind == "one-repeat":
        ev = rng.sample([k / 4 for k in range(-8, 9)], d)
        ev[1] = ev[0]
    elif kind == "all-equal":
        ev = [rng.choice([0.5, -1.0, 0.0])] * d
    elif kind == "zeros":
        ev = [0.0] * (d - 1) + [rng.choice([1.0, -0.5])]
    elif kind == "two-pairs":
        ev = [0.5, 0.5, -0.5, -0.5, 0.25][:d]
    else:
        ev = [1.0, -1.0, 0.0, 0.5, -0.5][:d]
    rng.shuffle(ev)
    return ev, kind


def gen_coupling(rng, vkind=None):
    d = rng.choice([2, 3, 4, 5])
    ev, ek = eig_multiset(rng, d)
    v, vk = structured_unitary(rng, d, vkind)
    o = v @ np.diag(np.array(ev, dtype=complex)) @ v.conj().T
    o = (o + o.conj().T) / 2
    return d, ev, ek, vk, o


def bath_of(o):
    import oqupy
    return oqupy.Bath(o, oqupy.CustomCorrelations(lambda t: 1.0))


def corr_diag(res, tier, rng):
    from . import tensors
    n = 60 if tier == "quick" else 400
    lines, meta = [], []
    for j in range(n):
        d, ev, ek, vk, o = gen_coupling(rng, "near-identity" if j < 4 else None)
        key = "%s/%s/d=%d" % (ek, vk, d)
        res.count("bath:" + key)
        try:
            b = bath_of(o)
        except AssertionError as e:
            res.disagree("Bath rejects a Hermitian coupling operator (%s)" % key,
                         {"operator_re": o.real.tolist(), "operator_im": o.imag.tolist(),
                          "eigenvalues": ev, "error": str(e)[:200]})
            continue
        u, w = b.unitary_transform, np.diag(b.coupling_operator)
        lines.append("diag %d | %s | %s | %s" % (d, tensors.flat(u), tensors.flat(w), tensors.flat(o)))
        meta.append((key, o, ev))
    out = fw.run_driver(PID, lines) if lines else []
    for (key, o, ev), g in zip(meta, out):
        toks = g.split()
        r = {toks[i]: float(parse_rat(toks[i + 1])) for i in range(0, 6, 2)}
        res.case("diag:" + key + repr(ev), True, {"case": key, "eigenvalues": ev, "residuals_sq": r})
        bad = {k: v for k, v in r.items() if v > RES_TOL}
        if bad:
            res.disagree("Bath's diagonalisation does not satisfy IsDiagonalisation (%s): %s" % (key, bad),
                         {"operator_re": o.real.tolist(), "operator_im": o.imag.tolist(),
                          "eigenvalues": ev, "residuals_sq": r})


def corr_covariance(res, tier, rng):
    """real rotated vs unrotated runs against the model statement ρ' = W ρ"""
    import oqupy
    from . import cases, tensors
    ncase = 4 if tier == "quick" else 25
    lines, meta = [], []
    for i in range(ncase):
        case = cases.physical_case(rng, tier, coupling_kind="diag")
        d, n = case["d"], case["n"]
        v, vk = structured_unitary(rng, d)
        if i == 0:
            # always present: decay channels with complex Lindblad operators, a complex (Haar)
            # change of basis
            while not case["system"].lindblad_operators:
                case["system"], case["desc"]["system"] = cases.rand_system(rng, d)
            v, vk = cases.rand_unitary(rng, d), "haar"
        unique = bool(i % 2)           # both degeneracy settings see rotated bases
        t0 = cases.make_tempo(case, unique=unique)
        rot = dict(case)
        rot["coupling"] = v @ case["coupling"] @ v.conj().T
        rot["coupling"] = (rot["coupling"] + rot["coupling"].conj().T) / 2
        rot["rho0"] = v @ case["rho0"] @ v.conj().T
        s = case["system"]
        if isinstance(s, oqupy.System):
            rot["system"] = oqupy.System(v @ s.hamiltonian @ v.conj().T, gammas=s.gammas,
                                         lindblad_operators=[v @ l @ v.conj().T for l in s.lindblad_operators])
        else:
            rot["system"] = oqupy.TimeDependentSystem(
                lambda t, h=s.hamiltonian: v @ h(t) @ v.conj().T, gammas=s.gammas,
                lindblad_operators=[(lambda t, l=l: v @ l(t) @ v.conj().T) for l in s.lindblad_operators])
        try:
            t1 = cases.make_tempo(rot, unique=unique)
        except AssertionError as e:
            res.disagree("Bath rejects the rotated coupling operator", {"case": case["desc"], "V": vk})
            continue
        lines += [tensors.tempo_line(t0, n), tensors.tempo_line(t1, n)]
        d0 = t0.compute(cases.end_time(case), progress_type="silent").states
        d1 = t1.compute(cases.end_time(case), progress_type="silent").states
        # PT-TEMPO + compute_dynamics on the rotated problem (its basis change lives in the
        # process tensor's transforms)
        pt1 = cases.make_pt(rot, unique=unique)
        p1 = oqupy.compute_dynamics(rot["system"], initial_state=rot["rho0"], process_tensor=pt1,
                                    start_time=rot["start"], num_steps=n, progress_type="silent").states
        ept = max(np.abs(np.array(a) - np.array(b)).max() for a, b in zip(d1, p1))
        if ept > 1e-8:
            res.disagree("rotated problem: PT-TEMPO + compute_dynamics differs from TEMPO by %g"
                         % ept, {"case": case["desc"], "V": vk})
        meta.append((case["desc"], vk, v, d0, d1))
        res.count("cov:V=%s:d=%d:unique=%s" % (vk, d, unique))
    out = fw.run_driver("PathSum", lines)
    for i, (desc, vk, v, d0, d1) in enumerate(meta):
        L = desc["d"] ** 2
        m0 = tensors.parse_states(out[2 * i], L)
        m1 = tensors.parse_states(out[2 * i + 1], L)
        dd = desc["d"]
        e_model = max(np.abs(v @ a.reshape(dd, dd) @ v.conj().T - b.reshape(dd, dd)).max()
                      for a, b in zip(m0, m1))
        e_real0 = max(np.abs(np.array(a).reshape(-1) - b).max() for a, b in zip(d0, m0))
        e_real1 = max(np.abs(np.array(a).reshape(-1) - b).max() for a, b in zip(d1, m1))
        res.case(repr(desc) + vk, True, {"case": desc, "V": vk, "model_rotated_vs_V.model.V†": e_model,
                                         "Tempo_vs_model": e_real0, "Tempo_rotated_vs_model": e_real1})
        if e_real0 > 1e-8 or e_real1 > 1e-8:
            res.disagree("Tempo differs from the path-sum model (%g, %g)" % (e_real0, e_real1), desc)
        if e_model > 1e-9:
            res.disagree("model states of the rotated problem are not the rotated states (%g): the "
                         "hypotheses of `covariance` are not met by the Bath's transform" % e_model, desc)


def relations(res, rng):
    """always-run relations between real runs under a change of basis:
    (a) parameters guessed by the library (guess_tempo_parameters) do not depend on the basis;
    (b) a process tensor for a rotated problem may be contracted more than once."""
    import warnings
    import oqupy
    from oqupy import operators as op
    from . import cases
    d = 3
    h = cases.rand_herm(rng, d, 1.0)
    o = np.diag([1.0, 0.0, -0.5]).astype(complex)
    corr = oqupy.PowerLawSD(alpha=0.1, zeta=1.0, cutoff=4.0, cutoff_type="exponential", temperature=0.2)
    got = []
    for k in range(3):
        v = np.eye(d, dtype=complex) if k == 0 else cases.rand_unitary(rng, d)
        ov = v @ o @ v.conj().T
        with warnings.catch_warnings():
            warnings.simplefilter("ignore")
            par = oqupy.guess_tempo_parameters(bath=oqupy.Bath((ov + ov.conj().T) / 2, corr),
                                               start_time=0.0, end_time=2.0,
                                               system=oqupy.System(v @ h @ v.conj().T), tolerance=3e-3)
        got.append((par.dt, par.dkmax))
    res.case("relation:guess-parameters", True, {"(dt, dkmax) per basis": got})
    if any(abs(g[0] - got[0][0]) > 1e-9 * got[0][0] or g[1] != got[0][1] for g in got[1:]):
        res.fail("covariance:guess_tempo_parameters depends on the basis",
                 {"api": "guess_tempo_parameters", "dt_dkmax_per_basis": got,
                  "bases": "identity and two Haar unitaries, 3-level system"})
    # (b)
    v = cases.rand_unitary(rng, 2)
    o2 = v @ (0.5 * op.sigma("z")) @ v.conj().T
    bath = oqupy.Bath((o2 + o2.conj().T) / 2, corr)
    sysm = oqupy.System(v @ (0.4 * op.sigma("x")) @ v.conj().T)
    par = oqupy.TempoParameters(dt=0.1, epsrel=1e-9, dkmax=None)
    rho = v @ op.spin_dm("y+") @ v.conj().T
    ref = np.array(oqupy.Tempo(sysm, bath, par, rho, start_time=0.0).compute(
        0.43, progress_type="silent").states)
    pt = oqupy.pt_tempo_compute(bath=bath, start_time=0.0, end_time=0.43, parameters=par,
                                progress_type="silent")
    # the same process tensor computed straight into a file (its read path is separate)
    ptf = oqupy.pt_tempo_compute(bath=bath, start_time=0.0, end_time=0.43, parameters=par,
                                 process_tensor_file=True, progress_type="silent")
    try:
        stf = np.array(oqupy.compute_dynamics(sysm, initial_state=rho, process_tensor=ptf,
                                              start_time=0.0, progress_type="silent").states)
    finally:
        ptf.close()
        try:
            ptf.remove()
        except Exception:                                   # noqa: BLE001 - temp file clean-up only
            pass
    err = float(np.abs(stf - ref).max())
    res.case("relation:pt-file", True, {"difference_to_Tempo": err})
    if err > 1e-6:
        res.fail("covariance:PtTempo: file-backed process tensor of a rotated problem",
                 {"api": "pt_tempo_compute(process_tensor_file=True) + compute_dynamics",
                  "difference": err})
    # (c) mean-field TEMPO: rotating the problem of every species rotates its states, the field
    #     is unchanged
    vm = cases.rand_unitary(rng, 2)
    out = {}
    for tag, w in (("plain", np.eye(2, dtype=complex)), ("rotated", vm)):
        wd = w.conj().T
        tsys = oqupy.TimeDependentSystemWithField(
            lambda t, a, w=w, wd=wd: w @ (0.4 * op.sigma("x") + 0.2 * np.real(a) * op.sigma("z")) @ wd)
        mfs = oqupy.MeanFieldSystem(
            [tsys], lambda t, st, a, w=w, wd=wd: -0.2j * a + 0.1 * np.trace(w @ op.sigma("x") @ wd @ st[0]))
        ob = w @ (0.5 * op.sigma("z") + 0.1 * op.sigma("x")) @ wd
        mft = oqupy.MeanFieldTempo(mean_field_system=mfs,
                                   bath_list=[oqupy.Bath((ob + ob.conj().T) / 2, corr)],
                                   initial_state_list=[w @ op.spin_dm("y+") @ wd], initial_field=1.0,
                                   start_time=0.0,
                                   parameters=oqupy.TempoParameters(dt=0.1, epsrel=1e-9, dkmax=3))
        dyn = mft.compute(0.43, progress_type="silent")
        out[tag] = (np.array(dyn.system_dynamics[0].states), np.array(dyn.fields))
    back = np.array([vm.conj().T @ st @ vm for st in out["rotated"][0]])
    err_s = float(np.abs(back - out["plain"][0]).max())
    err_f = float(np.abs(out["rotated"][1] - out["plain"][1]).max())
    res.case("relation:mean-field-covariance", True, {"states": err_s, "field": err_f})
    if err_s > 1e-6 or err_f > 1e-6:
        res.fail("covariance:MeanFieldTempo under a Haar change of basis",
                 {"api": "MeanFieldTempo", "state_difference": err_s, "field_difference": err_f})
    # (d) two mean-field species whose couplings have the SAME spectrum but different eigenvectors
    #     (0.5 sigma_x and a rotated 0.5 sigma_y), systems independent of the field: each species
    #     must be what plain Tempo gives for its own bath
    vy = cases.rand_unitary(rng, 2)
    coups = [0.5 * op.sigma("x"), vy @ (0.5 * op.sigma("y")) @ vy.conj().T]
    coups = [(c + c.conj().T) / 2 for c in coups]
    hams = [0.4 * op.sigma("z") + 0.1 * op.sigma("x"), 0.3 * op.sigma("x") - 0.2 * op.sigma("z")]
    rhos = [op.spin_dm("z+"), op.spin_dm("y+")]
    parm = oqupy.TempoParameters(dt=0.1, epsrel=1e-9, dkmax=3)
    mfs = oqupy.MeanFieldSystem([oqupy.TimeDependentSystemWithField(lambda t, a, h=h: h) for h in hams],
                                lambda t, st, a: -0.1j * a)
    dynm = oqupy.MeanFieldTempo(mean_field_system=mfs, bath_list=[oqupy.Bath(c, corr) for c in coups],
                                initial_state_list=rhos, initial_field=0.5, start_time=0.0,
                                parameters=parm).compute(0.43, progress_type="silent")
    for j in range(2):
        refj = np.array(oqupy.Tempo(oqupy.System(hams[j]), oqupy.Bath(coups[j], corr), parm, rhos[j],
                                    start_time=0.0).compute(0.43, progress_type="silent").states)
        errj = float(np.abs(np.array(dynm.system_dynamics[j].states) - refj).max())
        res.case("relation:mean-field-isospectral:%d" % j, True, {"species": j, "difference_to_Tempo": errj})
        if errj > 1e-6:
            res.fail("covariance:MeanFieldTempo: species %d of two with isospectral non-diagonal couplings" % j,
                     {"api": "MeanFieldTempo", "couplings": "0.5 sigma_x and a Haar-rotated 0.5 sigma_y",
                      "species": j, "difference_to_plain_Tempo": errj})
            break
    # (e) couplings written in a structured basis in which diagonal ENTRIES coincide although the
    #     eigenvalues differ (Hadamard-rotated sigma_z, Fourier-rotated diag(1,1,-0.5)): unique=True
    f3 = np.array([[np.exp(2j * np.pi * a * b / 3) for b in range(3)] for a in range(3)]) / np.sqrt(3)
    for name, cpl, hh in (("sigma_x", op.sigma("x").astype(complex), 0.4 * op.sigma("z") + 0.2 * op.sigma("y")),
                          ("Fourier-rotated diag(1,1,-0.5)", f3 @ np.diag([1.0, 1.0, -0.5]) @ f3.conj().T,
                           cases.rand_herm(rng, 3, 0.8))):
        cpl = (cpl + cpl.conj().T) / 2
        dd = cpl.shape[0]
        r0 = np.full((dd, dd), 1.0 / dd, dtype=complex) * 0.5 + np.eye(dd) * 0.5 / dd
        outs = {}
        for uq in (True, False):
            outs["tempo", uq] = np.array(oqupy.Tempo(oqupy.System(hh), oqupy.Bath(cpl, corr), parm, r0,
                                                     start_time=0.0, unique=uq).compute(
                                                         0.43, progress_type="silent").states)
            ptu = oqupy.pt_tempo_compute(bath=oqupy.Bath(cpl, corr), start_time=0.0, end_time=0.43,
                                         parameters=parm, unique=uq, progress_type="silent")
            outs["pt", uq] = np.array(oqupy.compute_dynamics(oqupy.System(hh), initial_state=r0,
                                                             process_tensor=ptu, start_time=0.0,
                                                             progress_type="silent").states)
        for api in ("tempo", "pt"):
            erru = float(np.abs(outs[api, True] - outs[api, False]).max())
            res.case("relation:structured-basis:%s:%s" % (api, name), True, {"unique_vs_not": erru})
            if erru > 1e-6:
                res.fail("covariance:%s with unique=True, coupling %s" % (api, name),
                         {"api": api, "coupling": name, "difference_unique_vs_not": erru})
    for use in (1, 2, 3):
        st = np.array(oqupy.compute_dynamics(sysm, initial_state=rho, process_tensor=pt,
                                             start_time=0.0, progress_type="silent").states)
        err = float(np.abs(st - ref).max())
        res.case("relation:pt-reuse:%d" % use, True, {"use": use, "difference_to_Tempo": err})
        if err > 1e-6:
            res.fail("covariance:PtTempo: process tensor of a rotated problem contracted a "
                     "%s time" % {1: "first", 2: "second", 3: "third"}[use],
                     {"api": "pt_tempo_compute + compute_dynamics", "use": use, "difference": err})
            break


def search(res):
    import oqupy
    from . import cases
    rng = random.Random(res.seed + 505)
    # (a) every Hermitian coupling operator is accepted, transform unitary, reproduces the operator
    for i in range(300):
        d, ev, ek, vk, o = gen_coupling(rng, "near-identity" if i < 12 else None)
        try:
            b = bath_of(o)
        except AssertionError as e:
            res.fail("Bath-rejects-hermitian:%s" % ek,
                     {"operator_re": o.real.tolist(), "operator_im": o.imag.tolist(),
                      "eigenvalues": ev, "unitary_kind": vk, "error": str(e)[:200]})
            continue
        u, w = b.unitary_transform, np.diag(b.coupling_operator)
        r1 = np.abs(u @ u.conj().T - np.eye(d)).max()
        r2 = np.abs(u @ np.diag(w) @ u.conj().T - o).max()
        r3 = np.abs(np.imag(w)).max()
        if max(r1, r2, r3) > 1e-9:
            res.fail("Bath-transform-not-a-diagonalisation:%s" % ek,
                     {"operator_re": o.real.tolist(), "operator_im": o.imag.tolist(),
                      "eigenvalues": ev, "unitarity": r1, "reconstruction": r2, "imag": r3})
    # (b) rotated vs unrotated runs
    for i in range(8):
        case = cases.physical_case(rng, "quick", coupling_kind=rng.choice(["diag", "diag-degenerate"]),
                                   time_dependent=False)
        d = case["d"]
        if i < 2:
            while not case["system"].lindblad_operators:
                case["system"], case["desc"]["system"] = cases.rand_system(rng, d, time_dependent=False)
            case["desc"]["lindblad_operators"] = len(case["system"].lindblad_operators)
        v = cases.rand_unitary(rng, d)
        s = case["system"]
        if not isinstance(s, oqupy.System):
            continue
        rot = dict(case, coupling=v @ case["coupling"] @ v.conj().T, rho0=v @ case["rho0"] @ v.conj().T,
                   system=oqupy.System(v @ s.hamiltonian @ v.conj().T, gammas=s.gammas,
                                       lindblad_operators=[v @ l @ v.conj().T for l in s.lindblad_operators]))
        rot["coupling"] = (rot["coupling"] + rot["coupling"].conj().T) / 2
        uq = bool(i % 2)
        try:
            a = cases.make_tempo(case, unique=uq, epsrel=1e-10).compute(cases.end_time(case), progress_type="silent").states
            b = cases.make_tempo(rot, unique=uq, epsrel=1e-10).compute(cases.end_time(case), progress_type="silent").states
        except AssertionError as e:
            res.fail("Bath-rejects-hermitian:rotated-run", {"case": case["desc"], "error": str(e)[:200]})
            continue
        err = max(np.abs(v @ np.array(x) @ v.conj().T - np.array(y)).max() for x, y in zip(a, b))
        if err > 1e-6:
            res.fail("covariance:Tempo:unique=%s" % uq, {"case": case["desc"], "unique": uq,
                                                          "difference": err})
        ptr = cases.make_pt(rot, unique=uq, epsrel=1e-10)
        c = oqupy.compute_dynamics(rot["system"], initial_state=rot["rho0"], process_tensor=ptr,
                                   start_time=rot["start"], progress_type="silent").states
        err = max(np.abs(v @ np.array(x) @ v.conj().T - np.array(y)).max() for x, y in zip(a, c))
        if err > 1e-6:
            res.fail("covariance:PtTempo:unique=%s" % uq, {"case": case["desc"], "unique": uq,
                                                            "difference": err})


def run(tier, seed, replay):
    res = fw.Result(PID, tier, seed, level="proof")
    rng = random.Random(seed)
    res.rule = ("(1) Hermitian coupling operators of dimension 2..5 with eigenvalue multisets {distinct, one "
                "repeat, all equal, zeros, two pairs, symmetric} conjugated by {Haar, permutation, Fourier, "
                "phase, block, real rotation} unitaries: the real Bath's (unitary_transform, "
                "coupling_operator) shipped to Lean, IsDiagonalisation residuals evaluated exactly "
                "(must be < 1e-18 squared); a rejected operator counts as disagreement. "
                "(2) rotated vs unrotated problems: real Tempo vs tempoState for both, and "
                "model(rotated) = V model V† (the conclusion of `covariance`); forced: decay channels with "
                "complex Lindblad operators under a Haar basis change, nearly diagonal couplings.  "
                "(3) always-run relations: guessed parameters do not depend on the basis; a process tensor "
                "of a rotated problem contracted three times.")
    res.assumptions = ["LAPACK eigh returns an orthonormal eigenbasis: checked per run on the Bath's "
                       "output, not proved"]
    res.not_shown = ["covariance of mean-field TEMPO and PT-TEMPO is inherited through the shared kernels "
                     "(C02/C09); no separate theorem"]
    fw.standard_pipeline(res, [], THEOREMS)
    try:
        corr_diag(res, tier, rng)
        corr_covariance(res, tier, rng)
        relations(res, random.Random(seed + 55))
    except fw.Infra as e:
        res.oblige("correspondence run", False, str(e))
    return fw.finish(res, search)
