"""C19 — no computation leaves background activity behind.  See DESIGN.md §4 C19.

Correspondence
  (i)  every API that calls get_progress x progress type x injected failure (user callable
       raising at its k-th invocation, bad tensor shape, missing cap tensor), run in-process
       on tiny models; per progress object the sequence of enter/update/exit calls, the
       timers it created and their final state are compared with the model
       (`api` op of Drivers/C19.lean: generated guarding style + generated protocol);
  (ii) the real ProgressBar is driven statement by statement through thread schedules
       (fake `Timer` at oqupy.util.Timer whose callbacks the harness fires, every thread
       gated at the source lines of the generated micro-ops with sys.settrace); the harness
       explores the schedules of the real code depth-first on its own and the Lean model
       replays each of them: enabled-action sets, timer states, `_timer`, `_active`, lock and
       next statement of every thread are compared after every step.
search(): the same two enumerations judged against the property text only.
"""
import os
os.environ.setdefault("OMP_NUM_THREADS", "1")        # tiny matrices: BLAS threads only cost
os.environ.setdefault("OPENBLAS_NUM_THREADS", "1")
import concurrent.futures as CF
import contextlib
import io
import json
import multiprocessing
import os
import random
import subprocess
import sys
import threading
import time

from . import framework as fw

PID = "C19"
P = "OQuPyVerif.Props.C19."
THEOREMS = [P + t for t in (
    "all_apis_guarded", "bar_is_locked_protocol", "progress_kinds",
    "guarded_api_quiescent", "unguarded_failure_skips_exit",
    "no_timer_after_exit", "exit_returns_callbacks_drain", "interpreter_can_exit",
    "api_leaves_nothing_behind", "silent_simple_trivial", "legacy_protocol_leaks",
    "all_spawns_covered", "executors_leave_no_worker", "stored_executor_leaks",
    "exit_never_suppresses", "failure_reaches_caller", "truthy_exit_swallows")]

PTYPES = ["silent", "simple", "bar"]
WAIT = 120.0         # seconds the scheduler waits for a gated thread (infrastructure limit)


# ---------------------------------------------------------------------------
# (i) API runs with injected failures
# ---------------------------------------------------------------------------

class ApiObservation:
    def __init__(self):
        self.objects = []       # one dict per progress object, in order of construction
        self.raised = None
        self.extra_threads = [] # alive non-main threads the instrumentation did not attribute
        self.pools = []         # one dict per executor pool the library created
        self.fault_calls = {}
        self.fault_fired = False
        self.hung = False       # the call did not return within the limit
        self.hung_in = []


def _state_char(t):
    """threading.Timer -> model state letter (after the drain)"""
    if not t._started.is_set():
        c = "x" if t.finished.is_set() else "c"
    elif t.is_alive():
        c = "p" if not t.finished.is_set() else "r"     # still alive though cancelled: running
    else:
        c = "d" if getattr(t, "_c19_ran", False) else "k"
    return c.upper() if t.daemon else c


def _frames_of(thread, names):
    """names of the functions (out of `names`) on the stack of a live thread"""
    fr = sys._current_frames().get(thread.ident)
    out = []
    while fr is not None:
        if fr.f_code.co_name in names:
            out.append(fr.f_code.co_name)
        fr = fr.f_back
    return out


def run_api_case(build, ptype, kind, at):
    """One real call.  Returns ApiObservation.  Leaves no thread behind (leaks are cancelled
    after having been recorded)."""
    import oqupy.util as U
    obs = ApiObservation()
    faults, call = build()
    eff = U.PROGRESS_TYPE if ptype is None else ptype
    base = U.PROGRESS_DICT[eff]
    main = threading.current_thread()
    timers = []
    instances = []

    class CountingTimer(threading.Timer):
        def __init__(self, interval, function, *a, **k):
            # the tiny runs are meant to end long before a timer fires (the firing
            # interleavings are part (ii)); a loaded machine must not change that
            super().__init__(3600.0, function, *a, **k)
            owner = getattr(function, "__self__", None)
            self._c19_owner = getattr(owner, "_c19", None)
            timers.append(self)

        def run(self):
            self.finished.wait(self.interval)
            if not self.finished.is_set():
                self._c19_ran = True
                self.function(*self.args, **self.kwargs)
            self.finished.set()

    class Logged(base):
        def __init__(self, *a, **k):
            super().__init__(*a, **k)
            fr = sys._getframe(1)
            self._c19 = {"func": fr.f_code.co_qualname, "file": fr.f_code.co_filename,
                         "line": fr.f_lineno, "calls": "", "exceptional_exit": False}
            self._c19["title"] = (getattr(self, "title", None) or "").strip("-> :")
            obs.objects.append(self._c19)
            instances.append(self)

        def enter(self):
            if threading.current_thread() is main:
                self._c19["calls"] += "e"
            return super().enter()

        def update(self, step=None):
            if threading.current_thread() is main:
                self._c19["calls"] += "u"
            return super().update(step)

        def exit(self):
            if threading.current_thread() is main:
                self._c19["calls"] += "x"
                self._c19["exceptional_exit"] = sys.exc_info()[0] is not None
            return super().exit()

    pools = []

    def logged_pool(basecls, kindname):
        class LoggedPool(basecls):
            def __init__(self, *a, **k):
                super().__init__(*a, **k)
                fr = sys._getframe(1)
                self._c19 = {"func": fr.f_code.co_qualname, "line": fr.f_lineno,
                             "kind": kindname, "submitted": 0, "failed_at": None}
                pools.append(self)

            def submit(self, *a, **k):
                if "pool-submit" in faults:
                    try:
                        faults["pool-submit"].tick()
                    except BaseException:
                        self._c19["failed_at"] = self._c19["submitted"]
                        raise
                self._c19["submitted"] += 1
                return super().submit(*a, **k)
        return LoggedPool

    before = set(threading.enumerate())
    procs_before = set(multiprocessing.active_children())
    saved_timer = U.Timer
    saved_pools = (CF.ThreadPoolExecutor, CF.ProcessPoolExecutor)
    CF.ThreadPoolExecutor = logged_pool(saved_pools[0], "threadPool")
    CF.ProcessPoolExecutor = logged_pool(saved_pools[1], "processPool")
    U.PROGRESS_DICT[eff] = Logged
    U.Timer = CountingTimer
    for f in faults.values():
        f.arm(None)
    if kind is not None:
        faults[kind].arm(at)
    buf = io.StringIO()
    kept = None       # the caller keeps the exception object (`except ... as err: saved = err`):
                      # its traceback keeps the frames of the failed call alive, so everything
                      # below is observed "when control returns to the caller", not after
                      # the frames were collected
    box = {}

    def target():
        try:
            call(ptype)
        except BaseException as e:      # noqa: the injected fault or what it caused
            box["exc"] = e

    # the call runs in a helper thread (it is "the calling thread" of the model) so that a
    # call that never returns -- a deadlock in the progress object -- ends the case as a
    # hang instead of hanging the check
    runner_thread = threading.Thread(target=target, name="c19-caller", daemon=True)
    main = runner_thread
    before.add(runner_thread)
    limit = getattr(build, "limit", 60.0)
    try:
        with contextlib.redirect_stdout(buf):
            runner_thread.start()
            runner_thread.join(limit)
            if runner_thread.is_alive():
                obs.hung = True
                obs.hung_in = sorted(set(
                    "%s.%s" % (type(i).__mro__[1].__name__, fr)
                    for i in instances
                    for fr in _frames_of(runner_thread, ("enter", "update", "exit"))))
                # try to get the thread out again: release the bar's lock if it is held
                for i in instances:
                    lk = getattr(i, "_lock", None)
                    try:
                        if lk is not None and lk.locked():
                            lk.release()
                    except Exception:
                        pass
                runner_thread.join(10.0)
            if "exc" in box:
                obs.raised = type(box["exc"]).__name__
                kept = box.pop("exc")
    finally:
        U.PROGRESS_DICT[eff] = base
        U.Timer = saved_timer
        CF.ThreadPoolExecutor, CF.ProcessPoolExecutor = saved_pools
        obs.fault_calls = {k: f.calls for k, f in faults.items()}
        obs.fault_fired = bool(kind is not None and at is not None
                               and faults[kind].at is not None and faults[kind].calls >= at)
        for f in faults.values():
            f.disarm()
    # drain: a cancelled timer thread ends at once (the generous limit only matters on a
    # heavily loaded machine; a pending, un-cancelled timer is not waited for)
    for t in timers:
        if t._started.is_set() and t.finished.is_set():
            t.join(60.0)
    for o in obs.objects:
        mine = [t for t in timers if t._c19_owner is o]
        o["tm"] = "".join(_state_char(t) for t in mine)
        o["alive"] = sum(1 for t in mine if t.is_alive())
        o["blocks"] = int(any(t.is_alive() and not t.daemon for t in mine))
    # executor pools: their workers (threads, or processes + the manager thread)
    pool_threads = set()
    for pl in pools:
        d = pl._c19
        ths = list(getattr(pl, "_threads", ()) or ())
        mt = getattr(pl, "_executor_manager_thread", None)
        if mt is not None:
            ths.append(mt)
        prs = list((getattr(pl, "_processes", None) or {}).values())
        pool_threads.update(ths)
        d["max_workers"] = pl._max_workers
        d["shutdown"] = int(bool(getattr(pl, "_shutdown", False)
                                 or getattr(pl, "_shutdown_thread", False)))
        d["alive"] = sum(1 for t in ths if t.is_alive()) + sum(1 for q in prs if q.is_alive())
        obs.pools.append(d)
    new_threads = [t for t in threading.enumerate() if t not in before and t.is_alive()]
    new_procs = [q for q in multiprocessing.active_children() if q not in procs_before]
    obs.extra_threads = [t.name for t in new_threads
                         if t not in timers and t not in pool_threads]

    def label(t):
        if isinstance(t, threading.Timer):
            return "Timer(daemon=%s)" % t.daemon
        if t.name.startswith("ThreadPoolExecutor"):
            return "ThreadPoolExecutor-worker"
        return "%s(daemon=%s)" % (type(t).__name__, t.daemon)
    obs.alive_names = sorted(label(t) for t in new_threads) + ["child-process"] * len(new_procs)
    obs.objects = [dict(o) for o in obs.objects]      # frozen: what the caller sees now
    obs.ends_with_newline = (not buf.getvalue()) or buf.getvalue().endswith("\n")
    kept = None                                       # now the caller drops the exception
    # clean up whatever leaked
    for pl in pools:
        try:
            pl.shutdown(wait=True)
        except Exception:
            pass
    for t in timers:
        t.cancel()
    for t in timers:
        if t._started.is_set():
            t.join(60.0)
    obs.stdout_len = len(buf.getvalue())
    return obs


def fault_points(total, n):
    if total <= 0:
        return []
    pts = {1, total}
    for i in range(1, n):
        pts.add(max(1, (total * i) // n))
    return sorted(pts)


def api_cases(tier, rng):
    """(runner, kind, at, ptype) with `at`=None for the failure-free run"""
    from . import oq
    runners = oq.c19_runners()
    cases = []
    nbar = 2 if tier == "quick" else 12
    nother = 1 if tier == "quick" else 4
    for name, (funcs, build) in runners.items():
        t0 = time.time()
        totals = run_api_case(build, "silent", None, None).fault_calls
        # a call of this runner that takes this much longer than its failure-free run hangs
        build.limit = 8.0 + 20.0 * (time.time() - t0)
        light = getattr(build, "light", False) and tier == "quick"
        for pt in (("silent",) if light else PTYPES):
            cases.append((name, None, None, pt))
        for kind, total in totals.items():
            pts = fault_points(total, nbar)
            if not pts:
                continue
            if light:
                cases.append((name, kind, pts[len(pts) // 2], "bar"))
                continue
            for at in pts:
                cases.append((name, kind, at, "bar"))
            few = pts[len(pts) // 2:len(pts) // 2 + 1] if tier == "quick" else fault_points(total, nother)
            for pt in ("silent", "simple"):
                for at in few:
                    cases.append((name, kind, at, pt))
            if tier != "quick" or kind == next(iter(totals)):
                cases.append((name, kind, rng.choice(pts), None))
    return runners, cases


def table_rows(line):
    rows = []
    for r in line.split(";"):
        f, func, idx, ln, style = r.split("|")
        rows.append({"file": f, "func": func, "index": int(idx), "line": int(ln), "style": style})
    return rows


def correspondence_api(res, tier, rng, table, spawns=()):
    import oqupy.util as U
    runners, cases = api_cases(tier, rng)
    known_funcs = {r["func"] for r in table}
    covered = set()
    for name, (funcs, _b) in runners.items():
        covered.update(funcs)
    missing = sorted(known_funcs - covered)
    res.oblige("every API of the generated table is exercised by a real run", not missing,
               "no runner for: %s" % missing)
    site = {(r["func"], r["line"]): r["index"] for r in table}
    lines, expect, meta = [], [], []
    hit = set()
    pool_site = {(r["func"], r["line"]): r for r in spawns
                 if r["kind"] in ("threadPool", "processPool")}
    pool_hit, pool_lines = set(), set()
    for (name, kind, at, ptype) in cases:
        funcs, build = runners[name]
        obs = run_api_case(build, ptype, kind, at)
        for d in obs.pools:
            res.count("pool:%s" % d["kind"])
            key = (d["func"], d["line"])
            if key not in pool_site or pool_site[key]["kind"] != d["kind"]:
                res.disagree("executor pool created at a site that is not in the generated "
                             "spawn table", {"pool": d, "case": [name, kind, at, ptype]})
                continue
            pool_hit.add(key)
            n = d["submitted"] + (1 if d["failed_at"] is not None else 0)
            line = "pool %s %d %d %d %s" % (d["func"], d["line"], d["max_workers"], n,
                                            "none" if d["failed_at"] is None else d["failed_at"])
            exp = "shutdown=%d leak=%d" % (d["shutdown"], int(d["alive"] > 0))
            if (line, exp) in pool_lines:
                continue
            pool_lines.add((line, exp))
            lines.append(line)
            expect.append(exp)
            meta.append({"runner": name, "fault": kind, "at": at, "progress_type": ptype,
                         "raised": obs.raised, "pool": d})
        eff = U.PROGRESS_TYPE if ptype is None else ptype
        res.count("api:%s" % eff)
        res.count("fault:%s" % (kind or "none"))
        if obs.hung:
            res.disagree("the call did not return (the model says it always does)",
                         {"case": [name, kind, at, ptype], "stuck_in": obs.hung_in})
            continue
        if obs.extra_threads:
            res.disagree("a thread the model does not know is alive after the call",
                         {"case": [name, kind, at, ptype], "threads": obs.extra_threads})
        for o in obs.objects:
            func = o["func"]
            idx = site.get((func, o["line"]))
            if idx is None:
                res.disagree("progress object created at a site that is not in the "
                             "generated API table", {"func": func, "line": o["line"],
                                                     "case": [name, kind, at, ptype]})
                continue
            hit.add((func, idx))
            calls = o["calls"]
            nupd = calls.count("u")
            if "x" in calls and not o["exceptional_exit"]:
                line = "api %s %d %s %d none" % (func, idx, eff, nupd)
                prop = 0
            else:
                line = "api %s %d %s %d %d" % (func, idx, eff, nupd + 1, nupd)
                prop = int(obs.raised is not None)     # did the failure reach the caller
            lines.append(line)
            expect.append("calls=%s exit=%d alive=%d blocks=%d tm=%s fin=1 prop=%d" % (
                ",".join(calls), int("x" in calls), o["alive"], o["blocks"], o["tm"], prop))
            meta.append({"runner": name, "fault": kind, "at": at, "progress_type": ptype,
                         "raised": obs.raised, "func": func, "index": idx})
    not_hit = sorted(set((r["func"], r["index"]) for r in table) - hit)
    res.oblige("every row of the generated table was reached by a real run", not not_hit,
               "never reached: %s" % not_hit)
    pools_not_hit = sorted(set(pool_site) - pool_hit)
    res.oblige("every executor site of the generated spawn table was reached by a real run",
               not pools_not_hit, "never reached: %s" % pools_not_hit)
    return lines, expect, meta


# ---------------------------------------------------------------------------
# (ii) schedule replay on the real ProgressBar
# ---------------------------------------------------------------------------

class Stuck(Exception):
    pass


class Worker(threading.Thread):
    """Runs one method call; pauses before every micro-op line of that method."""

    def __init__(self, stepper, tid, fn, code, ops):
        super().__init__(daemon=True)
        self.stepper, self.tid, self.fn, self.code, self.ops = stepper, tid, fn, code, ops
        self.go = threading.Semaphore(0)
        self.sig = threading.Semaphore(0)
        self.at = None           # name of the micro-op the thread is about to execute
        self.finished = False
        self.exc = None
        self.raising = False
        self.visits = {}
        self.entered = False

    def run(self):
        self.go.acquire()
        sys.settrace(self.global_trace)
        try:
            self.fn()
        except BaseException as e:   # noqa
            self.exc = e
        finally:
            sys.settrace(None)
            self.at, self.finished = None, True
            self.sig.release()

    def global_trace(self, frame, event, arg):
        if event == "call" and frame.f_code is self.code and not self.entered:
            self.entered = True
            return self.local_trace
        return None

    def local_trace(self, frame, event, arg):
        if event == "line" and not self.stepper.free:
            ln = frame.f_lineno
            v = self.visits.get(ln, 0)
            self.visits[ln] = v + 1
            here = [name for (name, l) in self.ops if l == ln]
            if v < len(here):
                self.at = here[v]
                self.sig.release()
                self.go.acquire()
        elif event == "exception":
            self.raising = True
        return self.local_trace

    def advance(self):
        self.go.release()
        if not self.sig.acquire(timeout=WAIT):
            raise Stuck("thread %s did not reach its next statement" % self.tid)


class Stepper:
    """Drives the real ProgressBar of oqupy.util under a deterministic scheduler."""

    def __init__(self, ops, nupd, guarded):
        import oqupy.util as U
        self.U = U
        self.ops = ops                       # method -> [(opname, line)]
        self.todo = ["enter"] + ["update"] * nupd + ["exit"]
        self.guarded = guarded
        self.timers = []
        self.workers = {}                    # 'M' or timer index -> Worker
        self.free = False
        self.update_no = 0
        stepper = self

        class FakeTimer:
            def __init__(self, interval, function):
                self.function = function
                self._daemon = False
                self.started = self.cancelled = self.fired = self.done = False
                stepper.timers.append(self)

            @property
            def daemon(self):
                return self._daemon

            @daemon.setter
            def daemon(self, v):
                if self.started:
                    raise RuntimeError("cannot set daemon status of active thread")
                self._daemon = v

            def start(self):
                if self.started:
                    raise RuntimeError("threads can only be started once")
                self.started = True

            def cancel(self):
                self.cancelled = True

            def over(self):
                """the timer thread has ended: cancelled in time, or its callback returned"""
                return (self.cancelled and not self.fired) or self.done

            def is_alive(self):
                return self.started and not self.over()

            def join(self, timeout=None):
                if not self.started:
                    raise RuntimeError("cannot join thread before it is started")
                w = threading.current_thread()
                if timeout is not None or not isinstance(w, Worker):
                    return
                while not self.over() and not stepper.free:
                    # the caller waits; the scheduler sees it as blocked on this timer
                    w.join_target = self
                    w.at = "join"
                    w.sig.release()
                    w.go.acquire()
                w.join_target = None

        self.saved_timer = U.Timer
        U.Timer = FakeTimer
        self.buf = io.StringIO()
        self.bar = U.ProgressBar(3, "title")
        self.bar._file = self.buf
        self.cls = U.ProgressBar

    def close(self):
        self.free = True
        for w in self.workers.values():
            if not w.finished:
                w.go.release()
        for w in self.workers.values():
            w.join(WAIT)
        self.U.Timer = self.saved_timer

    # -- observations ----------------------------------------------------
    def lock_held(self):
        lk = getattr(self.bar, "_lock", None)
        return bool(lk is not None and lk.locked())

    def timer_char(self, t, i):
        if not t.started:
            c = "x" if t.cancelled else "c"
        elif not t.fired:
            c = "k" if t.cancelled else "p"
        else:
            c = "d" if t.done else "r"
        return c.upper() if t.daemon else c

    def main_worker(self):
        w = self.workers.get("M")
        return w if (w is not None and not w.finished) else None

    def effective_todo(self):
        w = self.workers.get("M")
        if w is not None and (w.raising or w.exc is not None) and not getattr(w, "accounted", False):
            w.accounted = True
            self.todo = [m for m in self.todo if m == "exit"] if self.guarded else []
        return self.todo

    def blocked(self, w):
        if w.at == "join":
            t = getattr(w, "join_target", None)
            return t is not None and not t.over()
        return w.at == "acquire" and self.lock_held()

    def deadlocked(self):
        """some thread has not finished, yet nothing at all can move (no thread can execute
        its next statement and no timer can fire): they wait for each other for ever"""
        waiting = [("M" if k == "M" else "T%s" % k) + ":" + str(w.at)
                   for k, w in self.workers.items() if not w.finished]
        return waiting if (waiting and not self.enabled()) else []

    def enabled(self):
        en = []
        todo = self.effective_todo()
        mw = self.main_worker()
        if mw is not None:
            if not self.blocked(mw):
                en.append("M")
        elif todo:
            en.append("M")
        for i, t in enumerate(self.timers):
            if t.started and not t.cancelled and not t.fired:
                en.append("F%d" % i)
        for i, t in enumerate(self.timers):
            w = self.workers.get(i)
            if w is not None and not w.finished and not self.blocked(w):
                en.append("T%d" % i)
        return en

    def fired(self):
        return sum(1 for t in self.timers if t.fired)

    def snapshot(self):
        tm = "".join(self.timer_char(t, i) for i, t in enumerate(self.timers))
        cur = "-"
        ct = getattr(self.bar, "_timer", None)
        for i, t in enumerate(self.timers):
            if t is ct:
                cur = str(i)
        act = 1 if getattr(self.bar, "_active", False) else 0
        mw = self.main_worker()
        todo = self.effective_todo()
        run = []
        for i, t in enumerate(self.timers):
            w = self.workers.get(i)
            if w is not None and not w.finished:
                run.append("r%d=%s" % (i, w.at or "-"))
        return "tm=%s;cur=%s;act=%d;lk=%d;mn=%s/%d;%s;en=%s" % (
            tm, cur, act, int(self.lock_held()), (mw.at if mw is not None else None) or "-",
            len(todo), ",".join(run), " ".join(self.enabled()))

    # -- actions ---------------------------------------------------------
    def spawn(self, tid, fn, func, key):
        w = Worker(self, tid, fn, func.__code__, self.ops[key])
        self.workers[tid] = w
        w.start()
        w.advance()
        return w

    def do(self, a):
        if a not in self.enabled():
            return False
        if a == "M":
            mw = self.main_worker()
            if mw is not None:
                mw.advance()
            else:
                m = self.todo.pop(0)
                if m == "update":
                    k = self.update_no
                    self.update_no += 1
                    fn = lambda: self.bar.update(k)      # noqa
                else:
                    fn = getattr(self.bar, m)
                self.spawn("M", fn, getattr(self.cls, m), m)
        elif a[0] == "F":
            i = int(a[1:])
            t = self.timers[i]
            t.fired = True
            func = t.function.__func__
            key = "update" if func.__name__ == "update" else "ps"
            if func.__name__ not in ("update", "_print_status"):
                self.ops = dict(self.ops, ps=[])       # unknown callback: runs as one step

            def cb(t=t):
                try:
                    t.function()
                finally:
                    t.done = True
            self.spawn(i, cb, func, key)
        else:
            self.workers[int(a[1:])].advance()
        return True

    def verdict(self):
        """after main finished and callbacks drained: pending timers (= leak)"""
        return [i for i, t in enumerate(self.timers)
                if t.started and not t.cancelled and not t.fired]


def parse_proto(line):
    ops = {}
    for part in line.split(";"):
        k, v = part.split("=", 1)
        ops[k] = [(x.rsplit(":", 1)[0], int(x.rsplit(":", 1)[1])) for x in v.split(",") if x]
    return ops


def real_ops_from_source():
    """Gate lines taken from the real class alone (no translator, no model): every statement
    of ProgressBar.enter / update / exit is a preemption point; `with self._lock:` is
    `acquire` on entry and `release` on leaving; the one-shot callback is one step."""
    import ast
    import inspect
    import textwrap
    import oqupy.util as U
    cls = U.ProgressBar
    ops = {}
    for key, name in (("enter", "enter"), ("update", "update"), ("exit", "exit"),
                      ("ps", "_print_status")):
        fn = getattr(cls, name)
        src, first = inspect.getsourcelines(fn)
        tree = ast.parse(textwrap.dedent("".join(src)))
        out = []

        def visit(stmts):
            for st in stmts:
                if isinstance(st, ast.Expr) and isinstance(st.value, ast.Constant):
                    continue
                ln = st.lineno + first - 1
                if isinstance(st, ast.With):
                    is_lock = any(isinstance(i.context_expr, ast.Attribute)
                                  and "lock" in i.context_expr.attr.lower() for i in st.items)
                    out.append(("acquire" if is_lock else "stmt", ln))
                    visit(st.body)
                    out.append(("release" if is_lock else "stmt", ln))
                elif isinstance(st, ast.If):
                    out.append(("stmt", ln))
                    visit(st.body)
                    visit(st.orelse)
                elif isinstance(st, ast.Try):
                    visit(st.body)
                    for h in st.handlers:
                        visit(h.body)
                    visit(st.orelse)
                    visit(st.finalbody)
                else:
                    out.append(("stmt", ln))
        visit(tree.body[0].body)
        ops[key] = out[:1] if key == "ps" else out
    return ops


def run_schedule(ops, nupd, guarded, schedule, skip_disabled=False, drain=False, maxfire=None):
    """Replay on the real code.  Returns (log string, actions executed, verdict, finished)."""
    st = Stepper(ops, nupd, guarded)
    try:
        log = [st.snapshot()]
        done = []
        for a in schedule:
            if not st.do(a):
                if skip_disabled:
                    continue
                log.append("%s:disabled" % a)
                break
            done.append(a)
            log.append("%s:%s" % (a, st.snapshot()))
        if drain:
            for _ in range(400):
                en = [a for a in st.enabled() if a[0] != "F"]
                if not en:
                    break
                st.do(en[0])
                done.append(en[0])
                log.append("%s:%s" % (en[0], st.snapshot()))
        finished = (st.main_worker() is None and not st.effective_todo()
                    and not any(not w.finished for w in st.workers.values()))
        return " | ".join(log), done, st.verdict(), finished, st.deadlocked()
    finally:
        st.close()


def explore_real(ops, nupd, guarded, maxfire, cap, rng=None, walks=0, budget=None):
    """Stateless depth-first exploration of the real code's schedules (each maximal schedule
    is executed once); with `walks` > 0: that many random maximal schedules instead.
    Yields (schedule, log, verdict, finished)."""
    out = []

    def allowed(st):
        return [a for a in st.enabled() if not (a[0] == "F" and st.fired() >= maxfire)]

    if walks:
        for _ in range(walks):
            st = Stepper(ops, nupd, guarded)
            try:
                log, sched = [st.snapshot()], []
                for _depth in range(400):
                    en = allowed(st)
                    if not en:
                        break
                    a = rng.choice(en)
                    st.do(a)
                    sched.append(a)
                    log.append("%s:%s" % (a, st.snapshot()))
                fin = (st.main_worker() is None and not st.effective_todo()
                       and not any(not w.finished for w in st.workers.values()))
                out.append((sched, " | ".join(log), st.verdict(), fin, st.deadlocked()))
            finally:
                st.close()
        return out, True
    stack = []          # per depth: [enabled list, index chosen]
    complete = True
    t_end = None if budget is None else time.time() + budget
    while True:
        st = Stepper(ops, nupd, guarded)
        try:
            log, sched = [st.snapshot()], []
            depth = 0
            while depth < 400:
                en = allowed(st)
                if not en:
                    break
                if depth < len(stack):
                    if stack[depth][0] != en:
                        raise fw.Infra("the real code is not deterministic under the scheduler")
                    a = en[stack[depth][1]]
                else:
                    stack.append([en, 0])
                    a = en[0]
                st.do(a)
                sched.append(a)
                log.append("%s:%s" % (a, st.snapshot()))
                depth += 1
            fin = (st.main_worker() is None and not st.effective_todo()
                   and not any(not w.finished for w in st.workers.values()))
            out.append((sched, " | ".join(log), st.verdict(), fin, st.deadlocked()))
        finally:
            st.close()
        del stack[depth:]
        while stack and stack[-1][1] + 1 >= len(stack[-1][0]):
            stack.pop()
        if not stack:
            break
        stack[-1][1] += 1
        if len(out) >= cap or (t_end is not None and time.time() > t_end):
            complete = False
            break
    return out, complete


def correspondence_schedules(res, tier, rng, ops):
    """returns (lines, expect, meta) for the driver plus count checks"""
    lines, expect, meta = [], [], []
    plans = [(0, 1, 4000, 0), (1, 1, 4000, 0)]
    if tier == "quick":
        plans += [(2, 1, 450, 0), (2, 2, 0, 60), (1, 2, 0, 40)]
    else:
        plans += [(2, 1, 6000, 0), (1, 2, 20000, 0), (2, 2, 0, 600), (3, 2, 0, 200)]
    for (nupd, maxfire, cap, walks) in plans:
        for guarded in ((True, False) if nupd == 1 and maxfire == 1 else (True,)):
            runs, complete = explore_real(ops, nupd, guarded, maxfire, cap, rng, walks,
                                          budget=20.0 if tier == "quick" else 300.0)
            res.count("schedules:nupd=%d,fire<=%d,%s" % (nupd, maxfire,
                      "random" if walks else "dfs"), len(runs))
            for (sched, log, verdict, fin, _dead) in runs:
                lines.append("replay bar %d %d %s" % (int(guarded), nupd, " ".join(sched)))
                expect.append(log)
                meta.append({"kind": "schedule", "nupd": nupd, "guarded": guarded,
                             "schedule": sched, "pending_after": verdict, "finished": fin})
            if not walks and complete:
                leaks = sum(1 for r in runs if r[3] and r[2])
                for r in runs:
                    if r[4]:
                        res.disagree("the real ProgressBar deadlocks under a schedule",
                                     {"schedule": r[0], "waiting": r[4]})
                lines.append("explore bar %d %d %d %d" % (int(guarded), nupd, maxfire, 10 ** 6))
                expect.append("n=%d leaks=%d" % (len(runs), leaks))
                meta.append({"kind": "count", "nupd": nupd, "maxfire": maxfire,
                             "guarded": guarded})
    return lines, expect, meta


# ---------------------------------------------------------------------------
# correspondence / search / run
# ---------------------------------------------------------------------------

def corpus_cases():
    d = os.path.join(fw.CORPUS, PID)
    out = []
    if os.path.isdir(d):
        for fn in sorted(os.listdir(d)):
            if fn.endswith(".json"):
                try:
                    out.append((fn, json.load(open(os.path.join(d, fn)))))
                except Exception:
                    pass
    return out


def check_api_payload(p):
    """re-run a recorded API failure on the real code; returns the leak description or None"""
    from . import oq
    runners = oq.c19_runners()
    if p.get("runner") not in runners:
        return None
    obs = run_api_case(runners[p["runner"]][1], p.get("progress_type"), p.get("fault"),
                       p.get("at"))
    if obs.hung:
        return {"call_did_not_return": True, "stuck_in": obs.hung_in}
    if obs.alive_names:
        return {"alive_threads_after_call": obs.alive_names, "raised": obs.raised}
    if obs.fault_fired and obs.raised is None:
        return {"exception_swallowed": True}
    return None


def check_race_payload(p, ops):
    """replay a recorded schedule (disabled actions skipped, then drained without firing)"""
    if p.get("gating") == "source":
        ops = real_ops_from_source()
    log, done, verdict, fin, dead = run_schedule(ops, p.get("nupd", 1), p.get("guarded", True),
                                                 p["schedule"], skip_disabled=True, drain=True)
    if dead:
        return {"threads_waiting_for_ever": dead, "executed": done}
    if fin and verdict:
        return {"pending_timers_after_exit": verdict, "executed": done}
    return None


def correspondence(res, tier, rng):
    out0 = fw.run_driver(PID, ["table", "proto bar", "spawns"])
    table = table_rows(out0[0])
    ops = parse_proto(out0[1])
    spawns = []
    for r in out0[2].split(";"):
        if r:
            f, func, ln, kd, sc = r.split("|")
            spawns.append({"file": f, "func": func, "line": int(ln), "kind": kd, "scope": sc})
    res.count("api-table-rows", len(table))
    res.count("spawn-table-rows", len(spawns))
    # corpus first: recorded failures must not fail any more (they are re-judged by the
    # property, and stay in the comparison below through the generated cases)
    for fn, blob in corpus_cases():
        p = blob.get("failing_input", {})
        bad = None
        if p.get("type") == "api":
            bad = check_api_payload(p)
        elif p.get("type") == "race":
            bad = check_race_payload(p, ops)
        res.case("corpus:" + fn, True)
        if bad is not None:
            res.disagree("corpus case %s still fails" % fn, {"input": p, "observed": bad})
    l1, e1, m1 = correspondence_api(res, tier, rng, table, spawns)
    l2, e2, m2 = correspondence_schedules(res, tier, rng, ops)
    lines, expect, meta = l1 + l2, e1 + e2, m1 + m2
    out = fw.run_driver(PID, lines)
    if len(out) != len(lines):
        raise fw.Infra("driver returned %d lines for %d inputs" % (len(out), len(lines)))
    for line, exp, got, m in zip(lines, expect, out, meta):
        if line.startswith("explore"):
            got = got.split(" first=")[0]
        nontrivial = True
        if line.startswith("api") or line.startswith("pool"):
            nontrivial = m["fault"] is not None
        res.case(line, nontrivial, {"op": line[:160], "impl": exp[-160:], "model": got[-160:]})
        if exp != got:
            res.disagree("model and implementation differ on: " + line[:200],
                         {"line": line, "impl": exp[-1500:], "model": got[-1500:], "meta": m})


def progress_direct_cases():
    """the progress classes driven the way the call sites drive them: max_value as it comes
    out of `num_steps` arithmetic (int, 0, float, numpy scalars), title None / str, an
    exception raised inside the block after `fail_at` updates (None: no exception)"""
    import numpy as np
    vals = [("int", 3), ("zero", 0), ("float", 3.0), ("np.float64", np.float64(2.0)),
            ("np.int64", np.int64(3))]
    out = []
    for key in PTYPES:
        for vname, v in vals:
            for title in (None, "--> title:"):
                for fail_at in (None, 0, 1):
                    out.append((key, vname, v, title, fail_at))
    return out


def run_progress_direct(key, max_value, title, fail_at):
    """Returns a dict of what is observable when the `with` block has been left and the
    caller still holds the exception."""
    import oqupy.util as U
    timers = []

    class LongTimer(threading.Timer):
        def __init__(self, interval, function, *a, **k):
            super().__init__(3600.0, function, *a, **k)
            timers.append(self)
    base = U.get_progress(key)
    exits = []

    class Counted(base):
        def exit(self):
            exits.append(1)
            return super().exit()
    saved = U.Timer
    U.Timer = LongTimer
    buf = io.StringIO()
    kept = None
    before = set(threading.enumerate())
    box = {}

    def target():
        try:
            with Counted(max_value, title) as bar:
                box["bar"] = bar
                for k in range(2):
                    if fail_at == k:
                        raise RuntimeError("failure inside the progress block")
                    bar.update(k)
        except Exception as e:      # noqa
            box["exc"] = e
    th = threading.Thread(target=target, name="c19-direct", daemon=True)
    before.add(th)
    hung = False
    try:
        with contextlib.redirect_stdout(buf):
            th.start()
            th.join(5.0)
            if th.is_alive():           # watchdog: the block was never left
                hung = True
                lk = getattr(box.get("bar"), "_lock", None)
                try:
                    if lk is not None and lk.locked():
                        lk.release()
                except Exception:
                    pass
                th.join(10.0)
            kept = box.pop("exc", None)
    finally:
        U.Timer = saved
    for t in timers:
        if t._started.is_set() and t.finished.is_set():
            t.join(60.0)
    alive = [t for t in threading.enumerate() if t not in before and t.is_alive()]
    text = buf.getvalue()
    r = {"hung": hung, "exit_calls": len(exits), "alive_threads": len(alive),
         "raised": type(kept).__name__ if kept is not None else None,
         "stdout_ends_with_newline": (not text) or text.endswith("\n")}
    kept = None
    for t in timers:
        t.cancel()
    for t in timers:
        if t._started.is_set():
            t.join(60.0)
    return r


def child_exit_check(runner, kind, at, ptype, timeout=8.0):
    """the interpreter must be able to exit after the call failed"""
    code = (
        "import sys, io, contextlib\n"
        "sys.path.insert(0, %r); sys.path.insert(0, %r)\n"
        "from harness import oq\n"
        "f, call = oq.c19_runners()[%r][1]()\n"
        "[x.arm(None) for x in f.values()]\n"
        "f[%r].arm(%d)\n"
        "try:\n"
        "    with contextlib.redirect_stdout(io.StringIO()):\n"
        "        call(%r)\n"
        "except Exception:\n"
        "    pass\n" % (fw.REPO, fw.VERIF, runner, kind, at, ptype))
    t0 = time.time()
    try:
        p = subprocess.run([sys.executable, "-c", code], capture_output=True, timeout=timeout,
                           env=dict(os.environ, PYTHONDONTWRITEBYTECODE="1"))
        return {"exited": True, "status": p.returncode, "seconds": round(time.time() - t0, 2)}
    except subprocess.TimeoutExpired:
        return {"exited": False, "seconds": timeout}


def search(res, rng=None):
    """Spec-level oracles on the real code: no thread alive after a call returned or raised;
    no pending timer once exit() returned and callbacks drained; the interpreter exits."""
    import oqupy.util as U
    rng = rng or random.Random(res.seed)
    runners, cases = api_cases(res.tier, rng)
    first_bar_failure = None
    for (name, kind, at, ptype) in cases:
        before = set(threading.enumerate())
        obs = run_api_case(runners[name][1], ptype, kind, at)
        eff = U.PROGRESS_TYPE if ptype is None else ptype
        if obs.hung:
            res.fail("hang:%s:%s" % (name, eff),
                     {"type": "api", "runner": name, "fault": kind, "at": at,
                      "progress_type": ptype, "stuck_in": obs.hung_in,
                      "progress_calls": [o["calls"] for o in obs.objects],
                      "how": "oq.c19_runners()[%r]: fault %r at invocation %r, "
                             "progress_type=%r: the call neither returned nor raised within "
                             "%.0f s (its failure-free run takes a fraction of that)"
                             % (name, kind, at, ptype, getattr(runners[name][1], "limit", 60.0))})
            continue
        if obs.fault_fired and obs.raised is None:
            res.fail("exception-swallowed:%s:%s" % (name, eff),
                     {"type": "api", "runner": name, "fault": kind, "at": at,
                      "progress_type": ptype, "raised": None,
                      "progress_calls": [o["calls"] for o in obs.objects],
                      "how": "oq.c19_runners()[%r]: the %r callable raised InjectedFault at its "
                             "invocation %r, yet the call with progress_type=%r returned "
                             "normally" % (name, kind, at, ptype)})
        if obs.alive_names:
            # which progress object lost its timer
            culprit = None
            for o in obs.objects:
                if o.get("alive"):
                    culprit = "%s@%s" % (o["func"], o["title"])
            for d in obs.pools:
                if d.get("alive"):
                    culprit = "pool:%s:%s" % (d["func"], d["kind"])
            if first_bar_failure is None and kind is not None:
                first_bar_failure = (name, kind, at, ptype)
            key = "leak:%s" % culprit if (culprit or "").startswith("pool:") \
                else "leak:%s:%s" % (culprit or name, eff)
            res.fail(key,
                     {"type": "api", "runner": name, "fault": kind, "at": at,
                      "progress_type": ptype, "raised": obs.raised,
                      "alive_threads_after_call": obs.alive_names,
                      "progress_calls": [o["calls"] for o in obs.objects],
                      "exception_object_kept_by_caller": True,
                      "stdout_ends_with_newline": obs.ends_with_newline,
                      "pools": [{k: d[k] for k in ("func", "kind", "submitted", "shutdown", "alive")}
                                for d in obs.pools if d.get("alive")],
                      "how": "oq.c19_runners()[%r]: arm fault %r at invocation %r, call with "
                             "progress_type=%r, then threading.enumerate()" % (name, kind, at, ptype)})
    # the progress classes themselves, with the argument kinds the call sites pass
    hung_kinds = set()
    for (key, vname, v, title, fail_at) in progress_direct_cases():
        if (key, vname) in hung_kinds:
            continue                    # one hang per argument kind is enough (each costs 5 s)
        r = run_progress_direct(key, v, title, fail_at)
        if r["hung"]:
            hung_kinds.add((key, vname))
        if r["hung"]:
            res.fail("hang:get_progress:%s:max_value=%s" % (key, vname),
                     dict(r, type="direct", progress_type=key, max_value=repr(v), title=title,
                          fail_at=fail_at,
                          how="with oqupy.util.get_progress(%r)(%r, %r) as bar: update(0), "
                              "update(1): the block was not left within 5 s" % (key, v, title)))
            continue
        if fail_at is not None and r["raised"] is None:
            res.fail("exception-swallowed:get_progress:%s" % key,
                     dict(r, type="direct", progress_type=key, max_value=repr(v), title=title,
                          fail_at=fail_at,
                          how="with oqupy.util.get_progress(%r)(%r, %r) as bar: RuntimeError "
                              "raised inside the block did not leave the block" % (key, v, title)))
        if r["exit_calls"] != 1 or r["alive_threads"]:
            res.fail("progress-direct:%s:max_value=%s" % (key, vname),
                     dict(r, type="direct", progress_type=key, max_value=repr(v), title=title,
                          fail_at=fail_at,
                          how="with oqupy.util.get_progress(%r)(%r, %r) as bar: update(0), "
                              "update(1), RuntimeError raised before update number fail_at; "
                              "exception object kept; then exit() must have run exactly once "
                              "and no new thread may be alive" % (key, v, title)))
    # schedules of the real ProgressBar (harness-side exploration only, no model involved)
    try:
        ops = real_ops_from_source()
    except Exception:
        ops = None
    if ops is not None:
        for (nupd, maxfire, cap) in ((0, 1, 200), (1, 1, 3000), (2, 1, 4000)):
            if nupd >= 2 and res.failing:
                break       # the deeper exploration only when nothing failed so far
            runs, _c = explore_real(ops, nupd, True, maxfire, cap, budget=60.0)
            for (sched, log, verdict, fin, dead) in runs:
                if dead:
                    res.fail("deadlock:ProgressBar exit() vs timer callback",
                             {"type": "race", "nupd": nupd, "guarded": True, "schedule": sched,
                              "gating": "source", "threads_waiting_for_ever": dead,
                              "final": log.split(" | ")[-1],
                              "how": "fake Timer at oqupy.util.Timer; threads gated at every "
                                     "statement of ProgressBar.enter/update/exit; after this "
                                     "schedule no thread can move and no timer can fire, yet "
                                     "the listed threads have not finished: the call never "
                                     "returns"})
                    break
                if fin and verdict:
                    res.fail("race:ProgressBar exit() vs timer callback",
                             {"type": "race", "nupd": nupd, "guarded": True, "schedule": sched,
                              "gating": "source",
                              "pending_timers_after_exit": verdict,
                              "final": log.split(" | ")[-1],
                              "how": "fake Timer at oqupy.util.Timer; threads gated at every "
                                     "statement of ProgressBar.enter/update/exit; M = main "
                                     "executes its next statement, F<i> = timer i fires, "
                                     "T<i> = callback of timer i executes its next statement"})
                    break
            else:
                continue
            break
    if first_bar_failure is not None and res.tier == "thorough":
        name, kind, at, ptype = first_bar_failure
        r = child_exit_check(name, kind, at, ptype)
        if not r["exited"]:
            res.fail("hang:%s" % name, {"type": "hang", "runner": name, "fault": kind, "at": at,
                                        "progress_type": ptype, "child": r})


def replay_only(res, path):
    blob = json.load(open(path))
    p = blob.get("failing_input", blob)
    bad = None
    if p.get("type") == "api":
        bad = check_api_payload(p)
    elif p.get("type") == "race":
        ops = parse_proto(fw.run_driver(PID, ["proto bar"])[0])
        bad = check_race_payload(p, ops)
    res.case("replay:" + os.path.basename(path), True)
    if bad is not None:
        res.fail(blob.get("key", "replay"), dict(p, observed=bad))


def run(tier, seed, replay):
    res = fw.Result(PID, tier, seed, level="proof")
    rng = random.Random(seed)
    res.rule = ("(i) every API of the generated table x {silent, simple, bar, default} x injected "
                "failure (k-th invocation of Hamiltonian / rate / Lindblad / field-eom / target / "
                "correlation / spectral-density callables, k spread over the whole call; wrong "
                "tensor shape; missing cap) on 2-level, 3-step models: per progress object the "
                "enter/update/exit calls, timers created and their final states vs the model, "
                "exact.  (ii) real ProgressBar under a deterministic scheduler: all schedules for "
                "0-2 updates / 1 firing depth-first, random schedules for <= 2 firings; every "
                "step's timer states, _timer, _active, lock, next statements and enabled actions "
                "vs the model, exact; schedule and leak counts vs the model's own exploration.  "
                "(iii) PtTebd with backend_config parallel=multithread / multiprocess, failures "
                "injected into the process tensor and into the k-th executor submit(): every "
                "executor pool the library creates (creation site, tasks submitted, shut down, "
                "workers alive after the call) vs the generated spawn table + pool model, exact.  "
                "Non-trivial = a failure was injected / any schedule; distinct = distinct "
                "protocol line.")
    res.assumptions = [
        "CPython threading.Timer: cancel() before the interval elapsed => the callback never "
        "runs; cancel() while the callback runs => no effect; start() twice raises",
        "threading.Lock is a mutex; `with lock:` releases on return and on exception",
        "concurrent.futures: Executor.__exit__ is shutdown(wait=True), which returns only after "
        "every worker thread / process (and the process pool's manager thread) was joined; at "
        "most one worker is started per submission",
        "statement-level atomicity of the micro-ops; under the lock this is immaterial since "
        "every access to _timer/_active is inside a critical section (lockedProtocol)",
        "the computation between two progress calls terminates or raises (skeleton: "
        "enter; (work; update) x N; exit)",
    ]
    res.not_shown = [
        "interpreter shutdown itself and OS thread teardown (consequence of 'only daemon "
        "threads' under CPython semantics; a child-process exit is checked in the thorough "
        "search only)",
        "one status line of the one-shot first timer (callback _print_status) may still be "
        "written if it fired just before exit(); no further writes follow",
        "failures raised from inside the progress methods themselves (stream write errors)",
    ]
    res.trusted.append("the spawn table lists constructor calls by callee name (ThreadPoolExecutor, "
                       "ProcessPoolExecutor, Pool, Thread, Timer, Process, Popen, fork, "
                       "start_new_thread) in oqupy/**/*.py; threads started by numpy / BLAS / "
                       "h5py internals are outside it")
    res.trusted.append("sys.settrace line gating and the fake Timer used to drive the real "
                       "ProgressBar through schedules")
    fw.standard_pipeline(res, ["ProgressGuard"], THEOREMS)
    translated = all(o[1] for o in res.obligations if o[0].startswith("translator"))
    try:
        if replay:
            replay_only(res, replay)
        elif translated:
            correspondence(res, tier, rng)
        else:
            res.notes.append("correspondence skipped: generated model unavailable")
    except (fw.Infra, Stuck) as e:
        res.oblige("correspondence run", False, str(e))
    return fw.finish(res, search)
