"""C09 — mean-field evolution: both methods agree, the field is advanced with Heun's rule.
See DESIGN.md §4 C09."""
import json
import os
import random

import numpy as np

from . import framework as fw
from .framework import rat, crat, parse_rat

PID = "C09"
P = "OQuPyVerif.Props.C09."
THEOREMS = [P + n for n in (
    "heun_linear_exact", "mft_field_is_heun", "stage_times_accurate", "mft_linear_exact",
    "methods_agree", "methods_agree_final_only", "eom_calls_agree",
    "no_field_dependence_mft", "no_field_dependence_cdwf", "plain_sample_times",
    "plain_dissipator_times", "diss_args_current_time", "defaults_agree", "recorded_labels",
    "ham_args_linearised", "int_linearised_from_step_start", "step_indices", "statement_order")] + [
    "OQuPyVerif.MeanField.cdwfIter_spec", "OQuPyVerif.MeanField.mftIter_spec",
    "OQuPyVerif.MeanField.cdwf_loop_rk1_time_grid", "OQuPyVerif.MeanField.cdwf_final_rk1_time_grid",
    "OQuPyVerif.MeanField.heunSeq_linear"]

TOL_MODEL = 1e-10      # exact model vs float implementation on the SAME logged states
TOL_CROSS = 2e-7       # TEMPO vs process tensor: two different truncated contractions
EPSREL = 1e-11
# the same computation run twice: LAPACK/BLAS round-off can move a singular value across the relative
# truncation threshold EPSREL, so two runs agree to a few EPSREL only (6e-12 observed), not bit-wise
TOL_SAME = 1e-9


# ---------------------------------------------------------------------------
# cases
# ---------------------------------------------------------------------------

def _cplx(rng, s=1.0):
    return complex(rng.uniform(-s, s), rng.uniform(-s, s))


def _herm(rng, d, s=1.0):
    a = np.array([[_cplx(rng, s) for _ in range(d)] for _ in range(d)])
    return (a + a.conj().T) / 2


def _unitary(rng, d):
    a = np.array([[_cplx(rng) for _ in range(d)] for _ in range(d)])
    q, r = np.linalg.qr(a)
    return q * (np.diag(r) / np.abs(np.diag(r)))


def coupling_operator(case, i):
    """the (Hermitian) system operator coupled to bath i: diagonal, or rotated by a complex unitary"""
    o = np.diag(np.array(case["coupling"][i], dtype=complex))
    cu = case.get("cu")
    if cu:
        o = cu[i] @ o @ cu[i].conj().T
        o = (o + o.conj().T) / 2
    return o


def laid_out(rho, layout):
    """the same density matrix in another memory layout"""
    rho = np.array(rho, dtype=complex)
    if layout == "F":
        return np.asfortranarray(rho)
    if layout == "T":                      # transposed view of a C-contiguous array
        return np.ascontiguousarray(rho.T).T
    if layout == "slice":                  # non-contiguous view into a larger array
        d = rho.shape[0]
        big = np.zeros((2 * d, 2 * d), dtype=complex)
        big[::2, ::2] = rho
        return big[::2, ::2]
    return rho.copy()


def _dm(rng, d):
    a = np.array([[_cplx(rng) for _ in range(d)] for _ in range(d)])
    rho = a @ a.conj().T + 0.1 * np.eye(d)
    return rho / np.trace(rho)


def gen_case(rng, tier, **force):
    """A mean-field problem as plain data (JSON-able through `case_to_json`)."""
    dims = force.get("dims") or rng.choice([[2], [2], [3], [2, 3], [3, 2], [2, 3, 2]] if tier != "quick"
                                           else [[2], [2], [3], [2, 3], [2, 3, 2]])
    nmax = 6 if tier != "quick" else 4
    n = force.get("n", rng.randrange(1, nmax + 1))
    kind = force.get("kind") or rng.choice(["full", "full", "linear-t", "time-only", "autonomous"])
    c = [_cplx(rng, 0.8) for _ in range(5)]
    wscale = 0.6
    if kind == "linear-t":            # f = c0 + c1 t
        c[2] = c[3] = c[4] = 0j
        wscale = 0.0
    elif kind == "time-only":         # f = c0 + c1 t + c2 t^2
        c[3] = c[4] = 0j
        wscale = 0.0
    elif kind == "autonomous":        # no explicit time dependence
        c[1] = c[2] = c[4] = 0j
    elif kind == "stationary":        # f = 0: the field keeps its value, derivative exactly 0
        c = [0j] * 5
        wscale = 0.0
    elif kind == "stationary-zero":   # f = c3 a with a0 = 0: field and derivative exactly 0
        c[0] = c[1] = c[2] = c[4] = 0j
        wscale = 0.0
    ws = [np.array([[_cplx(rng, wscale) for _ in range(d)] for _ in range(d)]) for d in dims]
    case = {
        "dims": list(dims), "n": n, "kind": kind,
        "start": force.get("start", rng.choice([0.0, 1.0, -0.7, 2.3, round(rng.uniform(-3, 3), 2)])),
        "dt": force.get("dt", rng.choice([0.1, 0.05, 0.2, 0.125, 0.07])),
        "a0": _cplx(rng, 1.0), "c": c, "w": ws,
        "h0": [_herm(rng, d, 0.7) for d in dims], "h1": [_herm(rng, d, 0.4) for d in dims],
        "hw": rng.uniform(0.5, 3.0),
        "g": [np.array([[_cplx(rng, 0.3) for _ in range(d)] for _ in range(d)]) for d in dims],
        "field_in_h": force.get("field_in_h", True),
        "rho0": [_dm(rng, d) for d in dims],
        "coupling": [[round(rng.uniform(-1, 1), 3) for _ in range(d)] for d in dims],
        "subdiv": force.get("subdiv", rng.choice([None, None, 64])),
        "record_all": force.get("record_all", rng.random() < 0.6),
        "dkmax": rng.choice([1, 2, 3]),
    }
    # second generation of inputs (drawn after the first so that older seeds keep their cases):
    # time dependent Lindblad rates / operators, a Hamiltonian non-linear in t within a step and
    # non-linear in the field, DEFAULT propagator settings (subdiv = "default": not passed at all)
    nl = force.get("nl", rng.choice([0, 0, 1, 2]))
    case["gam"] = [[[rng.uniform(0.05, 0.4), rng.uniform(0.5, 4.0)] for _ in range(nl)] for _ in dims]
    case["lop"] = [[np.array([[_cplx(rng, 1.0 / d) for _ in range(d)] for _ in range(d)])
                    for _ in range(nl)] for d in dims]
    case["lw"] = rng.uniform(0.5, 4.0)
    case["anl"] = [_herm(rng, d, 0.6) for d in dims]
    case["q"] = force.get("q", rng.choice([0.0, 0.0, 0.9]))
    if kind == "stationary-zero":
        case["a0"] = 0j
    if "hw" in force:
        case["hw"] = force["hw"]
    elif rng.random() < 0.25:
        case["hw"] = 9.0
    if "subdiv" not in force and rng.random() < 0.3:
        case["subdiv"] = "default"
    # third generation: degeneracy checking in MeanFieldTempo (unique=True), coupling operators that
    # are not diagonal (complex Hermitian), initial states handed over in non-C memory layouts
    u = rng.random()
    case["unique"] = force.get("unique", u < 0.25)
    v = rng.random()
    nondiag = force.get("nondiag", v < 0.35)
    case["cu"] = [_unitary(rng, d) for d in dims] if nondiag else None
    case["layout"] = force.get("layout", rng.choice(["C", "C", "F", "T", "slice"]))
    # fourth generation: MeanFieldTempo computed in several compute() calls (cumulative step targets)
    w = rng.random()
    if "chunks" in force:
        case["chunks"] = force["chunks"]
    elif n >= 2 and w < 0.35:
        cuts = sorted(rng.sample(range(1, n), min(n - 1, rng.randrange(1, 4))))
        case["chunks"] = cuts + [n]
    else:
        case["chunks"] = None
    return case


def _enc(x):
    if isinstance(x, np.ndarray):
        return {"re": x.real.tolist(), "im": x.imag.tolist()}
    if isinstance(x, complex):
        return {"c": [x.real, x.imag]}
    if isinstance(x, list):
        return [_enc(y) for y in x]
    return x


def _dec(x):
    if isinstance(x, dict) and "re" in x:
        return np.array(x["re"]) + 1j * np.array(x["im"])
    if isinstance(x, dict) and "c" in x:
        return complex(x["c"][0], x["c"][1])
    if isinstance(x, list):
        return [_dec(y) for y in x]
    return x


def case_to_json(case):
    return {k: _enc(v) for k, v in case.items()}


def case_from_json(d):
    return {k: _dec(v) for k, v in d.items()}


# ---------------------------------------------------------------------------
# the real code, with the user's callables logging their arguments
# ---------------------------------------------------------------------------

class Problem:
    """oqupy objects of a case; `eom_log` / `ham_log` / `diss_log` collect every call of the user's
    field_eom / Hamiltonians / Lindblad rates and operators:
    (t, [states], a, value) / (system, t, a) / (kind, system, term, t)."""

    def __init__(self, case):
        import oqupy
        from . import oq
        self.case = case
        self.eom_log, self.ham_log, self.diss_log = [], [], []
        c, ws = case["c"], case["w"]
        nsys = len(case["dims"])
        gam = case.get("gam") or [[] for _ in range(nsys)]
        lop = case.get("lop") or [[] for _ in range(nsys)]
        lw, q = case.get("lw", 1.0), case.get("q", 0.0)
        anl = case.get("anl")

        def eom(t, states, a):
            val = c[0] + c[1] * t + c[2] * t * t + c[3] * a + c[4] * a * t
            for w, s in zip(ws, states):
                val = val + np.dot(w.reshape(-1), np.asarray(s).reshape(-1))
            val = complex(val)
            self.eom_log.append((float(t), [np.array(s, dtype=complex) for s in states],
                                 complex(a), val))
            return val

        def make_h(i):
            h0, h1, g, hw = case["h0"][i], case["h1"][i], case["g"][i], case["hw"]
            use = case["field_in_h"]

            def ham(t, a):
                self.ham_log.append((i, float(t), complex(a)))
                self.diss_log.append(("h", i, -1, float(t)))
                h = h0 + np.cos(hw * t) * h1
                if use:
                    h = h + a * g + np.conj(a) * g.conj().T
                    if q != 0.0:
                        h = h + q * abs(a) ** 2 * anl[i]
                return h
            return ham

        def rate(i, j, log):
            g0, w = gam[i][j]

            def f(t):
                if log:
                    self.diss_log.append(("g", i, j, float(t)))
                return g0 * (1.0 + 0.6 * np.sin(w * t))
            return f

        def lind(i, j, log):
            m = lop[i][j]

            def f(t):
                if log:
                    self.diss_log.append(("l", i, j, float(t)))
                return (1.0 + 0.5 * np.cos(lw * t)) * m
            return f

        self.plain_h = [(lambda t, i=i: case["h0"][i] + np.cos(case["hw"] * t) * case["h1"][i])
                        for i in range(nsys)]
        self.plain_diss = [([rate(i, j, False) for j in range(len(gam[i]))],
                            [lind(i, j, False) for j in range(len(gam[i]))]) for i in range(nsys)]
        self.systems = [oqupy.TimeDependentSystemWithField(
            make_h(i), gammas=[rate(i, j, True) for j in range(len(gam[i]))],
            lindblad_operators=[lind(i, j, True) for j in range(len(gam[i]))]) for i in range(nsys)]
        self.mfs = oqupy.MeanFieldSystem(self.systems, eom)
        self.baths = [oqupy.Bath(coupling_operator(case, i), oq.cheap_bath().correlations)
                      for i in range(nsys)]
        # "default": the propagator settings are not passed anywhere (the methods' own defaults)
        self.kw = {} if case["subdiv"] == "default" else {"subdiv_limit": case["subdiv"]}
        self.params = oqupy.TempoParameters(dt=case["dt"], epsrel=EPSREL, dkmax=case["dkmax"], **self.kw)
        self.end = case["start"] + (case["n"] + 0.5) * case["dt"]

    def reset(self):
        self.eom_log.clear()
        self.ham_log.clear()
        self.diss_log.clear()

    def initial_states(self, layout=None):
        layout = self.case.get("layout", "C") if layout is None else layout
        return [laid_out(r, layout) for r in self.case["rho0"]]

    def mft_object(self, mfs=None, unique=None, layout=None):
        """the MeanFieldTempo of this case; `mfs`: a MeanFieldSystem object to use instead of
        this problem's own (object re-use histories)"""
        import oqupy
        case = self.case
        unique = bool(case.get("unique", False)) if unique is None else unique
        return oqupy.MeanFieldTempo(mfs or self.mfs, self.baths, self.params,
                                    self.initial_states(layout), case["a0"],
                                    start_time=case["start"], unique=unique)

    def compute_object(self, m):
        case = self.case
        dyn = m.compute(self.end if case["n"] > 0 else case["start"], progress_type="silent")
        return _result(dyn, [], [], [])

    def run_mft(self, unique=None, layout=None, chunks="case"):
        case = self.case
        m = self.mft_object(None, unique, layout)
        self.reset()
        chunks = case.get("chunks") if chunks == "case" else chunks
        if chunks and case["n"] > 0:
            # a continued run: compute() up to each cumulative step target in turn
            for k in chunks:
                dyn = m.compute(case["start"] + (k + 0.5) * case["dt"], progress_type="silent")
        else:
            dyn = m.compute(self.end if case["n"] > 0 else case["start"], progress_type="silent")
        return _result(dyn, self.eom_log, self.ham_log, self.diss_log)

    def process_tensors(self):
        import oqupy
        if getattr(self, "_pts", None) is None:
            case = self.case
            if case["n"] < 2:           # PtTempo needs two steps; a longer tensor serves a shorter run
                end = case["start"] + 2.5 * case["dt"]
            else:
                end = self.end
            self._pts = [oqupy.pt_tempo_compute(bath=b, start_time=case["start"], end_time=end,
                                                parameters=self.params, progress_type="silent")
                         for b in self.baths]
        return self._pts

    def run_cdwf(self, record_all=None, layout=None, mfs=None):
        import oqupy
        case = self.case
        pts = self.process_tensors()
        self.reset()
        dyn = oqupy.compute_dynamics_with_field(
            mfs or self.mfs, initial_field=case["a0"], process_tensor_list=pts, dt=case["dt"],
            num_steps=case["n"], initial_state_list=self.initial_states(layout),
            start_time=case["start"],
            record_all=case["record_all"] if record_all is None else record_all,
            progress_type="silent", **self.kw)
        return _result(dyn, self.eom_log, self.ham_log, self.diss_log)

    def run_plain(self):
        """field-free references: Tempo / compute_dynamics per system with H(t) only"""
        import oqupy
        case = self.case
        out_t, out_c = [], []
        for i in range(len(case["dims"])):
            sysm = oqupy.TimeDependentSystem(self.plain_h[i], gammas=self.plain_diss[i][0],
                                             lindblad_operators=self.plain_diss[i][1])
            t = oqupy.Tempo(sysm, self.baths[i], self.params, case["rho0"][i].copy(),
                            start_time=case["start"])
            out_t.append(t.compute(self.end, progress_type="silent").states)
            d = oqupy.compute_dynamics(sysm, initial_state=case["rho0"][i].copy(), dt=case["dt"],
                                       num_steps=case["n"], start_time=case["start"],
                                       process_tensor=[self.process_tensors()[i]],
                                       progress_type="silent", **self.kw)
            out_c.append(d.states)
        return out_t, out_c


def _dedup(log):
    """np.vectorize (oqupy wraps every field-dependent Hamiltonian in it) evaluates the function
    once more per call to find the output type: collapse runs of identical consecutive entries"""
    out = []
    for x in log:
        if not out or out[-1] != x:
            out.append(x)
    return out


def _result(dyn, eom_log, ham_log, diss_log=()):
    ham_log = _dedup(ham_log)
    return {"diss": _dedup(list(diss_log)),"times": [float(t) for t in dyn.times],
            "fields": [complex(f) for f in dyn.fields],
            "states": [np.array(sd.states) for sd in dyn.system_dynamics],   # [system][time]
            "eom": list(eom_log), "ham": list(ham_log)}


# ---------------------------------------------------------------------------
# model side
# ---------------------------------------------------------------------------

def state_table(case, res):
    """reduced states at grid points 0..n as the run itself saw them: the distinct state lists
    handed to field_eom, in order of first appearance (None if they are not n+1 lists)"""
    if case["n"] == 0:
        return [[s[0] for s in res["states"]]]
    rows = []
    for (_, states, _, _) in res["eom"]:
        if not any(all(np.array_equal(x, y) for x, y in zip(states, r)) for r in rows):
            rows.append(states)
    return rows if len(rows) == case["n"] + 1 else None


def run_line(method, case, rows, record_all):
    flat = []
    for row in rows:
        for s in row:
            flat.extend(np.asarray(s).reshape(-1))
    w = []
    for x in case["w"]:
        w.extend(x.reshape(-1))
    return "run %s %s %d %s %s %d %s | %s | %s | %s" % (
        method, "all" if record_all else "final", len(case["dims"]), rat(case["start"]),
        rat(case["dt"]), case["n"],
        crat(case["a0"]), " ".join(crat(z) for z in case["c"]),
        " ".join(crat(z) for z in w) if w else "0/1", " ".join(crat(z) for z in flat))


def parse_run(out):
    if out == "raises":
        return None
    parts = out.split("|")
    if parts[0] != "ok" or len(parts) != 3:
        raise fw.Infra("driver answer not understood: " + out[:200])
    fields = [fw.parse_crat(x) for x in parts[1].split()]
    calls = []
    for tok in parts[2].split():
        t, idx, f = tok.split(":")
        calls.append((parse_rat(t), int(idx), fw.parse_crat(f)))
    return fields, calls


def compare_with_model(res_obj, label, case, real, model, rows, record_all):
    """real run vs the Lean model evaluated on the same logged states.  Returns list of problems."""
    from fractions import Fraction
    bad = []
    if model is None:
        return ["the model says the call raises, the implementation returned"]
    fields, calls = model
    want = real["fields"]
    if len(fields) != len(want):
        bad.append("number of recorded fields: impl %d, model %d" % (len(want), len(fields)))
    else:
        for k, (a, b) in enumerate(zip(want, fields)):
            if abs(a - b) > TOL_MODEL * max(1.0, abs(a)):
                bad.append("field #%d: impl %r, model %r" % (k, a, b))
                break
    if len(calls) != len(real["eom"]):
        bad.append("number of field_eom evaluations: impl %d, model %d" % (len(real["eom"]), len(calls)))
        return bad
    for j, ((t, states, a, _), (mt, midx, ma)) in enumerate(zip(real["eom"], calls)):
        if Fraction(*t.as_integer_ratio()) != mt:
            bad.append("field_eom call #%d: time impl %r, model %r" % (j, t, float(mt)))
            break
        if not all(np.array_equal(x, y) for x, y in zip(states, rows[midx])):
            bad.append("field_eom call #%d: impl does not pass the states of grid point %d" % (j, midx))
            break
        if abs(a - ma) > TOL_MODEL * max(1.0, abs(a)):
            bad.append("field_eom call #%d: field impl %r, model %r" % (j, a, ma))
            break
    return bad


def deriv_calls(case, real, method):
    """index of the (first) derivative evaluation of each step in the field_eom log: every step
    logs its derivative evaluation(s) first, then the two stages (None if the log is not n equal
    blocks)"""
    n = case["n"]
    if n == 0 or len(real["eom"]) % n != 0 or len(real["eom"]) // n < 3:
        return None
    per = len(real["eom"]) // n
    return [per * k for k in range(n)]


def ham_lines(case, real, method):
    """one `ham` op per step for the sampling propagators: (start, dt, step, a_n, derivative_n)"""
    lines = []
    for k, j in enumerate(deriv_calls(case, real, method)):
        t, _, a, d = real["eom"][j]
        lines.append("ham %s %s %d %s %s" % (rat(case["start"]), rat(case["dt"]), k, crat(a), crat(d)))
    return lines


def compare_ham(case, real, outs):
    from fractions import Fraction
    nsys = len(case["dims"])
    log = real["ham"]
    if len(log) != 2 * nsys * case["n"]:
        return ["number of Hamiltonian evaluations: impl %d, model %d" % (len(log), 2 * nsys * case["n"])]
    for k, out in enumerate(outs):
        tok = out.split()
        want = [(parse_rat(tok[0]), fw.parse_crat(tok[1])), (parse_rat(tok[2]), fw.parse_crat(tok[3]))]
        for i in range(nsys):
            for h in range(2):
                si, t, a = log[(k * nsys + i) * 2 + h]
                mt, ma = want[h]
                if si != i or Fraction(*t.as_integer_ratio()) != mt or abs(a - ma) > TOL_MODEL * max(1, abs(a)):
                    return ["Hamiltonian call of step %d, system %d, half %d: impl (%d, %r, %r), "
                            "model (%r, %r)" % (k, i, h + 1, si, t, a, float(mt), ma)]
    return []


def compare_diss(case, real, outs):
    """times handed to the Lindblad rates / operators (sampling propagators) vs the model"""
    from fractions import Fraction
    gam = case.get("gam") or [[] for _ in case["dims"]]
    log = [x for x in real["diss"] if x[0] != "h"]
    want = []
    for k, out in enumerate(outs):
        tok = out.split()
        if len(tok) != 8:
            raise fw.Infra("driver answer not understood: " + out[:200])
        halves = [(parse_rat(tok[4]), parse_rat(tok[5])), (parse_rat(tok[6]), parse_rat(tok[7]))]
        for i in range(len(case["dims"])):
            for (tg, tl) in halves:
                want += [("g", i, j, tg) for j in range(len(gam[i]))]
                want += [("l", i, j, tl) for j in range(len(gam[i]))]
    if len(log) != len(want):
        return ["number of rate/Lindblad-operator evaluations: impl %d, model %d" % (len(log), len(want))]
    for x, y in zip(log, want):
        if x[:3] != y[:3] or Fraction(*x[3].as_integer_ratio()) != y[3]:
            return ["%s of system %d, term %d: impl evaluates it at t=%r, model at t=%r"
                    % ("rate" if y[0] == "g" else "Lindblad operator", y[1], y[2], x[3], float(y[3]))]
    return []


def diss_follow_ham(real):
    """every rate / Lindblad operator is evaluated at the time of the Hamiltonian evaluation of
    the same Liouvillian (theorem plain_dissipator_times), whatever the quadrature nodes are"""
    last = {}
    for kind, i, j, t in real["diss"]:
        if kind == "h":
            last[i] = t
        elif last.get(i) != t:
            return ["%s of system %d, term %d evaluated at t=%r inside the Liouvillian at t=%r"
                    % ("rate" if kind == "g" else "Lindblad operator", i, j, t, last.get(i))]
    return []


def cross_method(case, mft, cd, record_all):
    """mean-field TEMPO vs compute_dynamics_with_field on the same problem (spec-level relation)."""
    bad = []
    if record_all:
        idx = list(range(case["n"] + 1))
    else:
        idx = [case["n"]]
    if len(cd["fields"]) != len(idx) or len(mft["fields"]) != case["n"] + 1:
        return ["lengths: mft %d fields, cdwf %d fields for n=%d record_all=%s"
                % (len(mft["fields"]), len(cd["fields"]), case["n"], record_all)]
    for j, k in enumerate(idx):
        if cd["times"][j] != mft["times"][k]:
            bad.append("time label #%d: mft %r, cdwf %r" % (k, mft["times"][k], cd["times"][j]))
        a, b = mft["fields"][k], cd["fields"][j]
        if abs(a - b) > TOL_CROSS * max(1.0, abs(a)):
            bad.append("field at step %d (t=%r): mft %r, cdwf %r" % (k, mft["times"][k], a, b))
            break
        for i in range(len(case["dims"])):
            if np.max(np.abs(mft["states"][i][k] - cd["states"][i][j])) > TOL_CROSS:
                bad.append("state of system %d at step %d differs by %.3g"
                           % (i, k, np.max(np.abs(mft["states"][i][k] - cd["states"][i][j]))))
                return bad
    return bad


def exact_linear(case, k):
    """exact solution of da/dt = c0 + c1 t at grid point k"""
    t0 = case["start"]
    t = t0 + k * case["dt"]
    return case["a0"] + case["c"][0] * (t - t0) + case["c"][1] * (t * t - t0 * t0) / 2


# ---------------------------------------------------------------------------
# correspondence
# ---------------------------------------------------------------------------

def _safe(fn):
    """run a real computation; exceptions become ('raises', kind)"""
    try:
        return fn(), None
    except Exception as e:            # noqa: BLE001 - the kind is reported
        return None, type(e).__name__


def corpus_cases():
    d = os.path.join(fw.CORPUS, PID)
    out = []
    if os.path.isdir(d):
        for f in sorted(os.listdir(d)):
            if f.endswith(".json"):
                try:
                    data = json.load(open(os.path.join(d, f)))
                    out.append((f, case_from_json(data["failing_input"]["case"])))
                except (KeyError, ValueError, TypeError):
                    continue
    return out


def correspondence(res, tier, rng):
    cases = [("corpus:" + f, c) for f, c in corpus_cases()]
    ngen = 22 if tier == "quick" else 90
    # fixed coverage first, then random
    forced = [dict(dims=[2], n=1, kind="linear-t", start=1.0, dt=0.1, subdiv=None, record_all=True),
              dict(dims=[2, 3, 2], n=3, kind="full", start=-0.7, subdiv=None, record_all=False),
              dict(dims=[2], n=0, kind="full", record_all=True),
              dict(dims=[3, 2], n=2, kind="full", field_in_h=False, subdiv=64, record_all=True),
              dict(dims=[2, 3], n=2, kind="time-only", start=2.3, subdiv=64, record_all=True),
              # default propagator settings everywhere, Hamiltonian fast in t and non-linear in a
              dict(dims=[2], n=3, kind="full", start=-0.3, dt=0.1, subdiv="default", hw=9.0, q=0.9,
                   nl=0, record_all=True),
              # field-free sub-systems with time dependent rates / Lindblad operators
              dict(dims=[2, 3], n=3, kind="full", start=0.5, dt=0.1, field_in_h=False, subdiv=None,
                   nl=2, record_all=True),
              dict(dims=[2], n=3, kind="full", start=0.5, dt=0.1, field_in_h=False,
                   subdiv="default", nl=1, hw=9.0, record_all=False),
              # stationary field (derivative exactly 0), explicitly time dependent H and rates
              dict(dims=[2], n=3, kind="stationary", start=0.5, dt=0.1, field_in_h=False,
                   subdiv="default", nl=1, hw=9.0, record_all=True),
              dict(dims=[2], n=2, kind="stationary-zero", start=-0.3, dt=0.1, field_in_h=False,
                   subdiv=None, nl=1, hw=9.0, record_all=False),
              # unique=True with non-diagonal complex couplings; non-C initial-state layouts
              dict(dims=[2, 3], n=3, kind="full", dt=0.1, subdiv=None, nl=0, unique=True, nondiag=True,
                   layout="C", record_all=True),
              dict(dims=[2], n=2, kind="full", subdiv=None, nl=0, unique=False, nondiag=True,
                   layout="F", record_all=True),
              dict(dims=[3], n=2, kind="full", subdiv=None, nl=0, unique=True, nondiag=False,
                   layout="T", record_all=False),
              dict(dims=[2], n=2, kind="full", subdiv=None, nl=0, layout="slice", record_all=True),
              # MeanFieldTempo continued over several compute() calls
              dict(dims=[2, 3], n=5, kind="full", start=0.7, dt=0.1, subdiv=None, nl=0, unique=False,
                   nondiag=False, layout="C", chunks=[2, 3, 5], record_all=True),
              dict(dims=[2], n=4, kind="time-only", start=-0.7, subdiv=64, nl=0, chunks=[1, 4],
                   record_all=False)]
    for i, f in enumerate(forced):
        cases.append(("forced%d" % i, gen_case(rng, tier, **f)))
    for i in range(ngen - len(forced)):
        cases.append(("gen%d" % i, gen_case(rng, tier)))

    lines, todo = [], []
    for name, case in cases:
        p = Problem(case)
        mft, e1 = _safe(p.run_mft)
        cd, e2 = _safe(p.run_cdwf)
        res.count("systems=%d" % len(case["dims"]))
        res.count("eom:" + case["kind"])
        res.count("start_time%s0" % ("=" if case["start"] == 0.0 else "!="))
        res.count("record_all=%s" % case["record_all"])
        res.count("propagators:" + ("sampled" if case["subdiv"] is None else
                                    "integrated-default-arguments" if case["subdiv"] == "default"
                                    else "integrated"))
        res.count("lindblad-terms=%d" % len((case.get("gam") or [[]])[0]))
        res.count("unique=%s coupling=%s" % (bool(case.get("unique")),
                                             "non-diagonal" if case.get("cu") else "diagonal"))
        res.count("initial-state-layout=" + case.get("layout", "C"))
        res.count("mft compute() calls=%d" % (len(case["chunks"]) if case.get("chunks") else 1))
        if case.get("q") or case["hw"] == 9.0:
            res.count("hamiltonian non-linear in field / fast in t")
        res.count("steps=%d" % case["n"])
        entry = {"name": name, "case": case, "mft": mft, "cd": cd, "e1": e1, "e2": e2, "ops": {}}
        for meth, real, rec in (("mft", mft, True), ("cdwf", cd, case["record_all"])):
            if real is None:
                # the model must predict the failure too: ask it with the other method's states
                other = mft if meth == "cdwf" else cd
                rows = state_table(case, other) if other is not None else None
            else:
                rows = state_table(case, real)
            if rows is None:
                entry["ops"][meth] = None
                continue
            entry["ops"][meth] = (len(lines), rows, rec)
            lines.append(run_line(meth, case, rows, rec))
            if real is not None and case["subdiv"] is None and case["n"] > 0 \
                    and deriv_calls(case, real, meth) is not None:
                hl = ham_lines(case, real, meth)
                entry["ops"][meth + "-ham"] = (len(lines), len(hl))
                lines.extend(hl)
        todo.append(entry)

    out = fw.run_driver(PID, lines)
    if len(out) != len(lines):
        raise fw.Infra("driver returned %d lines for %d inputs" % (len(out), len(lines)))

    # object re-use histories (real code only: a relation between runs, not a model evaluation)
    hist = [("dt", "mft-mft", "AB"), ("dt", "mft-cdwf", "BA")]
    if tier != "quick":
        hist += [(v, pr, o) for v in REUSE_VARIANTS for pr in ("mft-mft", "mft-cdwf")
                 for o in ("AB", "BA")]
    for (variant, pair, order) in hist:
        rc = reuse_case(rng, kind="autonomous" if variant == "start_time" else "full")
        bad, err = _safe(lambda: reuse_history(rc, variant, pair, order))
        res.count("object-reuse:%s/%s" % (pair, variant))
        res.case("reuse:%s:%s:%s start=%r" % (variant, pair, order, rc["start"]), True)
        if bad is None:
            res.disagree("object re-use history raises " + str(err), {"case": case_to_json(rc)})
        for _, b in bad or []:
            res.disagree("object re-use (%s, %s, %s): %s" % (variant, pair, order, b),
                         {"case": case_to_json(rc), "reuse": [variant, pair, order]})

    for e in todo:
        case, name = e["case"], e["name"]
        nontrivial = case["n"] >= 1 and case["kind"] not in ("autonomous", "stationary", "stationary-zero")
        cj = case_to_json(case)
        for meth, real, err in (("mft", e["mft"], e["e1"]), ("cdwf", e["cd"], e["e2"])):
            op = e["ops"].get(meth)
            key = "%s:%s dims=%s n=%d %s start=%r dt=%r rec=%s" % (
                name, meth, case["dims"], case["n"], case["kind"], case["start"], case["dt"],
                case["record_all"])
            if op is None:
                res.case(key, False)
                res.disagree("%s: the states handed to field_eom are not those of %d grid points"
                             % (meth, case["n"] + 1), {"case": cj, "method": meth})
                continue
            i, rows, rec = op
            model = parse_run(out[i])
            if real is None:
                ok = model is None
                res.case(key, False, {"op": lines[i][:120], "impl": "raises " + str(err),
                                      "model": "raises" if model is None else "returns"})
                if not ok:
                    res.disagree("%s raises %s where the model returns" % (meth, err),
                                 {"case": cj, "method": meth, "exception": err})
                continue
            bad = compare_with_model(res, key, case, real, model, rows, rec)
            res.case(key, nontrivial, {"op": lines[i][:100] + " ...",
                                       "impl_fields": [str(f) for f in real["fields"][:3]],
                                       "model_fields": [str(f) for f in (model[0][:3] if model else [])],
                                       "eom_calls": len(real["eom"])})
            for b in bad:
                res.disagree("%s vs model: %s" % (meth, b), {"case": cj, "method": meth, "what": b})
            hop = e["ops"].get(meth + "-ham")
            if hop is not None:
                bad = compare_ham(case, real, out[hop[0]:hop[0] + hop[1]])
                bad += compare_diss(case, real, out[hop[0]:hop[0] + hop[1]])
                res.case(key + " hamiltonian/dissipator-args", nontrivial)
                for b in bad:
                    res.disagree("%s vs model: %s" % (meth, b), {"case": cj, "method": meth, "what": b})
            if real is not None and any(x[0] != "h" for x in real["diss"]):
                res.case(key + " dissipator-times", True)
                for b in diss_follow_ham(real):
                    res.disagree("%s: %s" % (meth, b), {"case": cj, "method": meth, "what": b})
        # the two real methods against each other (times exact, the rest to the truncation level)
        if e["mft"] is not None and e["cd"] is not None:
            bad = cross_method(case, e["mft"], e["cd"], case["record_all"])
            res.case(name + ":cross-method", nontrivial)
            for b in bad:
                res.disagree("methods differ: " + b, {"case": cj, "what": b})
            if case["subdiv"] is not None:
                # integrated propagators: the quadrature nodes are not modelled, but both methods
                # must evaluate the Hamiltonians at the same (time, field) points
                h1, h2 = e["mft"]["ham"], e["cd"]["ham"]
                same = len(h1) == len(h2) and all(
                    x[0] == y[0] and x[1] == y[1] and abs(x[2] - y[2]) <= TOL_CROSS * max(1, abs(x[2]))
                    for x, y in zip(h1, h2))
                res.case(name + ":hamiltonian-args-cross", nontrivial)
                if not same:
                    res.disagree("methods evaluate the Hamiltonians at different (t, field) points",
                                 {"case": cj})
        # no field dependence: each system as in the plain computation
        if not case["field_in_h"] and e["mft"] is not None and e["cd"] is not None and case["n"] >= 1:
            p = Problem(case)
            st, sc = p.run_plain()
            res.case(name + ":field-free", True)
            for i in range(len(case["dims"])):
                d1 = np.max(np.abs(np.array(st[i]) - e["mft"]["states"][i]))
                ref = np.array(sc[i]) if case["record_all"] else np.array(sc[i])[-1:]
                d2 = np.max(np.abs(ref - e["cd"]["states"][i]))
                if d1 > 1e-9 or d2 > 1e-9:
                    res.disagree("field-free system %d: mft-tempo %.3g, cdwf-compute_dynamics %.3g"
                                 % (i, d1, d2), {"case": cj})


# ---------------------------------------------------------------------------
# failing-input search: spec-level oracles on the real code
# ---------------------------------------------------------------------------

def oracle_case(res, case, tag=""):
    """The property text on one problem: both methods return the same states and fields at every
    time; for an equation of motion linear in time the field is the exact solution."""
    cj = case_to_json(case)
    p = Problem(case)
    mft, e1 = _safe(p.run_mft)
    cd, e2 = _safe(p.run_cdwf)
    found = False
    nl = len((case.get("gam") or [[]])[0])
    default = case["subdiv"] == "default"
    what = "start_time=%r dt=%r num_steps=%d systems=%s eom=%s, %s, %d time dependent Lindblad term(s) " \
           "per system, H(t) ~ cos(%.3g t)%s" % (
               case["start"], case["dt"], case["n"], case["dims"], case["kind"],
               "DEFAULT subdiv_limit/liouvillian_epsrel everywhere" if default
               else "subdiv_limit=%r passed to all methods" % (case["subdiv"],),
               nl, case["hw"], " + %.2g |a|^2 A" % case["q"] if case.get("q") and case["field_in_h"] else "")
    if mft is None or cd is None:
        if case["n"] == 0 and cd is None and mft is not None:
            res.fail("zero-steps:compute_dynamics_with_field",
                     {"case": cj, "how": "compute_dynamics_with_field(num_steps=0) raises %s; "
                      "MeanFieldTempo.compute(start_time) returns the initial states and field" % e2})
        else:
            res.fail("raises:" + ("MeanFieldTempo" if mft is None else "compute_dynamics_with_field"),
                     {"case": cj, "how": what, "exception": e1 or e2})
        return True
    if case["kind"] == "linear-t":
        for meth, real, idx in (("MeanFieldTempo", mft, range(case["n"] + 1)),
                                ("compute_dynamics_with_field", cd,
                                 range(case["n"] + 1) if case["record_all"] else [case["n"]])):
            for j, k in enumerate(idx):
                ex = exact_linear(case, k)
                if abs(real["fields"][j] - ex) > 1e-9 * max(1.0, abs(ex)):
                    res.fail("heun-linear:" + meth,
                             {"case": cj, "how": "%s, field equation c0 + c1*t (%s): field at step %d is "
                              "%r, the exact solution (which Heun's rule reproduces) is %r"
                              % (meth, what, k, real["fields"][j], ex),
                              "got": [str(x) for x in real["fields"]],
                              "exact": [str(exact_linear(case, kk)) for kk in idx]})
                    found = True
                    break
    layout = case.get("layout", "C")
    feat = (" unique" if case.get("unique") else "") + \
        (" non-diagonal-coupling" if case.get("cu") else "") + \
        (" initial-state-layout=" + layout if layout != "C" else "") + \
        (" continued-run" if case.get("chunks") else "")
    what += feat + (" (MeanFieldTempo.compute called up to steps %s in turn)" % case["chunks"]
                    if case.get("chunks") else "")
    if case.get("chunks") and case["n"] >= 1:
        # a computation split over several compute() calls returns what a single call returns
        ref, _ = _safe(lambda: p.run_mft(chunks=None))
        if ref is not None:
            if ref["times"] != mft["times"] or len(ref["fields"]) != len(mft["fields"]):
                res.fail("continued-run:MeanFieldTempo",
                         {"case": cj, "how": "MeanFieldTempo computed in %d compute() calls returns the "
                          "times %r, a single call %r (%s)" % (len(case["chunks"]), mft["times"],
                                                               ref["times"], what),
                          "times_continued": mft["times"], "times_one_shot": ref["times"]})
                found = True
            else:
                dd = max(float(np.max(np.abs(np.array(mft["fields"]) - np.array(ref["fields"])))),
                         max(float(np.max(np.abs(mft["states"][i] - ref["states"][i])))
                             for i in range(len(case["dims"]))))
                if dd > TOL_SAME:
                    res.fail("continued-run:MeanFieldTempo",
                             {"case": cj, "diff": dd, "how": "MeanFieldTempo computed in %d compute() "
                              "calls differs by %.3g from the single call (%s)"
                              % (len(case["chunks"]), dd, what)})
                    found = True
    if case.get("unique") and case["n"] >= 1:
        # degeneracy checking must not change the result (MeanFieldTempo unique=True vs False)
        ref, _ = _safe(lambda: p.run_mft(unique=False))
        if ref is not None:
            dd = max(float(np.max(np.abs(np.array(mft["fields"]) - np.array(ref["fields"])))),
                     max(float(np.max(np.abs(mft["states"][i] - ref["states"][i])))
                         for i in range(len(case["dims"]))))
            if dd > TOL_CROSS:
                res.fail("unique:MeanFieldTempo" + (" non-diagonal-coupling" if case.get("cu") else ""),
                         {"case": cj, "diff": dd, "how": "MeanFieldTempo(unique=True) differs by %.3g from "
                          "the unique=False run (%s)" % (dd, what)})
                found = True
    if layout != "C" and case["n"] >= 1:
        # the memory layout of the initial states is not part of their value
        for meth, real, rerun in (("MeanFieldTempo", mft, lambda: p.run_mft(layout="C")),
                                  ("compute_dynamics_with_field", cd, lambda: p.run_cdwf(layout="C"))):
            ref, _ = _safe(rerun)
            if ref is None:
                continue
            dd = max(float(np.max(np.abs(np.array(real["fields"]) - np.array(ref["fields"])))),
                     max(float(np.max(np.abs(real["states"][i] - ref["states"][i])))
                         for i in range(len(case["dims"]))))
            if dd > TOL_SAME:
                res.fail("initial-state-layout:%s layout=%s" % (meth, layout),
                         {"case": cj, "diff": dd, "how": "%s started from the same density matrices in "
                          "memory layout %s (F = Fortran copy, T = transposed view, slice = strided "
                          "view) differs by %.3g from the C-contiguous run (%s)"
                          % (meth, layout, dd, what)})
                found = True
    bad = cross_method(case, mft, cd, case["record_all"])
    if bad:
        dep = "default-arguments" if default else \
            "time-dependent-eom" if case["kind"] != "autonomous" else "autonomous-eom"
        dep += feat
        res.fail("cross-method:" + dep,
                 {"case": cj, "how": "MeanFieldTempo and compute_dynamics_with_field (process tensors "
                  "of the same baths) differ, %s: %s" % (what, "; ".join(bad[:3])),
                  "mft_fields": [str(x) for x in mft["fields"]],
                  "cdwf_fields": [str(x) for x in cd["fields"]]})
        found = True
    if not case["field_in_h"] and case["n"] >= 1:
        st, sc = p.run_plain()
        for i in range(len(case["dims"])):
            d1 = np.max(np.abs(np.array(st[i]) - mft["states"][i]))
            ref = np.array(sc[i]) if case["record_all"] else np.array(sc[i])[-1:]
            d2 = np.max(np.abs(ref - cd["states"][i]))
            suffix = (" time-dependent-dissipators" if nl else "") + \
                (" default-arguments" if default else "") + \
                (" stationary-field" if case["kind"].startswith("stationary") else "")
            if d1 > 1e-9:
                res.fail("no-field-dependence:MeanFieldTempo" + suffix,
                         {"case": cj, "diff": d1, "how": "the Hamiltonians ignore the field, yet system "
                          "%d of MeanFieldTempo differs by %.3g from Tempo with the same "
                          "TimeDependentSystem (%s)" % (i, d1, what)})
                found = True
            if d2 > 1e-9:
                res.fail("no-field-dependence:compute_dynamics_with_field" + suffix,
                         {"case": cj, "diff": d2, "how": "the Hamiltonians ignore the field, yet system "
                          "%d of compute_dynamics_with_field differs by %.3g from compute_dynamics with "
                          "the same TimeDependentSystem and process tensor (%s)" % (i, d2, what)})
                found = True
            if found:
                break
    return found


# -- object re-use histories ---------------------------------------------------------------

REUSE_VARIANTS = ("dt", "start_time", "subdiv_limit")


def reuse_partner(case, variant):
    """the second computation of a re-use history: the same physical problem with another time
    step / start time / propagator setting"""
    b = dict(case)
    b["chunks"] = None
    if variant == "dt":
        b["dt"] = case["dt"] / 2
        b["n"] = 2 * case["n"]
    elif variant == "start_time":
        b["start"] = case["start"] + 0.37
    else:
        b["subdiv"] = "default" if case["subdiv"] is None else None
    return b


def _dist(x, y, nsys):
    """None if the two results have different time axes, else the largest deviation"""
    if x["times"] != y["times"] or len(x["fields"]) != len(y["fields"]):
        return None
    return max(float(np.max(np.abs(np.array(x["fields"]) - np.array(y["fields"])))),
               max(float(np.max(np.abs(x["states"][i] - y["states"][i]))) for i in range(nsys)))


def reuse_history(case, variant, pair, order):
    """ONE MeanFieldSystem (and its TimeDependentSystemWithField objects) used by two computations
    A (= case) and B (= reuse_partner): both are set up first and run afterwards in the given order
    ("AB"/"BA"); pair "mft-mft": two MeanFieldTempo objects, "mft-cdwf": A is a MeanFieldTempo, B a
    compute_dynamics_with_field call.  Each result must equal the same computation on fresh system
    objects (TOL_SAME), and the MeanFieldTempo results must agree with compute_dynamics_with_field.
    Returns a list of (which, text)."""
    nsys = len(case["dims"])
    case = dict(case, chunks=None)
    cb = reuse_partner(case, variant)
    pa, pb = Problem(case), Problem(cb)
    shared = pa.mfs
    ma = pa.mft_object(shared)
    got = {}
    if pair == "mft-mft":
        mb = pb.mft_object(shared)
        for w in order:
            got[w] = pa.compute_object(ma) if w == "A" else pb.compute_object(mb)
    else:
        for w in order:
            got[w] = pa.compute_object(ma) if w == "A" else pb.run_cdwf(record_all=True, mfs=shared)
    fresh_a = Problem(case).run_mft()
    fb = Problem(cb)
    fresh_b = fb.run_mft() if pair == "mft-mft" else fb.run_cdwf(record_all=True)
    bad = []
    for w, fresh, name in (("A", fresh_a, "MeanFieldTempo (first set up)"),
                           ("B", fresh_b, "MeanFieldTempo (second set up)" if pair == "mft-mft"
                            else "compute_dynamics_with_field")):
        d = _dist(got[w], fresh, nsys)
        if d is None or d > TOL_SAME:
            bad.append((w, "%s, run %s in the order %s on the shared system objects, %s the same "
                        "computation on fresh system objects" % (
                            name, "first" if order[0] == w else "second", order,
                            "has another time axis than" if d is None else "differs by %.3g from" % d)))
    # across methods, on the shared objects' results
    ref_a = Problem(case).run_cdwf(record_all=True)
    if cross_method(case, got["A"], ref_a, True):
        bad.append(("A-cross", "MeanFieldTempo on the shared system objects differs from "
                    "compute_dynamics_with_field: " + cross_method(case, got["A"], ref_a, True)[0]))
    if pair == "mft-mft":
        ref_b = Problem(cb).run_cdwf(record_all=True)
        if cross_method(cb, got["B"], ref_b, True):
            bad.append(("B-cross", "the second MeanFieldTempo on the shared system objects differs from "
                        "compute_dynamics_with_field: " + cross_method(cb, got["B"], ref_b, True)[0]))
    return bad


def oracle_reuse(res, case, variant, pair, order):
    bad, err = _safe(lambda: reuse_history(case, variant, pair, order))
    if bad is None:
        res.fail("object-reuse:raises %s" % pair, {"case": case_to_json(case), "exception": err,
                 "reuse": {"variant": variant, "pair": pair, "order": order}})
        return True
    if bad:
        key = "object-reuse:%s differing-%s" % (
            "MeanFieldTempo/MeanFieldTempo" if pair == "mft-mft"
            else "MeanFieldTempo/compute_dynamics_with_field", variant)
        cb = reuse_partner(case, variant)
        res.fail(key, {"case": case_to_json(case),
                       "reuse": {"variant": variant, "pair": pair, "order": order},
                       "how": "one MeanFieldSystem object shared by A (dt=%r, start_time=%r, "
                              "subdiv_limit=%r, %d steps) and B (dt=%r, start_time=%r, subdiv_limit=%r, "
                              "%d steps), both set up before either is run: %s"
                              % (case["dt"], case["start"], case["subdiv"], case["n"], cb["dt"],
                                 cb["start"], cb["subdiv"], cb["n"], "; ".join(t for _, t in bad))})
        return True
    return False


def reuse_case(rng, **force):
    kw = dict(dims=[2], n=3, kind="full", start=0.7, dt=0.1, subdiv=None, nl=1, unique=False,
              nondiag=False, layout="C", chunks=None, record_all=True, hw=9.0)
    kw.update(force)
    return gen_case(rng, "quick", **kw)


def witness_case():
    """DESIGN §5 #6: f = 2t, t0 = 1, dt = 0.1, a0 = 0.3: one step gives 0.51 exactly"""
    rng = random.Random(1234)
    case = gen_case(rng, "quick", dims=[2], n=1, kind="linear-t", start=1.0, dt=0.1, subdiv=None,
                    record_all=True, field_in_h=False, nl=0, q=0.0, hw=1.0)
    case["c"] = [0j, 2 + 0j, 0j, 0j, 0j]
    case["a0"] = 0.3 + 0j
    return case


def search(res, rng=None):
    rng = rng or random.Random(res.seed + 17)
    # (a) the design's witness (the counter-example of the broken time obligation) and the corpus
    oracle_case(res, witness_case())
    for _, case in corpus_cases():
        oracle_case(res, case)
    # (b) the inputs on which model and implementation (or the two methods) disagreed
    for d in res.disagreements[:4]:
        cj = d["input"].get("case") if isinstance(d["input"], dict) else None
        if cj is not None:
            oracle_case(res, case_from_json(cj))
    # (c) zero steps
    oracle_case(res, gen_case(rng, "quick", dims=[2], n=0, kind="full"))
    # (c') default propagator settings with a Hamiltonian fast in t and non-linear in the field;
    #      field-free sub-systems with time dependent dissipators, sampled and default-integrated
    oracle_case(res, gen_case(rng, "quick", dims=[2], n=4, kind="full", start=-0.3, dt=0.1,
                              subdiv="default", hw=9.0, q=0.9, nl=0, record_all=True))
    oracle_case(res, gen_case(rng, "quick", dims=[2], n=4, kind="full", start=0.5, dt=0.1,
                              field_in_h=False, subdiv=None, nl=2, record_all=True))
    oracle_case(res, gen_case(rng, "quick", dims=[2], n=4, kind="full", start=0.5, dt=0.1,
                              field_in_h=False, subdiv="default", nl=1, hw=9.0, record_all=True))
    # (c'') stationary field (field_eom = 0, and field_eom = c a from a0 = 0: derivative exactly 0):
    #       the sub-systems must still follow the explicit time dependence of H(t), gamma(t), A(t)
    for kind in ("stationary", "stationary-zero"):
        for sub in ("default", None):
            oracle_case(res, gen_case(rng, "quick", dims=[2], n=4, kind=kind, start=0.5, dt=0.1,
                                      field_in_h=False, subdiv=sub, nl=1, hw=9.0, record_all=True))
    # (c3) degeneracy checking with non-diagonal complex couplings (2- and 3-level systems);
    #      initial states in Fortran / transposed / strided layouts
    oracle_case(res, gen_case(rng, "quick", dims=[2, 3], n=4, kind="full", dt=0.1, subdiv=None, nl=0,
                              unique=True, nondiag=True, layout="C", record_all=True))
    for lay in ("F", "T", "slice"):
        oracle_case(res, gen_case(rng, "quick", dims=[2], n=2, kind="full", dt=0.1, subdiv=None, nl=0,
                                  unique=False, nondiag=False, layout=lay, record_all=True))
    # (c4) continued runs: MeanFieldTempo in 2-4 compute() calls, start_time != 0, time dependent
    #      field equation, two systems of different dimension
    for chunks, n in (([2, 6], 6), ([1, 3, 6], 6), ([1, 2, 4, 5], 5)):
        oracle_case(res, gen_case(rng, "quick", dims=[2, 3], n=n, kind="full", start=0.7, dt=0.1,
                                  subdiv=None, nl=0, unique=False, nondiag=False, layout="C",
                                  chunks=chunks, record_all=True))
    # (c5) object re-use: one MeanFieldSystem shared by two computations set up before either runs
    for variant in REUSE_VARIANTS:
        for order in ("AB", "BA"):
            oracle_reuse(res, reuse_case(rng, kind="autonomous" if variant == "start_time" else "full"),
                         variant, "mft-mft", order)
    for order in ("AB", "BA"):
        oracle_reuse(res, reuse_case(rng), "dt", "mft-cdwf", order)
        oracle_reuse(res, reuse_case(rng, dims=[2, 3], subdiv="default", nl=0), "dt", "mft-mft", order)
    # (d) fresh inputs: linear-in-time and fully time dependent equations, start_time != 0,
    #     1-3 systems, both record_all settings, field-free Hamiltonians
    for i in range(10):
        force = {"kind": ["linear-t", "full", "time-only", "autonomous"][i % 4],
                 "record_all": bool(i % 2)}
        if i % 5 == 4:
            force["field_in_h"] = False
        if i % 3 == 0:
            force["start"] = rng.choice([1.0, -0.7, 2.3])
        oracle_case(res, gen_case(rng, "quick", **force))


# ---------------------------------------------------------------------------

def run(tier, seed, replay):
    res = fw.Result(PID, tier, seed, level="proof")
    rng = random.Random(seed)
    res.rule = (
        "mean-field problems: 1-3 systems of dimensions 2/3, random Hermitian time- and field-dependent "
        "Hamiltonians, field equation c0+c1 t+c2 t^2+c3 a+c4 a t+sum tr(W rho) (sub-families linear-t, "
        "time-only, autonomous, stationary f=0 / f=c*a from a0=0), start_time in {0, !=0}, dt in {0.1,0.05,0.2,0.125,0.07}, 0-6 steps, "
        "both record_all settings, propagators sampled (subdiv_limit=None), integrated (64) and with the "
        "methods' DEFAULT settings (nothing passed), Hamiltonians slow/fast (cos 9t) in t and linear / "
        "|a|^2 in the field, MeanFieldTempo unique in {False, True}, coupling operators diagonal / "
        "rotated by a complex unitary, initial states C / Fortran / transposed-view / strided, "
        "MeanFieldTempo in one or 2-4 compute() calls, object re-use histories (one MeanFieldSystem "
        "shared by two computations differing in dt / start_time / subdiv_limit, set up first, run in "
        "both orders, vs fresh objects 1e-9 and across methods), "
        "0-2 time dependent Lindblad rates and operators per system (times handed "
        "to them logged and compared with dissArgs bit-exactly; in integrated runs against the "
        "Hamiltonian's time of the same Liouvillian), baths with dkmax 1-3.  Real "
        "MeanFieldTempo and compute_dynamics_with_field (process tensors of the same baths) run with "
        "the user's field_eom / Hamiltonians wrapped to log every (t, states, field) argument; the "
        "Lean model (mftIter / cdwfRun / hamArgs, the definitions of the theorems) runs on the logged "
        "states: times compared bit-exactly, state lists by identity of the grid point, fields to "
        "1e-10; the two real methods against each other (labels exact, fields/states 2e-7); "
        "field-free Hamiltonians against Tempo / compute_dynamics (1e-9).  Non-trivial = at least one "
        "step and an explicitly time-dependent equation; distinct = distinct case x method x aspect.")
    res.assumptions = [
        "binary64 model: round-to-nearest-even on rationals, no overflow/subnormal/NaN",
        "the user's field_eom and Hamiltonians are pure functions of their arguments",
        "hnet: the process tensors handed to compute_dynamics_with_field are those of the baths "
        "handed to MeanFieldTempo, so PT-MPO number k advances the joint state like TEMPO's network "
        "step k+1 (property C02); the tensor-network step itself is abstract in this model",
        "no controls (MeanFieldTempo has none; control_list=None in compute_dynamics_with_field)",
        "theorems about the field are exact-arithmetic statements for given (binary64) stage times; "
        "mft_linear_exact additionally assumes a grid binary64 represents exactly",
    ]
    res.not_shown = [
        "accuracy of the linearised-field propagators (expm / quad_vec of the Liouvillian) and of the "
        "tensor-network contraction: the system step is a parameter of the model (C02/C03 cover it)",
        "round-off in the time grid t_n = start + n*dt propagating into the field (second order in "
        "2^-53; the closed form is proved on exactly representable grids and checked numerically "
        "to 1e-9 on others)",
        "second-order convergence of Heun's rule for general equations of motion (only exactness for "
        "equations linear in time is proved)",
        "MeanFieldDynamics.add keeps times/fields/states aligned (sorted insert; same code as C13's "
        "Dynamics.add, checked here only through the returned labels)",
    ]
    if replay:
        data = json.load(open(replay))
        case = case_from_json(data["failing_input"]["case"])
        ru = data["failing_input"].get("reuse")
        # the oracles of the property text on this one input; no evidence file is written
        if (oracle_reuse(res, case, ru["variant"], ru["pair"], ru["order"]) if isinstance(ru, dict)
                else oracle_case(res, case)):
            seen = set()
            for key, payload in res.failing:
                if key not in seen:
                    seen.add(key)
                    path = fw.write_replay(PID, {"property": PID, "key": key, "failing_input": payload,
                                                 "broken": ["replay"], "seed": seed})
                    fw.log("VIOLATION property=%s replay=%s" % (PID, path))
            return 1
        fw.log("OK property=%s replay=%s holds on this tree" % (PID, os.path.basename(replay)))
        return 0
    fw.standard_pipeline(res, ["MeanFieldTimes"], THEOREMS)
    translated = all(o[1] for o in res.obligations if o[0].startswith("translator"))
    try:
        if translated:
            correspondence(res, tier, rng)
        else:
            res.notes.append("correspondence skipped: generated model unavailable")
    except fw.Infra as e:
        res.oblige("correspondence run", False, str(e))
    return fw.finish(res, search)
