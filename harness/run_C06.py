"""C06 — unique=True never changes results.  DESIGN.md §4 C06."""
import random
import numpy as np
from . import framework as fw
from .framework import rat

PID = "C06"
THEOREMS = ["OQuPyVerif.Props.C06.repr_class", "OQuPyVerif.Props.C06.unique_tables_eq",
            "OQuPyVerif.Props.C06.weight_congr_I", "OQuPyVerif.Props.C06.unique_eq_full",
            "OQuPyVerif.Props.C06.inflEntry_keyed",
            "OQuPyVerif.Props.C06.close_with_ones", "OQuPyVerif.Props.C06.closing_vectors",
            "OQuPyVerif.Props.C06.reduced_legs_close_to_plain_sum"]
TOL = 1e-8


def dyadic_eigs(rng, d):
    """eigenvalue multisets with many coincidences of o_i - o_j and o_i + o_j (exact in binary64)"""
    pattern = rng.choice(["generic", "equispaced", "repeated", "symmetric", "total", "zero"])
    if pattern == "generic":
        ev = rng.sample([k / 8 for k in range(-12, 13)], d)
    elif pattern == "equispaced":
        ev = [0.25 * k for k in range(d)]
    elif pattern == "repeated":
        ev = [rng.choice([-0.5, 0.5, 0.0]) for _ in range(d)]
    elif pattern == "symmetric":
        ev = [(-1) ** k * 0.5 * ((k + 1) // 2) for k in range(d)]
    elif pattern == "total":
        ev = [0.75] * d
    else:
        ev = [0.0] + [rng.choice([0.0, 1.0]) for _ in range(d - 1)]
    rng.shuffle(ev)
    return ev, pattern


def dyn_eigs_distinct_patterns(rng, d):
    """two-level patterns with different degeneracy structure (|0><0|, |1><1|, sigma_z/2, ...)"""
    return rng.choice([([1.0, 0.0], "proj0"), ([0.0, 1.0], "proj1"), ([0.5, -0.5], "sz"),
                       ([0.5, 0.5], "total"), ([0.0, 0.0], "zero")])


def correspondence(res, tier, rng):
    import oqupy
    from . import cases, tensors
    # (1) degeneracy maps, exactly
    nmap = 40 if tier == "quick" else 300
    lines, expect = [], []
    for _ in range(nmap):
        d = rng.choice([2, 3, 4, 5])
        ev, pattern = dyadic_eigs(rng, d)
        bath = oqupy.Bath(np.diag(np.array(ev, dtype=complex)), oqupy.CustomCorrelations(lambda t: 1.0))
        comm, acomm = bath.coupling_comm.real, bath.coupling_acomm.real
        lines.append("rowdeg " + " | ".join("%s %s" % (rat(c), rat(a)) for c, a in zip(comm, acomm)))
        expect.append(" ".join(str(int(x)) for x in bath.north_degeneracy_map))
        lines.append("rowdeg " + " | ".join(rat(c) for c in comm))
        expect.append(" ".join(str(int(x)) for x in bath.west_degeneracy_map))
        res.count("maps:%s:d=%d" % (pattern, d))
    out = fw.run_driver("PathSum", lines)
    for l, e, g in zip(lines, expect, out):
        res.case(l, True, None)
        if e != g:
            res.disagree("degeneracy map differs from rowDegeneracy", {"line": l, "impl": e, "model": g})
    # (2) reduced tables are the full ones read at representatives; unique runs vs model
    ncase = 5 if tier == "quick" else 30
    tl, meta = [], []
    for i in range(ncase):
        d = rng.choice([2, 2, 3])
        ev, pattern = dyadic_eigs(rng, d)
        if i == 0:
            # a repeated eigenvalue: several (difference, sum) pairs share one NORTH class
            d, ev, pattern = 3, [1.0, 1.0, 2.0], "repeated"
        elif i == 1:
            d, ev, pattern = 2, [0.5, 0.5], "total"
        n = rng.randrange(2, 4 if d == 2 else 3)
        beyond = (i == 2)
        if beyond:
            d, n = 2, 4
            ev, pattern = dyadic_eigs(rng, d)
        kind = "nondiag" if (i % 3 == 2 and len(set(ev)) == d) else "diag"
        coupling = np.diag(np.array(ev, dtype=complex))
        if kind == "nondiag":
            v = cases.rand_unitary(rng, d)
            coupling = v @ coupling @ v.conj().T
            coupling = (coupling + coupling.conj().T) / 2
        case = cases.physical_case(rng, tier, d=d, n=n)
        if beyond:
            # four steps with a memory of one step and an additional correlation time of 1.5 dt:
            # the back-integrated tables (dk = -1, -2, -3) differ from each other and must be
            # reduced like all others
            case["dkmax"], case["tau"] = 1, 1.5 * case["dt"]
            case["desc"]["dkmax"], case["desc"]["add_correlation_time"] = 1, case["tau"]
        case["coupling"] = coupling
        case["desc"]["coupling"] = "%s:%s" % (kind, pattern)
        tu = cases.make_tempo(case, unique=True)
        bath = tu._bath
        north, west = bath.north_degeneracy_map, bath.west_degeneracy_map
        # exact check: reduced real tables = full real tables at the first positions
        for dk in tensors.needed_ids(case["dkmax"], case["tau"] is not None, n):
            red = tu._influence(dk)
            full = oqupy.tempo.influence_matrix(dk, parameters=tu._parameters,
                                                correlations=tu._correlations,
                                                coupling_acomm=bath.coupling_acomm,
                                                coupling_comm=bath.coupling_comm)
            npos = [int(np.where(north == c)[0][0]) for c in range(north.max() + 1)]
            wpos = [int(np.where(west == c)[0][0]) for c in range(west.max() + 1)]
            exp_red = None if full is None else (np.diag(full)[npos] if dk == 0
                                                 else full[np.ix_(npos, wpos)])
            if red is None or full is None or red.shape != exp_red.shape \
                    or not np.array_equal(red, exp_red):
                res.disagree("reduced influence table is not the full table at the class "
                             "representatives", {"case": case["desc"], "dk": dk,
                                                 "reduced_is_None": red is None})
        line = tensors.tempo_line(tu, n) + " | north " + " ".join(str(int(x)) for x in north) \
            + " | west " + " ".join(str(int(x)) for x in west)
        dyn_u = tu.compute(cases.end_time(case), progress_type="silent")
        tf = cases.make_tempo(case, unique=False)
        dyn_f = tf.compute(cases.end_time(case), progress_type="silent")
        tl += [line, tensors.tempo_line(tf, n)]
        # PT-TEMPO with unique=True on the same problem (by C02's pt_dynamics_eq_tempo its dynamics
        # are tempoState of the same tables): compared with the reduced-table model below
        ptu = cases.make_pt(case, unique=True)
        dyn_p = oqupy.compute_dynamics(case["system"], initial_state=case["rho0"], process_tensor=ptu,
                                       start_time=case["start"], progress_type="silent")
        meta.append((case["desc"], [np.array(s).reshape(-1) for s in dyn_u.states],
                     [np.array(s).reshape(-1) for s in dyn_f.states], len(set(north)), len(set(west)),
                     [np.array(s).reshape(-1) for s in dyn_p.states]))
        res.count("run:%s:d=%d" % (case["desc"]["coupling"], d))
    # (2b) mean-field TEMPO with several species: every species' backend must read ITS OWN bath's
    #      tables at ITS OWN representatives (exact)
    nm = 3 if tier == "quick" else 12
    for i in range(nm):
        d = 2
        ev_a, pa = dyn_eigs_distinct_patterns(rng, d)
        ev_b, pb = dyn_eigs_distinct_patterns(rng, d)
        baths = [oqupy.Bath(np.diag(np.array(ev, dtype=complex)), oqupy.PowerLawSD(0.2, 1.0, 3.0))
                 for ev in (ev_a, ev_b)]
        from oqupy import operators as op
        tsys = oqupy.TimeDependentSystemWithField(lambda t, a: 0.5 * op.sigma("x") + 0.1 * np.real(a) * op.sigma("z"))
        mfs = oqupy.MeanFieldSystem([tsys, tsys], lambda t, st, a: -0.1j * a)
        par = oqupy.TempoParameters(dt=0.1, epsrel=1e-8, dkmax=3)
        mft = oqupy.MeanFieldTempo(mean_field_system=mfs, bath_list=baths,
                                   initial_state_list=[op.spin_dm("z+"), op.spin_dm("x+")],
                                   initial_field=1.0, start_time=0.0, parameters=par, unique=True)
        for j, (backend, bath) in enumerate(zip(mft._backend_instance._backend_list, baths)):
            north, west = bath.north_degeneracy_map, bath.west_degeneracy_map
            maps = backend._degeneracy_maps
            res.case("mft-maps:%d:%d" % (i, j), True, None)
            if maps is None or len(maps) != 2 or not np.array_equal(maps[0], north) \
                    or not np.array_equal(maps[1], west):
                res.disagree("MeanFieldTempo(unique=True): species %d does not use its own bath's "
                             "degeneracy maps" % j, {"eigenvalues": [ev_a, ev_b], "species": j})
            npos = [int(np.where(north == c)[0][0]) for c in range(north.max() + 1)]
            wpos = [int(np.where(west == c)[0][0]) for c in range(west.max() + 1)]
            for dk in (0, 1, 2):
                red = backend._influence(dk)
                full = oqupy.tempo.influence_matrix(dk, parameters=par, correlations=bath.correlations,
                                                    coupling_acomm=bath.coupling_acomm,
                                                    coupling_comm=bath.coupling_comm)
                exp_red = np.diag(full)[npos] if dk == 0 else full[np.ix_(npos, wpos)]
                res.case("mft-tables:%d:%d:%d" % (i, j, dk), True, None)
                if red.shape != exp_red.shape or not np.allclose(red, exp_red, rtol=0, atol=1e-14):
                    res.disagree("MeanFieldTempo(unique=True): species %d reads influence table dk=%d "
                                 "that is not its own bath's table at its own representatives" % (j, dk),
                                 {"eigenvalues": [ev_a, ev_b], "species": j, "dk": dk})
        res.count("mft-species:%s/%s" % (pa, pb))
    out = fw.run_driver("PathSum", tl)
    for i, (desc, ru, rf, nn, nw, rp) in enumerate(meta):
        L = desc["d"] ** 2
        mu = tensors.parse_states(out[2 * i], L)
        mf = tensors.parse_states(out[2 * i + 1], L)
        e1 = max(np.abs(a - b).max() for a, b in zip(ru, mu))
        e2 = max(np.abs(a - b).max() for a, b in zip(rf, mf))
        e3 = max(np.abs(a - b).max() for a, b in zip(mu, mf))
        res.case(repr(desc), nn < L or nw < L,
                 {"case": desc, "north_classes": nn, "west_classes": nw,
                  "Tempo(unique)_vs_model(uniqueTbl)": e1, "Tempo(full)_vs_model": e2,
                  "model_unique_vs_model_full": e3})
        e4 = max(np.abs(a - b).max() for a, b in zip(rp, mu)) if len(rp) == len(mu) else float("inf")
        res.case("pt:" + repr(desc), nn < L or nw < L, None)
        if e4 > 10 * TOL:
            res.disagree("PtTempo(unique=True) + compute_dynamics differs from the reduced-table "
                         "model by %g" % e4, desc)
        if e1 > TOL:
            res.disagree("Tempo(unique=True) differs from the reduced-table model by %g" % e1, desc)
        if e2 > TOL:
            res.disagree("Tempo(unique=False) differs from the model by %g" % e2, desc)
        if e3 > 1e-12:
            res.disagree("model: reduced and full tables give different states (%g) — hypothesis of "
                         "unique_eq_full violated by the code's tables" % e3, desc)


def search(res):
    import oqupy
    from . import cases, oq
    rng = random.Random(res.seed + 606)
    for i in range(16):
        d = rng.choice([2, 3, 3, 4])
        ev, pattern = dyadic_eigs(rng, d)
        if i == 0:
            d, ev, pattern = 3, [1.0, 1.0, 2.0], "repeated"
        elif i == 3:
            # differences that nearly, but not exactly, coincide (1 and 1.00001) on a large offset
            d, ev, pattern = 3, [300.0, 301.0, 302.00001], "nearly-equidistant"
        case = cases.physical_case(rng, "quick", d=d, n=2 if d > 2 else 3)
        case["coupling"] = np.diag(np.array(ev, dtype=complex))
        if i in (1, 2):
            # beyond a finite memory with an additional correlation time (the back-integrated
            # tables, dk < 0, must be reduced like all others; they keep changing while the
            # additional time is being used up)
            case["dkmax"], case["tau"] = 1, (0.7 if i == 1 else 1.5) * case["dt"]
            case["n"] = (4 if d == 2 else 3) if i == 1 else 6
            case["desc"]["dkmax"], case["desc"]["add_correlation_time"] = 1, case["tau"]
            case["desc"]["n"] = case["n"]
        states = {}
        try:
            for unique in (False, True):
                t = cases.make_tempo(case, unique=unique, epsrel=1e-11)
                states["tempo", unique] = t.compute(cases.end_time(case), progress_type="silent").states
                pt = cases.make_pt(case, unique=unique, epsrel=1e-11)
                states["pt", unique] = oqupy.compute_dynamics(
                    case["system"], initial_state=case["rho0"], process_tensor=pt,
                    start_time=case["start"], progress_type="silent").states
        except Exception as e:                              # noqa: BLE001 - the code failing IS the finding
            res.fail("unique-raises:%s:%s" % ("unique" if unique else "full", pattern),
                     {"eigenvalues": ev, "case": case["desc"], "unique": unique,
                      "error": "%s: %s" % (type(e).__name__, str(e)[:200])})
            continue
        if i % 2 == 0 and len(set(ev)) == d:
            # the same comparison with the coupling operator written in a rotated basis
            v = cases.rand_unitary(rng, d)
            rot = dict(case, coupling=v @ case["coupling"] @ v.conj().T)
            rot["coupling"] = (rot["coupling"] + rot["coupling"].conj().T) / 2
            a = cases.make_tempo(rot, unique=True, epsrel=1e-11).compute(cases.end_time(case), progress_type="silent").states
            b = cases.make_tempo(rot, unique=False, epsrel=1e-11).compute(cases.end_time(case), progress_type="silent").states
            err = np.abs(np.array(a) - np.array(b)).max()
            if err > 1e-7:
                res.fail("unique-differs:tempo:nondiagonal:%s" % pattern,
                         {"api": "tempo", "eigenvalues": ev, "rotated": True, "case": case["desc"],
                          "difference": err})
        for api in ("tempo", "pt"):
            err = np.abs(np.array(states[api, True]) - np.array(states[api, False])).max()
            if err > 1e-7:
                res.fail("unique-differs:%s:%s" % (api, pattern),
                         {"api": api, "eigenvalues": ev, "case": case["desc"], "difference": err})


def search_mft(res):
    """mean-field TEMPO with two species coupled to baths of different degeneracy structure"""
    import oqupy
    from oqupy import operators as op
    for (ea, eb) in [([1.0, 0.0], [0.0, 1.0]), ([0.5, -0.5], [1.0, 0.0]),
                     ([0.0, 1.0, 3.0], [0.0, 2.0, 3.0])]:
        out = {}
        for unique in (False, True):
            baths = [oqupy.Bath(np.diag(np.array(e, dtype=complex)), oqupy.PowerLawSD(0.3, 1.0, 3.0))
                     for e in (ea, eb)]
            d = len(ea)
            hx = np.zeros((d, d), dtype=complex)
            for k in range(d - 1):
                hx[k, k + 1] = hx[k + 1, k] = 1.0
            hz = np.diag(np.arange(d, dtype=complex) - (d - 1) / 2)
            tsys = oqupy.TimeDependentSystemWithField(
                lambda t, a, hx=hx, hz=hz: 0.5 * hx + 0.1 * np.real(a) * hz)
            mfs = oqupy.MeanFieldSystem([tsys, tsys], lambda t, st, a, hx=hx: -0.1j * a + 0.05 * np.trace(hx @ st[0]))
            par = oqupy.TempoParameters(dt=0.1, epsrel=1e-10, dkmax=3)
            r0 = np.zeros((d, d), dtype=complex); r0[0, 0] = 1.0
            r1 = np.full((d, d), 1.0 / d, dtype=complex)
            mft = oqupy.MeanFieldTempo(mean_field_system=mfs, bath_list=baths,
                                       initial_state_list=[r0, r1],
                                       initial_field=1.0, start_time=0.0, parameters=par, unique=unique)
            dyn = mft.compute(0.45 if d == 2 else 0.25, progress_type="silent")
            out[unique] = [np.array(d.states) for d in dyn.system_dynamics]
        err = max(np.abs(a - b).max() for a, b in zip(out[True], out[False]))
        if err > 1e-7:
            res.fail("unique-differs:MeanFieldTempo:two-baths",
                     {"api": "MeanFieldTempo", "bath_eigenvalues": [ea, eb], "difference": err})


def search_session(res):
    """a long-running session that creates, uses and discards baths (parameter scan): a bath
    created later must get ITS OWN class representatives, also when it lives at the memory address
    of a discarded one"""
    import gc
    import oqupy
    corr = oqupy.PowerLawSD(alpha=0.3, zeta=1.0, cutoff=5.0, cutoff_type="exponential", temperature=0.2)
    sx3 = np.array([[0.0, 1.0, 0.0], [1.0, 0.0, 1.0], [0.0, 1.0, 0.0]])
    system = oqupy.System(0.7 * sx3 + np.diag([0.3, 0.0, -0.2]))
    rho0 = np.diag([0.0, 1.0, 0.0]).astype(complex)
    par = oqupy.TempoParameters(dt=0.1, dkmax=None, epsrel=1e-9)
    # same class counts, different arrangement
    coup_a, coup_b = np.diag([1.0, 0.0, -1.0]), np.diag([0.0, 1.0, -1.0])

    def states(bath, unique, end):
        t = oqupy.Tempo(system, bath, par, rho0, 0.0, unique=unique)
        return np.array(t.compute(end_time=end, progress_type="silent").states)

    seq = ("150 x (Bath(diag(1,0,-1)); Tempo(unique=True).compute(0.1); discard); gc; new "
           "Bath(diag(0,1,-1)) at a re-used address; unique=True vs unique=False")
    old = set()
    keep, tried = [], 0
    for k in range(3150):
        try:
            if k < 150:
                b = oqupy.Bath(coup_a, corr)
                states(b, True, 0.1)
                old.add(id(b))
                del b
                if k == 149:
                    gc.collect()
                continue
            b = oqupy.Bath(coup_b, corr)
            if id(b) not in old:
                keep.append(b)
                continue
            tried += 1
            err = np.abs(states(b, True, 0.4) - states(b, False, 0.4)).max()
        except Exception as e:                      # noqa: BLE001 - the real code failing IS the finding
            res.fail("unique-raises:tempo:bath created after others were discarded",
                     {"api": "Tempo", "sequence": seq, "at_iteration": k,
                      "error": "%s: %s" % (type(e).__name__, str(e)[:200])})
            return
        if True:
            if err > 1e-7:
                res.fail("unique-differs:tempo:bath created after others were discarded",
                         {"api": "Tempo", "sequence": seq, "difference": err})
                return
            if tried >= 3:
                return
        keep.append(b)


def session_permuted(res):
    """always run: several unique=True computations in ONE process whose coupling operators have the
    same dimension and the same numbers of classes but a different arrangement of the classes
    (diag(0,1,2), diag(0,2,1), diag(1,0,2); Tempo and PT-TEMPO) -- each against unique=False"""
    import oqupy
    corr = oqupy.PowerLawSD(alpha=0.3, zeta=1.0, cutoff=3.0, cutoff_type="exponential", temperature=0.5)
    h = np.array([[0.3, 0.4 - 0.2j, 0.1], [0.4 + 0.2j, -0.1, 0.5j], [0.1, -0.5j, -0.2]])
    system = oqupy.System(h)
    rho0 = np.full((3, 3), 1.0 / 3, dtype=complex)
    par = oqupy.TempoParameters(dt=0.1, dkmax=3, epsrel=1e-9)
    for eig in ([0.0, 1.0, 2.0], [0.0, 2.0, 1.0], [1.0, 0.0, 2.0]):
        out = {}
        for unique in (True, False):
            bath = oqupy.Bath(np.diag(eig).astype(complex), corr)
            t = oqupy.Tempo(system, bath, par, rho0, 0.0, unique=unique)
            out["tempo", unique] = np.array(t.compute(end_time=0.5, progress_type="silent").states)
            pt = oqupy.pt_tempo_compute(bath=bath, start_time=0.0, end_time=0.5, parameters=par,
                                        unique=unique, progress_type="silent")
            out["pt", unique] = np.array(oqupy.compute_dynamics(system, initial_state=rho0, process_tensor=pt,
                                                                start_time=0.0, progress_type="silent").states)
        for api in ("tempo", "pt"):
            err = float(np.abs(out[api, True] - out[api, False]).max())
            res.case("session:%s:%r" % (api, eig), True, {"difference": err})
            res.count("session-permuted:%s" % api)
            if err > 1e-6:
                res.fail("unique-differs:%s:coupling diag%r used after operators with the same class counts"
                         % (api, tuple(eig)),
                         {"api": api, "sequence": "unique=True runs with diag(0,1,2), diag(0,2,1), diag(1,0,2) "
                          "in one process", "coupling_eigenvalues": eig, "difference": err})
                return


def run(tier, seed, replay):
    res = fw.Result(PID, tier, seed, level="proof")
    rng = random.Random(seed)
    res.rule = ("(1) degeneracy maps of real Bath objects for dyadic eigenvalue multisets of dimension 2..5 "
                "(generic, equispaced, repeated, symmetric, total, zeros) vs rowDegeneracy, exact; "
                "(2) reduced influence tables vs full tables at class representatives, exact; "
                "(3) real Tempo(unique=True/False) and PtTempo(unique=True)+compute_dynamics vs tempoState with uniqueTbl / full tables (1e-8) and "
                "model-unique vs model-full (1e-12); forced: repeated eigenvalue, total degeneracy, four steps "
                "beyond a one-step memory with an additional correlation time of 1.5 dt; every mean-field "
                "species uses its own bath's maps and tables (exact).  Non-trivial = at least one class "
                "merges indices.")
    res.assumptions = ["the code rounds keys to 12 decimals before np.unique; the model compares keys "
                       "exactly (inputs are dyadic so both agree)"]
    res.not_shown = ["mean-field TEMPO with unique=True uses the same backend step; no separate theorem"]
    fw.standard_pipeline(res, ["UniqueSums"], THEOREMS)
    try:
        correspondence(res, tier, rng)
    except fw.Infra as e:
        res.oblige("correspondence run", False, str(e))
    session_permuted(res)
    return fw.finish(res, lambda r: (search(r), search_mft(r), search_session(r)))
