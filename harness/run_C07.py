"""C07 — multi-time correlations aligned with their time axes.  See DESIGN.md §4 C07.

Ties
  translator     fragment CorrTimes: arithmetic of `_parse_times`, the axis labels, the
                 dt plumbing, the shape of the index write-back and of the order test.
  correspondence (a) `_parse_times` vs `parseTimes`, exhaustive over small grids;
                 (b) compute_correlations(_nt) with the per-tuple contraction replaced by
                     *tagged* values (each value encodes the step tuple it stands for) vs
                     `corrNt`/`corr2`: parsed steps, axes (bit-exact), NaN mask and the step
                     tuple of every entry;
                 (c) the unmodified code on an environment-free process tensor with a
                     time-dependent system: every entry decoded through single-time calls;
                 (d) which dt reaches the axes / the propagators.
search()         per-entry recomputation with single-time (int, .., int) calls, judged
                 against the property text; independent of the Lean model.
"""
import itertools
import json
import os
import random
import time
import warnings
from decimal import Decimal

import numpy as np

from . import framework as fw
from .framework import rat

PID = "C07"
P = "OQuPyVerif.Props.C07."
THEOREMS = [P + t for t in (
    "aligned", "aligned_index", "indexTuples_valid", "axes_grid", "corr2_ordered", "anti_index",
    "parse_in_range", "parse_int", "parse_float", "parse_list", "parse_interval",
    "parse_slice_forward", "parse_slice_reversed",
    "dt_governs", "dt_tables", "anti_conj", "order_test_exact",
)]

GRIDS = [("0.0", "0.1"), ("0.5", "0.2"), ("-0.3", "0.05"), ("1.7", "0.3")]
TAGB = 1 << 21


# ---------------------------------------------------------------------------
# specs
# ---------------------------------------------------------------------------

def to_py(sp):
    k = sp[0]
    if k == "i":
        return int(sp[1])
    if k == "s":
        return slice(sp[1], sp[2], sp[3])
    if k == "l":
        return [int(x) for x in sp[1]]
    if k == "f":
        return float(sp[1])
    if k == "v":
        return (float(sp[1]), float(sp[2]))
    raise ValueError(sp)


def to_tok(sp):
    k = sp[0]
    if k == "i":
        return "i:%d" % sp[1]
    if k == "s":
        return "s:" + ":".join("N" if x is None else str(x) for x in sp[1:4])
    if k == "l":
        return "l:" + ",".join(str(x) for x in sp[1])
    if k == "f":
        return "f:" + rat(sp[1])
    if k == "v":
        return "v:%s:%s" % (rat(sp[1]), rat(sp[2]))
    raise ValueError(sp)


def spec_json(sp):
    return [sp[0]] + [list(x) if isinstance(x, tuple) else x for x in sp[1:]]


def index_specs(n):
    """every int, every slice with start/stop/step in -n-1..n+1 or None, every list of
    length <= 3 over the valid indices -n-1..n (plus out-of-range ones)"""
    out = [("i", k) for k in range(-n - 2, n + 3)]
    vals = [None] + list(range(-n - 1, n + 2))
    out += [("s", a, b, c) for a in vals for b in vals for c in vals]
    ok = list(range(-n - 1, n + 1))
    for ln in range(0, 4):
        out += [("l", t) for t in itertools.product(ok, repeat=ln)]
    out += [("l", t) for t in [(n + 1,), (-n - 2,), (0, n + 1), (n + 1, 0), (0, -n - 2)]]
    return out


def float_points(n, s_l, d_l, full=True):
    s, d = float(s_l), float(d_l)
    pts = []
    for k in range(-1, n + 2):
        pts.append(s + k * d)                                   # computed grid point
        pts.append(float(Decimal(s_l) + k * Decimal(d_l)))      # decimal literal
        pts.append(s + (k + 0.5) * d)                           # half way (ties)
        if full:
            pts += [s + (k + 0.3) * d, s + (k + 0.7) * d, s + (k + 0.499999) * d]
    return sorted(set(pts))


def float_specs(n, s_l, d_l):
    out = [("f", t) for t in float_points(n, s_l, d_l)]
    pts = float_points(n, s_l, d_l, full=False)
    out += [("v", a, b) for a in pts for b in pts]
    return out


# ---------------------------------------------------------------------------
# running the real code
# ---------------------------------------------------------------------------

def err_kind(e):
    if isinstance(e, IndexError):
        return "err:index"
    if isinstance(e, ValueError) and "zero-size array" in str(e):
        return "err:value"
    if isinstance(e, ValueError) and "No timestep length" in str(e):
        return "err:dtMissing"
    if isinstance(e, AssertionError) and "necessary to specify time step" in str(e):
        return "err:dtMissing"
    if isinstance(e, ValueError) and "same timestep length" in str(e):
        return "err:dtMismatch"
    return "err:other:%s:%s" % (type(e).__name__, str(e)[:80])


def encode(steps):
    s = list(steps) + [0] * (4 - len(steps))
    return complex(s[0] + TAGB * s[1], s[2] + TAGB * s[3])


def decode(z, n):
    re_, im_ = int(round(z.real)), int(round(z.imag))
    s = [re_ % TAGB, re_ // TAGB, im_ % TAGB, im_ // TAGB]
    return tuple(s[:n])


class Tagged:
    """Replace the per-tuple contraction `_compute_ordered_nt_correlations` by tagged values
    and record what `_parse_times` returns.  Everything else is the real code."""

    def __init__(self):
        import oqupy.system_dynamics as sd
        self.sd = sd

    def __enter__(self):
        sd = self.sd
        self.orig = (sd._compute_ordered_nt_correlations, sd._parse_times)
        self.parsed = []
        self.calls = 0

        def fake(system=None, process_tensor=None, operators=None, first_times=None,
                 last_times=None, ops_order=None, initial_state=None, start_time=0.0, dt=None):
            self.calls += 1
            last_times.max()    # the real function does this first: ValueError when empty
            f = tuple(int(x) for x in first_times)
            return np.array([encode(f + (int(l),)) for l in last_times], dtype=complex)

        def parse(*a, **k):
            r = self.orig[1](*a, **k)
            self.parsed.append([int(x) for x in r])
            return r
        sd._compute_ordered_nt_correlations = fake
        sd._parse_times = parse
        return self

    def __exit__(self, *a):
        self.sd._compute_ordered_nt_correlations, self.sd._parse_times = self.orig


def show_outcome(parsed, times, arr, dec):
    steps = ";".join(",".join(str(k) for k in p) for p in parsed)
    axes = ";".join(",".join(rat(float(t)) for t in ax) for ax in times)
    cells = []
    for z in np.asarray(arr).reshape(-1):
        if np.isnan(z.real) or np.isnan(z.imag):
            cells.append("nan")
        else:
            cells.append(",".join(str(k) for k in dec(z)))
    return "steps=%s|axes=%s|tab=%s" % (steps, axes, " ".join(cells))


class Rig:
    """a 2-level system + environment-free process tensors, cached per length"""

    def __init__(self):
        import oqupy
        from oqupy import operators as op
        from . import oq
        self.oqupy, self.op, self.oq = oqupy, op, oq
        self.sys_td = oqupy.TimeDependentSystem(
            lambda t: (0.3 + t) * op.sigma("x") + 0.7 * t * t * op.sigma("z") + 0.2 * op.sigma("y"))
        self.sys_const = oqupy.System(0.5 * op.sigma("x"))
        self.rho = np.array([[0.7, 0.2 - 0.1j], [0.2 + 0.1j, 0.3]], dtype=complex)
        self.ops = [op.sigma("x") + 0.3 * op.sigma("z"), op.sigma("y") + 0.2 * op.sigma("x"),
                    op.sigma("z") + 0.4 * op.sigma("y"), op.sigma("x") - 0.5 * op.sigma("y")]
        self.pts = {}

    def pt(self, n, dt):
        if (n, dt) not in self.pts:
            self.pts[(n, dt)] = self.oq.identity_pt(n, dt=dt) if n > 0 else \
                self.oq.long_trivial_pt(0, dt=dt)
        return self.pts[(n, dt)]

    def nt(self, n, s, d, pyspecs, system=None, order=None, dt_arg=None, pt=None):
        k = len(pyspecs)
        return self.oqupy.compute_correlations_nt(
            system=system or self.sys_const, process_tensor=pt or self.pt(n, d),
            operators=self.ops[:k], ops_times=list(pyspecs),
            ops_order=order or ["left"] * k, initial_state=self.rho, start_time=s,
            dt=dt_arg, progress_type="silent")

    def two(self, n, s, d, pa, pb, anti, system=None, dt_arg=None, pt=None):
        return self.oqupy.compute_correlations(
            system=system or self.sys_const, process_tensor=pt or self.pt(n, d),
            operator_a=self.ops[0], operator_b=self.ops[1], times_a=pa, times_b=pb,
            time_order="anti" if anti else "ordered", initial_state=self.rho, start_time=s,
            dt=dt_arg, progress_type="silent")


# ---------------------------------------------------------------------------
# correspondence
# ---------------------------------------------------------------------------

def correspondence(res, tier, rng, corpus_cases=()):
    import oqupy.system_dynamics as sd
    rig = Rig()
    lines, expect, meta = [], [], []

    def add(line, exp, m):
        lines.append(line)
        expect.append(exp)
        meta.append(m)

    quick = tier == "quick"
    # ---- (a) _parse_times, exhaustive ---------------------------------------
    by_result = {}      # (n, grid) -> {parsed tuple: [specs]}
    ns = [0, 1, 2, 3, 4] if quick else [0, 1, 2, 3, 4, 5, 6]
    for n in ns:
        idx = index_specs(n)
        for gi, (s_l, d_l) in enumerate(GRIDS):
            s, d = float(s_l), float(d_l)
            specs = (idx if gi == 0 else []) + float_specs(n, s_l, d_l)
            table = by_result.setdefault((n, gi), {})
            for sp in specs:
                try:
                    got = [int(x) for x in sd._parse_times(to_py(sp), n, d, s)]
                    exp = "ok " + " ".join(str(k) for k in got)
                    table.setdefault(tuple(got), []).append(sp)
                except Exception as e:    # noqa: BLE001 - mapped to a small enum
                    exp = err_kind(e)
                add("parse %d %s %s %s" % (n, rat(s), rat(d), to_tok(sp)), exp,
                    ("parse", n, s_l, d_l, spec_json(sp)))
                res.count("parse:" + sp[0] + (":err" if exp.startswith("err") else ""))
            if gi > 0:      # index-kind specs do not depend on the grid
                for k, v in by_result[(n, 0)].items():
                    table.setdefault(k, [])
                    table[k] = [x for x in v if x[0] in "isl"] + table[k]

    # ---- (b) tagged values through the real bookkeeping ----------------------
    def run_tagged(n, gi, specs, mode):
        """mode: 'nt' | 'ordered' | 'anti'"""
        s_l, d_l = GRIDS[gi]
        s, d = float(s_l), float(d_l)
        py = [to_py(sp) for sp in specs]
        k = len(specs)
        with Tagged() as tg:
            try:
                if mode == "nt":
                    times, arr = rig.nt(n, s, d, py)
                else:
                    times, arr = rig.two(n, s, d, py[0], py[1], mode == "anti")
                parsed = tg.parsed
                if mode == "anti":
                    parsed = parsed[::-1]
                exp = show_outcome(parsed, times, arr, lambda z: decode(z, k))
            except Exception as e:    # noqa: BLE001
                exp = err_kind(e)
        toks = " ".join(to_tok(sp) for sp in specs)
        if mode == "nt":
            line = "corr %d %s %s %s" % (n, rat(s), rat(d), toks)
        else:
            line = "corr2 %d %d %s %s %s" % (1 if mode == "anti" else 0, n, rat(s), rat(d), toks)
        add(line.rstrip(), exp, ("corr", mode, n, s_l, d_l, [spec_json(sp) for sp in specs]))
        res.count("corr:%s:k=%d%s" % (mode, k, ":err" if exp.startswith("err") else ""))

    for c in corpus_cases:
        run_tagged(c["n"], c["grid"], [tuple(tuple(x) if isinstance(x, list) else x for x in sp)
                                       for sp in c["specs"]], c["mode"])
    # two operators: every pair of distinct parsed step lists (representative specs at random)
    nmax_pairs = 3 if quick else 5
    for n in range(0, nmax_pairs + 1):
        keys = sorted(by_result[(n, 0)])
        for a in keys:
            for b in keys:
                gi = rng.randrange(len(GRIDS))
                tab = by_result[(n, gi)]
                mode = rng.choice(["nt", "ordered", "anti", "ordered"])
                sa, sb = rng.choice(tab[a]), rng.choice(tab[b])
                run_tagged(n, gi, [sa, sb], mode)
    # sampled: larger grids for two operators, 3-4 operators, 0/1 operators
    nsamp = 1500 if quick else 20000
    for i in range(nsamp):
        n = rng.choice([4, 5] if quick else [5, 5, 6])
        if n not in ns:
            n = ns[-1]
        gi = rng.randrange(len(GRIDS))
        tab = by_result[(n, gi)]
        keys = sorted(tab)
        k = rng.choice([2, 2, 3, 3, 4])
        small = [x for x in keys if len(x) <= (6 if k == 2 else 4 if k == 3 else 3)]
        specs = [rng.choice(tab[rng.choice(small)]) for _ in range(k)]
        run_tagged(n, gi, specs, "nt" if k != 2 else rng.choice(["nt", "ordered", "anti"]))
    for n in (2,):
        tab = by_result[(n, 0)]
        run_tagged(n, 0, [], "nt")
        for a in sorted(tab)[:12]:
            run_tagged(n, 0, [rng.choice(tab[a])], "nt")
    # out-of-bound / invalid specs inside a full call
    for bad in [("i", 9), ("i", -1), ("s", 0, 2, 0), ("l", (7,)), ("f", 5.0), ("v", 0.0, 5.0),
                ("v", -1.0, 0.1)]:
        run_tagged(3, 0, [("i", 1), bad], "nt")
        run_tagged(3, 0, [bad, ("i", 1)], "ordered")

    # ---- (d) which dt goes where ---------------------------------------------
    for u in (None, 0.1, 0.2):
        for p in (None, 0.1, 0.2):
            seen = []
            sysm = rig.oqupy.System(0.5 * rig.op.sigma("x"))
            orig = sysm.get_propagators

            def spy(dt, *a, _orig=orig, _seen=seen, **k):
                _seen.append(dt)
                return _orig(dt, *a, **k)
            sysm.get_propagators = spy
            try:
                with warnings.catch_warnings():
                    warnings.simplefilter("ignore")
                    times, _ = rig.two(3, 0.0, None, 1, 2, False, system=sysm, dt_arg=u,
                                       pt=rig.oq.identity_pt(3, dt=p))
                exp = "ok %s %s" % (rat(float(times[0][0])), rat(float(seen[-1])))
            except Exception as e:    # noqa: BLE001
                exp = err_kind(e)
            add("dt %s %s" % ("N" if u is None else rat(u), "N" if p is None else rat(p)), exp,
                ("dt", u, p))
            res.count("dt-flow")

    # ---- run the model ---------------------------------------------------------
    t0 = time.time()
    out = fw.run_driver(PID, lines)
    res.notes.append("driver: %d lines in %.1fs" % (len(lines), time.time() - t0))
    if len(out) != len(lines):
        raise fw.Infra("driver returned %d lines for %d inputs" % (len(out), len(lines)))
    sampled = set()
    for line, exp, got, m in zip(lines, expect, out, meta):
        nontrivial = not exp.startswith("err") and exp not in ("ok ",)
        kind = (m[0], m[1]) if m[0] == "corr" else (m[0], m[-1][0] if m[0] == "parse" else "")
        sample = None
        if nontrivial and kind not in sampled and (m[0] != "parse" or m[-1][0] in "sv") \
                and len(exp) > 12:
            sampled.add(kind)
            sample = {"op": line[:200], "impl": exp[:300], "model": got[:300]}
        res.case(line, nontrivial, sample)
        if exp != got:
            res.disagree("model and implementation differ on: " + line[:200],
                         {"line": line, "impl": exp, "model": got, "meta": m})

    # ---- (c) the unmodified code: every entry decoded through single-time calls -
    real_values(res, rig, rng, 24 if quick else 160)


def value_table(rig, n, s, d, k, mode):
    """single-time calls for every time-ordered step tuple: value -> steps"""
    tab = []
    for steps in itertools.combinations_with_replacement(range(n + 1), k):
        if mode == "nt":
            _, a = rig.nt(n, s, d, list(steps), system=rig.sys_td)
        else:
            # 'anti': entry for (a_n, b_m) with b_m <= a_n; nt steps are (b_m, a_n)
            pa, pb = (steps[0], steps[1]) if mode == "ordered" else (steps[1], steps[0])
            _, a = rig.two(n, s, d, pa, pb, mode == "anti", system=rig.sys_td)
        z = complex(np.asarray(a).reshape(-1)[0])
        tab.append((z, steps))
    zs = np.array([z for z, _ in tab])
    sep = min(abs(zs[i] - zs[j]) for i in range(len(zs)) for j in range(i))
    return tab, sep


def real_values(res, rig, rng, ncases):
    """(c) no wrapping at all: identity process tensor, time-dependent system, so distinct
    step tuples have distinct values; each returned entry is decoded by looking its value up
    among single-time results and compared with the Lean table."""
    tables = {}
    lines, expect, meta = [], [], []
    curated = [
        (3, 0, [("i", 0), ("i", 0)], "nt"),
        (3, 0, [("s", None, None, None), ("s", None, None, -1)], "ordered"),
        (3, 0, [("s", None, None, -1), ("l", (2, 0, 3))], "anti"),
        (3, 0, [("l", (1, 0)), ("s", 0, 3, 2), ("s", None, None, None)], "nt"),
        (3, 0, [("i", 1), ("s", 3, 1, None)], "nt"),
        (3, 1, [("v", 0.5, 1.1), ("v", 1.1, 0.7)], "ordered"),
    ]
    cases = list(curated)
    while len(cases) < ncases:
        n = 3
        gi = rng.randrange(len(GRIDS))
        k = rng.choice([2, 2, 3])
        mode = "nt" if k == 3 else rng.choice(["nt", "ordered", "anti"])
        specs = []
        for _ in range(k):
            kind = rng.choice("islfv")
            s_l, d_l = GRIDS[gi]
            s, d = float(s_l), float(d_l)
            if kind == "i":
                specs.append(("i", rng.randrange(0, n + 1)))
            elif kind == "s":
                specs.append(("s", rng.choice([None, 0, 1, -1, n]), rng.choice([None, 0, 2, -2, n + 1]),
                              rng.choice([None, 1, -1, 2])))
            elif kind == "l":
                specs.append(("l", tuple(rng.sample(range(n + 1), rng.randrange(1, 4)))))
            elif kind == "f":
                specs.append(("f", s + rng.randrange(0, n + 1) * d))
            else:
                specs.append(("v", s + rng.randrange(0, n + 1) * d, s + rng.randrange(0, n + 1) * d))
        cases.append((n, gi, specs, mode))
    for (n, gi, specs, mode) in cases:
        s_l, d_l = GRIDS[gi]
        s, d = float(s_l), float(d_l)
        k = len(specs)
        tkey = (n, gi, k, "anti" if mode == "anti" else "nt" if mode == "nt" else "ordered")
        if tkey not in tables:
            tables[tkey] = value_table(rig, n, s, d, k, tkey[3])
            if tables[tkey][1] < 1e-6:
                raise fw.Infra("tagging system does not separate step tuples (%g)" % tables[tkey][1])
        tab, _sep = tables[tkey]

        def dec(z, tab=tab):
            best = min(tab, key=lambda e: abs(e[0] - z))
            if abs(best[0] - z) > 1e-9:
                return ("unmatched",)
            return best[1]
        py = [to_py(sp) for sp in specs]
        parsed = []
        try:
            import oqupy.system_dynamics as sd
            parsed = [[int(x) for x in sd._parse_times(p, n, d, s)] for p in py]
            if mode == "nt":
                times, arr = rig.nt(n, s, d, py, system=rig.sys_td)
            else:
                times, arr = rig.two(n, s, d, py[0], py[1], mode == "anti", system=rig.sys_td)
            exp = show_outcome(parsed, times, arr, dec)
        except Exception as e:    # noqa: BLE001
            exp = err_kind(e)
        toks = " ".join(to_tok(sp) for sp in specs)
        if mode == "nt":
            line = "corr %d %s %s %s" % (n, rat(s), rat(d), toks)
        else:
            line = "corr2 %d %d %s %s %s" % (1 if mode == "anti" else 0, n, rat(s), rat(d), toks)
        lines.append(line)
        expect.append(exp)
        meta.append(("real", mode, n, s_l, d_l, [spec_json(sp) for sp in specs]))
        res.count("real:%s:k=%d%s" % (mode, k, ":err" if exp.startswith("err") else ""))
    out = fw.run_driver(PID, lines)
    if len(out) != len(lines):
        raise fw.Infra("driver returned %d lines for %d inputs" % (len(out), len(lines)))
    for line, exp, got, m in zip(lines, expect, out, meta):
        res.case("real " + line, not exp.startswith("err"),
                 {"op": "real " + line[:150], "impl": exp[:160], "model": got[:160]})
        if exp != got:
            res.disagree("model and unmodified implementation differ on: " + line[:200],
                         {"line": line, "impl": exp, "model": got, "meta": m})


# ---------------------------------------------------------------------------
# failing-input search on the real code (independent of the Lean model)
# ---------------------------------------------------------------------------

def _steps_of(t, s, d):
    return int(round((float(t) - s) / d))


def check_entries(rig, n, s, d, pyspecs, mode, cache):
    """Judge one real call against the property text.  Returns None or (what, details)."""
    k = len(pyspecs)
    try:
        if mode == "nt":
            times, arr = rig.nt(n, s, d, pyspecs, system=rig.sys_td)
        else:
            times, arr = rig.two(n, s, d, pyspecs[0], pyspecs[1], mode == "anti", system=rig.sys_td)
    except Exception as e:    # noqa: BLE001
        return ("raises", {"exception": "%s: %s" % (type(e).__name__, str(e)[:120])})
    arr = np.asarray(arr)
    for iota in itertools.product(*[range(len(t)) for t in times]):
        steps = tuple(_steps_of(times[j][iota[j]], s, d) for j in range(k))
        nt_steps = steps[::-1] if mode == "anti" else steps
        ordered = all(nt_steps[j] <= nt_steps[j + 1] for j in range(k - 1))
        z = complex(arr[iota])
        isnan = np.isnan(z.real) or np.isnan(z.imag)
        if not ordered:
            if not isnan:
                return ("unordered-entry-not-nan", {"index": list(iota), "steps": list(steps),
                                                    "got": repr(z)})
            continue
        key = (n, s, d, mode, steps)
        if key not in cache:
            if mode == "nt":
                _, a = rig.nt(n, s, d, list(steps), system=rig.sys_td)
            else:
                _, a = rig.two(n, s, d, steps[0], steps[1], mode == "anti", system=rig.sys_td)
            cache[key] = complex(np.asarray(a).reshape(-1)[0])
        want = cache[key]
        if isnan or abs(z - want) > 1e-9:
            return ("misaligned", {"index": list(iota), "returned_times": [float(times[j][iota[j]])
                                                                          for j in range(k)],
                                   "steps": list(steps), "got": repr(z),
                                   "single_time_call_gives": repr(want)})
    return None


def py_repr(p):
    return repr(p).replace(" ", "")


def search(res, rng=None, only=None):
    rng = rng or random.Random(res.seed)
    rig = Rig()
    cache = {}
    seen_classes = set()

    def report(cls, key, payload):
        if cls in seen_classes or (only is not None and key != only):
            return
        seen_classes.add(cls)
        res.fail(key, payload)

    n = 6
    # (1) alignment / NaN mask / no exception for valid specs: curated + random valid specs
    for (s, d) in [(0.0, 0.1), (0.5, 0.2)]:
        valid = [2, 0, n, slice(None), slice(None, None, -1), slice(1, 5, 2), slice(-2, None),
                 [1, 3, 4], [4, 1, 3], [5, 3, 1, 4], [3, 3, 0], s + 3 * d,
                 (s + 1 * d, s + 4 * d), (s + 4 * d, s + 1 * d), (s + 3 * d, s), (s, s + 3 * d),
                 (s + 2 * d, s + 2 * d)]
        combos = [(a, b) for a in valid for b in valid]
        rng.shuffle(combos)
        combos = [(2, [5, 3, 1, 4]), (0, (s + 3 * d, s)), ((s + 3 * d, s), n)] + combos[:120]
        for (a, b) in combos:
            for mode in ("ordered", "anti"):
                bad = check_entries(rig, n, s, d, [a, b], mode, cache)
                if bad:
                    what, det = bad
                    cls = what + ("/interval" if isinstance(a, tuple) or isinstance(b, tuple) else "")
                    report(cls if what == "raises" else what,
                           "%s:%s times_a=%s times_b=%s start=%s dt=%s" % (
                               what, mode, py_repr(a), py_repr(b), s, d),
                           dict(det, api="compute_correlations", time_order=mode, max_step=n,
                                start_time=s, dt=d, times_a=py_repr(a), times_b=py_repr(b)))
        trip = [(a, b, c) for a in valid[:11] for b in valid[:11] for c in valid[:11]]
        rng.shuffle(trip)
        for (a, b, c) in [([1, 2], [2, 1], [3, 0, 2])] + trip[:25]:
            bad = check_entries(rig, n, s, d, [a, b, c], "nt", cache)
            if bad:
                what, det = bad
                report(what + "/nt3", "%s:nt ops_times=%s start=%s dt=%s" % (
                    what, py_repr([a, b, c]), s, d),
                    dict(det, api="compute_correlations_nt", max_step=n, start_time=s, dt=d,
                         ops_times=py_repr([a, b, c])))
    # (2) a time step passed by the caller governs the axes and the dynamics
    ref_t, ref = rig.two(3, 0.0, None, 1, 3, False, system=rig.sys_td, pt=rig.oq.identity_pt(3, dt=0.2))
    for ptdt in (None, 0.1):
        try:
            with warnings.catch_warnings():
                warnings.simplefilter("ignore")
                t, c = rig.two(3, 0.0, None, 1, 3, False, system=rig.sys_td, dt_arg=0.2,
                               pt=rig.oq.identity_pt(3, dt=ptdt))
        except Exception as e:    # noqa: BLE001
            if ptdt is None:
                report("dt-rejected", "dt-argument-rejected: process_tensor.dt=None dt=0.2",
                       {"api": "compute_correlations", "process_tensor_dt": None, "dt": 0.2,
                        "exception": "%s: %s" % (type(e).__name__, str(e)[:120]),
                        "how": "a process tensor without stored dt needs the dt argument, "
                               "but the argument never reaches compute_dynamics"})
            continue        # a refused mismatch makes no claim about axes or values
        axes_dt = float(t[1][0] - t[0][0]) / 2.0
        if abs(axes_dt - 0.2) < 1e-12 and abs(complex(c[0, 0]) - complex(ref[0, 0])) > 1e-9:
            report("dt-not-governing", "dt-argument-labels-axes-only: process_tensor.dt=%s dt=0.2" % ptdt,
                   {"api": "compute_correlations", "process_tensor_dt": ptdt, "dt": 0.2,
                    "returned_times": [float(t[0][0]), float(t[1][0])], "got": repr(complex(c[0, 0])),
                    "dynamics_with_dt_0.2_gives": repr(complex(ref[0, 0])),
                    "how": "axes are labelled with dt=0.2 but the propagators use the stored dt"})
    # (3) the time-ordering test on the earlier operators must be exact for long process tensors
    big = 100001
    pt = rig.oq.long_trivial_pt(big, dt=0.1)
    t, c = rig.nt(big, 0.0, 0.1, [[big], [big - 1], [big]], pt=pt)
    z = complex(np.asarray(c).reshape(-1)[0])
    if not (np.isnan(z.real) or np.isnan(z.imag)):
        report("unordered-long", "unordered-entry-not-nan:nt ops_times=[[100001],[100000],[100001]]",
               {"api": "compute_correlations_nt", "max_step": big, "dt": 0.1,
                "ops_times": "[[100001],[100000],[100001]]", "got": repr(z),
                "how": "steps (100001, 100000, 100001) are not time ordered, yet the entry is not NaN "
                       "(np.allclose with rtol=1e-5 accepts the unsorted tuple)"})


# ---------------------------------------------------------------------------

def replay_one(res, payload):
    """Re-judge one recorded failing input (corpus/C07/defect-*.json, replays/C07-*.json) on the
    real code, with the same oracles as search()."""
    fi, key = payload["failing_input"], payload["key"]
    rig = Rig()
    env = {"slice": slice, "__builtins__": {}}
    if key.startswith(("misaligned", "raises", "unordered-entry-not-nan")) and "max_step" in fi \
            and fi["max_step"] < 1000:
        s, d, n = fi["start_time"], fi["dt"], fi["max_step"]
        if fi["api"] == "compute_correlations":
            specs = [eval(fi["times_a"], env), eval(fi["times_b"], env)]    # noqa: S307 - our own repr
            mode = fi["time_order"]
        else:
            specs, mode = eval(fi["ops_times"], env), "nt"                  # noqa: S307
        bad = check_entries(rig, n, s, d, specs, mode, {})
        if bad:
            res.fail(key, dict(fi, still=bad[0], now=bad[1]))
    else:
        before = len(res.failing)
        search(res, only=key)
        if len(res.failing) == before:
            res.notes.append("replay: %s no longer fails" % key)


def load_corpus():
    d = os.path.join(fw.CORPUS, PID)
    out = []
    if os.path.isdir(d):
        for f in sorted(os.listdir(d)):
            if f.startswith("case-") and f.endswith(".json"):
                out.append(json.load(open(os.path.join(d, f))))
    return out


def run(tier, seed, replay):
    res = fw.Result(PID, tier, seed, level="proof")
    rng = random.Random(seed)
    res.rule = (
        "(a) real _parse_times vs Lean parseTimes on EVERY int in -N-2..N+2, every slice with "
        "start/stop/step in {None,-N-1..N+1}, every list of length <=3 over the valid indices "
        "(-N-1..N) plus out-of-range lists, floats on/off grid and at ties, every interval between "
        "such points in both directions, for N<=4 (quick) / N<=6 (thorough) on 4 (start,dt) grids; "
        "(b) real compute_correlations_nt / compute_correlations (ordered and anti) with only the "
        "per-tuple contraction replaced by tagged values vs Lean corrNt/corr2: parsed steps, axes "
        "bit-exact, NaN mask, step tuple of every entry - every pair of distinct parsed step lists "
        "for N<=3 (quick) / N<=5 (thorough), sampled 2-4 operators on N<=5(6), 0/1 operators, "
        "invalid specs; (c) unmodified code with a time-dependent system on an identity process "
        "tensor, entries decoded through single-time calls; (d) dt plumbing for all 9 "
        "(dt argument, stored dt) combinations.  Non-trivial = not an error/empty outcome; "
        "distinct = distinct protocol line.")
    res.assumptions = [
        "binary64 model: round-to-nearest-even on rationals, no overflow/subnormal/NaN; dt != 0",
        "numpy basic/fancy indexing and CPython slice.indices semantics as modelled "
        "(checked exhaustively on the small grids, not proved)",
        "a time `list` holds Python ints (no bools, no nested lists, no slices inside lists)",
        "the value of an entry depends only on its step tuple (the contraction is C03/C18's concern)",
    ]
    res.not_shown = [
        "equality of each entry with the exact multi-time correlation of the joint evolution "
        "(tensor-network contraction; properties C03/C18)",
        "bath-mode occupations / two-time bath correlations vs the displaced-oscillator closed form "
        "(bath_dynamics.py kernels)",
        "anti_conj is proved for an abstract Hermiticity-preserving comb; that the process-tensor "
        "dynamics is such a comb is C04's concern",
        "that Python slice/fancy-index semantics are what the model says is checked by "
        "enumeration up to N=5, not proved",
    ]
    res.trusted.append("harness/run_C07.py Tagged: the replaced _compute_ordered_nt_correlations "
                       "returns one value per later time, in order, and fails on an empty selection "
                       "like the real one (cross-checked by the unwrapped runs (c))")
    if replay:
        replay_one(res, json.load(open(replay)))
        if res.failing:
            return fw.finish(res, None)
        fw.log("replay %s: the recorded input no longer fails" % replay)
    # operators acting at one and the same time are stacked through Control.add_single: the order
    # of that composition (C18: regenerated operand order + stack_order theorems) is part of
    # "each entry is the correlation for exactly these operators at these times"
    c18 = ["OQuPyVerif.Props.C18.stack_order_partial", "OQuPyVerif.Props.C18.acts_once_at_step",
           "OQuPyVerif.Props.C18.recorded_word"]
    fw.standard_pipeline(res, ["CorrTimes", "ControlCompose"], THEOREMS + c18,
                         extra_modules=["OQuPyVerif.Props.C18"])
    built = all(o[1] for o in res.obligations if o[0].startswith("translator"))
    try:
        if built:
            correspondence(res, tier, rng, load_corpus())
        else:
            res.notes.append("correspondence skipped: generated model unavailable")
    except fw.Infra as e:
        res.oblige("correspondence run", False, str(e))
    def search_all(r):
        search(r)
        from . import run_C18
        sub = fw.Result(PID, r.tier, r.seed)
        run_C18.search(sub)
        for key, payload in sub.failing:
            if key != run_C18.KEY_MIXED:        # C18's known finding is not a C07 matter
                r.fail("control-stack:" + key, payload)
    return fw.finish(res, search_all)
